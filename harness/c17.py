"""C17: a reported expression match is a genuine match.

Tie: real dagrt.expression.match (and the record list its unifier returns) vs
coq/model/Match.v evaluated by vm_compute, on an exhaustive small-scope stream
of template/target pairs + random structured pairs (targets obtained by
instantiating, permuting and regrouping templates, repeated variables, dropped
identity elements inside calls, keyword arguments, pre-matches) + unrelated pairs.

Oracle (independent of the model): substitute the returned bindings back into
the template with the real dagrt.expression.substitute and evaluate both sides
with exact rational arithmetic at random integer points under random integer
function tables; check that only free variables are bound and that the
pre-match is respected; a failure must be one of the two documented ValueErrors.
"""
import hashlib
import itertools
import json
import os
import random
import warnings
from fractions import Fraction

from harness import common

PID = "C17"

FREE_POOL = ["x", "y", "z"]
BOUND_POOL = ["a", "b", "c"]
TARGET_POOL = ["a", "b", "c", "d", "p", "q"]
FUN_POOL = ["f", "g", "<func>h"]
KW_POOL = ["k", "j", "m"]
MAX_AC_CHILDREN = 7     # CPython iterates sets of ints < 8 in increasing order (modelled as such)


# ------------------------------------------------------------------ expression representation
# ("var", name) | ("int", z) | ("sum", [e..]) | ("prod", [e..]) | ("quot", a, b) | ("pow", a, b)
# | ("call", fexpr, [args], [(key, e)..])

def V(x):
    return ("var", x)


def I(z):
    return ("int", z)


def _tup(e):
    """JSON lists back to the tuple representation."""
    k = e[0]
    if k in ("var", "int"):
        return (k, e[1])
    if k in ("sum", "prod"):
        return (k, [_tup(c) for c in e[1]])
    if k in ("quot", "pow"):
        return (k, _tup(e[1]), _tup(e[2]))
    if k == "call":
        return ("call", _tup(e[1]), [_tup(c) for c in e[2]], [(kv[0], _tup(kv[1])) for kv in e[3]])
    raise ValueError(e)


def to_real(e):
    import pymbolic.primitives as p
    from constantdict import constantdict
    k = e[0]
    if k == "var":
        return p.Variable(e[1])
    if k == "int":
        return int(e[1])
    if k == "sum":
        return p.Sum(tuple(to_real(c) for c in e[1]))
    if k == "prod":
        return p.Product(tuple(to_real(c) for c in e[1]))
    if k == "quot":
        return p.Quotient(to_real(e[1]), to_real(e[2]))
    if k == "pow":
        return p.Power(to_real(e[1]), to_real(e[2]))
    if k == "call":
        f = to_real(e[1])
        args = tuple(to_real(c) for c in e[2])
        if e[3]:
            return p.CallWithKwargs(f, args, constantdict({kk: to_real(v) for kk, v in e[3]}))
        return p.Call(f, args)
    raise ValueError(e)


class Unrepresentable(Exception):
    pass


def from_real(r):
    import pymbolic.primitives as p
    if isinstance(r, bool):
        raise Unrepresentable(repr(r))
    if isinstance(r, int):
        return ("int", int(r))
    if isinstance(r, p.Variable):
        return ("var", r.name)
    if type(r) is p.Sum:
        return ("sum", [from_real(c) for c in r.children])
    if type(r) is p.Product:
        return ("prod", [from_real(c) for c in r.children])
    if type(r) is p.Quotient:
        return ("quot", from_real(r.numerator), from_real(r.denominator))
    if type(r) is p.Power:
        return ("pow", from_real(r.base), from_real(r.exponent))
    if type(r) is p.Call:
        return ("call", from_real(r.function), [from_real(c) for c in r.parameters], [])
    if type(r) is p.CallWithKwargs:
        if not r.kw_parameters:
            raise Unrepresentable("CallWithKwargs without keyword arguments")
        return ("call", from_real(r.function), [from_real(c) for c in r.parameters],
                [(kk, from_real(v)) for kk, v in r.kw_parameters.items()])
    raise Unrepresentable(repr(r))


def canon_t(e):
    """Keyword arguments sorted by key at every call (Python's == ignores their order)."""
    k = e[0]
    if k in ("var", "int"):
        return e
    if k in ("sum", "prod"):
        return (k, [canon_t(c) for c in e[1]])
    if k in ("quot", "pow"):
        return (k, canon_t(e[1]), canon_t(e[2]))
    return ("call", canon_t(e[1]), [canon_t(c) for c in e[2]], sorted((kk, canon_t(v)) for kk, v in e[3]))


def coq_str(s):
    assert '"' not in s
    return '"%s"' % s


def to_coq(e):
    k = e[0]
    if k == "var":
        return "(EVar %s)" % coq_str(e[1])
    if k == "int":
        return "(EInt %d)" % e[1] if e[1] >= 0 else "(EInt (%d))" % e[1]
    if k == "sum":
        return "(EAC OSum [%s])" % "; ".join(to_coq(c) for c in e[1])
    if k == "prod":
        return "(EAC OProd [%s])" % "; ".join(to_coq(c) for c in e[1])
    if k == "quot":
        return "(EQuot %s %s)" % (to_coq(e[1]), to_coq(e[2]))
    if k == "pow":
        return "(EPow %s %s)" % (to_coq(e[1]), to_coq(e[2]))
    if k == "call":
        return "(ECall %s [%s] [%s])" % (to_coq(e[1]), "; ".join(to_coq(c) for c in e[2]),
                                         "; ".join("(%s, %s)" % (coq_str(kk), to_coq(v)) for kk, v in e[3]))
    raise ValueError(e)


def coq_strs(l):
    return "[%s]" % "; ".join(coq_str(x) for x in l)


def coq_sigma(pairs):
    return "[%s]" % "; ".join("(%s, %s)" % (coq_str(x), to_coq(v)) for x, v in pairs)


def size(e):
    k = e[0]
    if k in ("var", "int"):
        return 1
    if k in ("sum", "prod"):
        return 1 + sum(size(c) for c in e[1])
    if k in ("quot", "pow"):
        return 1 + size(e[1]) + size(e[2])
    return 1 + size(e[1]) + sum(size(c) for c in e[2]) + sum(size(v) for _, v in e[3])


def names_of(e, acc=None):
    """All variable names, function position included (independent re-implementation of
    get_variables(..., include_function_symbols=True))."""
    if acc is None:
        acc = []
    k = e[0]
    if k == "var":
        if e[1] not in acc:
            acc.append(e[1])
    elif k in ("sum", "prod"):
        for c in e[1]:
            names_of(c, acc)
    elif k in ("quot", "pow"):
        names_of(e[1], acc)
        names_of(e[2], acc)
    elif k == "call":
        names_of(e[1], acc)
        for c in e[2]:
            names_of(c, acc)
        for _, v in e[3]:
            names_of(v, acc)
    return acc


def fn_names(e, acc=None):
    """Names standing in function position."""
    if acc is None:
        acc = []
    k = e[0]
    if k in ("sum", "prod"):
        for c in e[1]:
            fn_names(c, acc)
    elif k in ("quot", "pow"):
        fn_names(e[1], acc)
        fn_names(e[2], acc)
    elif k == "call":
        if e[1][0] == "var":
            acc.append(e[1][1])
        else:
            fn_names(e[1], acc)
        for c in e[2]:
            fn_names(c, acc)
        for _, v in e[3]:
            fn_names(v, acc)
    return acc


def max_ac(e):
    k = e[0]
    if k in ("var", "int"):
        return 0
    if k in ("sum", "prod"):
        return max([len(e[1])] + [max_ac(c) for c in e[1]])
    if k in ("quot", "pow"):
        return max(max_ac(e[1]), max_ac(e[2]))
    return max([max_ac(e[1])] + [max_ac(c) for c in e[2]] + [max_ac(v) for _, v in e[3]] + [0])


def case_size(c):
    return size(c["tpl"]) + size(c["tgt"]) + sum(size(v) for _, v in (c["pre"] or []))


def case_free(c):
    """The declared free variables of a case (independent of dagrt)."""
    if c["free"] is not None:
        return list(c["free"])
    bound = c["bound"] or []
    return [x for x in names_of(c["tpl"]) if x not in bound]


# ------------------------------------------------------------------ running the implementation

def swap_table(c):
    """For every ordered pair of distinct variable names of the template: does the Python set built by
    inserting Variable(x) then Variable(y) iterate y first?  (map_modulo_identity iterates such a set.)"""
    from pymbolic.primitives import Variable
    names = [x for x in names_of(c["tpl"]) if x in case_free(c)]
    out = []
    for x in names:
        for y in names:
            if x != y:
                order = [v.name for v in {t for t in (Variable(x), Variable(y))}]
                if order == [y, x]:
                    out.append((x, y))
    return out


def run_impl(c):
    """-> dict(kind="ok", sigma=[(name, expr)] sorted, ambiguous=bool, records=[[(name, expr)]..], swap=[...])
       | dict(kind="err_unify"|"err_pre"|"exc", ...)"""
    import dagrt.expression as de
    tpl, tgt = to_real(c["tpl"]), to_real(c["tgt"])
    pre = None if c["pre"] is None else {x: to_real(v) for x, v in c["pre"]}
    captured = []
    orig_call = de._ExtendedUnifier.__call__

    def spy(self, expr, other, urecs=None):
        res = orig_call(self, expr, other, urecs)
        captured.append(res)
        return res

    out = {"swap": swap_table(c)}
    de._ExtendedUnifier.__call__ = spy
    try:
        with warnings.catch_warnings(record=True) as w:
            warnings.simplefilter("always")
            try:
                res = de.match(tpl, tgt, free_variable_names=None if c["free"] is None else list(c["free"]),
                               bound_variable_names=None if c["bound"] is None else list(c["bound"]),
                               pre_match=pre)
            except ValueError as ex:
                msg = str(ex)
                if msg == "Cannot unify expressions.":
                    out.update(kind="err_unify")
                elif "was given in 'pre_match' but is not a candidate for matching" in msg and msg.startswith("'"):
                    out.update(kind="err_pre", name=msg[1:msg.index("'", 1)])
                else:
                    out.update(kind="exc", exception="ValueError", message=msg)
                return out
            except Exception as ex:  # noqa: BLE001 - the class is the observable
                out.update(kind="exc", exception=type(ex).__name__, message=str(ex)[:200])
                return out
            amb = any("ambiguous" in str(x.message) for x in w)
    finally:
        de._ExtendedUnifier.__call__ = orig_call
    try:
        sigma = sorted((x, from_real(v)) for x, v in res.items())
        records = [sorted((lhs.name, from_real(rhs)) for lhs, rhs in r.equations) for r in captured[-1]]
    except Unrepresentable as ex:
        out.update(kind="exc", exception="Unrepresentable", message=str(ex)[:200])
        return out
    out.update(kind="ok", sigma=sigma, ambiguous=amb, records=records)
    return out


# ------------------------------------------------------------------ oracle (independent of the model)

class Undefined(Exception):
    pass


class IllFormed(Exception):
    pass


def _h(*parts):
    d = hashlib.sha256(repr(parts).encode()).digest()
    return int.from_bytes(d[:4], "big")


def ev(e, salt):
    """Exact evaluation of a real pymbolic object: variables get integer values derived from
    (salt, name); a call f(args; kwargs) gets an integer derived from (salt, f, values) - a random
    function table; quotient/power are exact over Q, undefined points raise Undefined."""
    import pymbolic.primitives as p
    if isinstance(e, bool):
        raise IllFormed("bool constant")
    if isinstance(e, int):
        return Fraction(e)
    if isinstance(e, p.Variable):
        return Fraction(_h(salt, "var", e.name) % 9 - 4)
    if type(e) is p.Sum:
        return sum((ev(c, salt) for c in e.children), Fraction(0))
    if type(e) is p.Product:
        r = Fraction(1)
        for c in e.children:
            r *= ev(c, salt)
        return r
    if type(e) is p.Quotient:
        n, d = ev(e.numerator, salt), ev(e.denominator, salt)
        if d == 0:
            raise Undefined
        return n / d
    if type(e) is p.Power:
        b, x = ev(e.base, salt), ev(e.exponent, salt)
        if x.denominator != 1 or abs(x) > 6 or (b == 0 and x < 0) or abs(b) > 10 ** 6:
            raise Undefined
        return b ** int(x)
    if type(e) in (p.Call, p.CallWithKwargs):
        # the function table is indexed by the function symbol; a compound expression in function position
        # (only possible when the caller's pre_match binds a function symbol to one) is indexed by its structure,
        # as F (canon f) in the Coq semantics
        if isinstance(e.function, p.Variable):
            fkey = e.function.name
        else:
            try:
                fkey = repr(canon_t(from_real(e.function)))
            except Unrepresentable as ex:
                raise IllFormed("function position: %s" % ex)
        args = tuple(ev(c, salt) for c in e.parameters)
        kw = ()
        if type(e) is p.CallWithKwargs:
            kw = tuple(sorted((kk, ev(v, salt)) for kk, v in e.kw_parameters.items()))
        return Fraction(_h(salt, "fun", fkey, args, kw) % 15 - 7)
    raise IllFormed("unexpected node %r" % (e,))


N_POINTS = 8


def oracle(c, r, seed=0):
    """Decide the property for one case on the implementation's answer.  None = fine."""
    if r["kind"] == "exc":
        return {"kind": "exception", "exception": r["exception"], "message": r.get("message")}
    free = case_free(c)
    if r["kind"] == "err_pre":
        if r["name"] in free or r["name"] not in [x for x, _ in (c["pre"] or [])]:
            return {"kind": "spurious_pre_match_error", "name": r["name"]}
        return None
    if r["kind"] == "err_unify":
        # every pre-match name must have been acceptable, otherwise the other error is the documented one
        bad = [x for x, _ in (c["pre"] or []) if x not in free]
        if bad:
            return {"kind": "wrong_error", "expected": "pre_match not a candidate", "name": bad[0]}
        return None
    from dagrt.expression import substitute
    res = {x: to_real(v) for x, v in r["sigma"]}
    extra = sorted(x for x in res if x not in free)
    if extra:
        return {"kind": "binds_non_free", "names": extra}
    for x, v in (c["pre"] or []):
        if x not in res or not (res[x] == to_real(v)):
            return {"kind": "pre_match_ignored", "name": x, "got": str(res.get(x))}
    tpl, tgt = to_real(c["tpl"]), to_real(c["tgt"])
    try:
        back = substitute(tpl, dict(res))
    except Exception as ex:  # noqa: BLE001
        return {"kind": "substitute_raises", "exception": type(ex).__name__}
    defined = 0
    for i in range(N_POINTS * 3):
        salt = (seed, i)
        try:
            b = ev(tgt, salt)
        except Undefined:
            continue
        except IllFormed:
            return None     # the target is outside the domain of the property (no value to compare with)
        try:
            a = ev(back, salt)
        except Undefined:
            continue
        except IllFormed as ex:
            return {"kind": "ill_formed_instance", "detail": str(ex)}
        defined += 1
        if a != b:
            return {"kind": "value_differs", "point": {x: int(_h(salt, "var", x) % 9 - 4) for x in
                                                       sorted(set(names_of(c["tpl"]) + names_of(c["tgt"])))},
                    "function_table_salt": list(salt), "substituted_template": str(back), "target": str(tgt),
                    "value_template": str(a), "value_target": str(b)}
        if defined >= N_POINTS:
            break
    return None


# ------------------------------------------------------------------ generation

def mk_case(tpl, tgt, free=None, bound=None, pre=None, origin="gen"):
    return {"tpl": tpl, "tgt": tgt, "free": free, "bound": bound, "pre": pre, "origin": origin}


def rand_atom_t(rng):
    k = rng.random()
    if k < 0.5:
        return V(rng.choice(FREE_POOL))
    if k < 0.8:
        return V(rng.choice(BOUND_POOL))
    return I(rng.choice([0, 1, 2, 3, -1]))


def rand_template(rng, budget, depth=0):
    if budget <= 1 or depth > 3:
        return rand_atom_t(rng)
    k = rng.random()
    if k < 0.38:
        n = rng.randint(2, min(4, budget))
        op = "sum" if rng.random() < 0.55 else "prod"
        return (op, [rand_template(rng, max(1, (budget - 1) // n), depth + 1) for _ in range(n)])
    if k < 0.68:
        nargs = rng.randint(0, 2)
        nkw = rng.choice([0, 0, 1, 2])
        if nargs + nkw == 0:
            nargs = 1
        fn = rng.choice(FUN_POOL + ["x"] if rng.random() < 0.15 else FUN_POOL)
        share = max(1, (budget - 1) // (nargs + nkw))
        keys = rng.sample(KW_POOL, nkw)
        return ("call", V(fn), [rand_template(rng, share, depth + 1) for _ in range(nargs)],
                [(kk, rand_template(rng, share, depth + 1)) for kk in keys])
    if k < 0.78:
        return ("quot", rand_template(rng, budget // 2, depth + 1), rand_template(rng, budget // 2, depth + 1))
    if k < 0.86:
        return ("pow", rand_template(rng, budget // 2, depth + 1), rng.choice([I(2), I(3), rand_atom_t(rng)]))
    return rand_atom_t(rng)


def rand_value(rng, budget=3):
    """A target-side expression to instantiate a free variable with."""
    k = rng.random()
    if budget <= 1 or k < 0.45:
        return V(rng.choice(TARGET_POOL)) if rng.random() < 0.8 else I(rng.choice([0, 1, 2, 5, -2]))
    if k < 0.75:
        n = rng.randint(2, 3)
        return (rng.choice(["sum", "prod"]), [rand_value(rng, budget - 1) for _ in range(n)])
    if k < 0.9:
        return ("call", V(rng.choice(FUN_POOL)), [rand_value(rng, budget - 1)], [])
    return ("pow", V(rng.choice(TARGET_POOL)), I(2))


def subst_t(e, s):
    k = e[0]
    if k == "var":
        return s.get(e[1], e)
    if k == "int":
        return e
    if k in ("sum", "prod"):
        return (k, [subst_t(c, s) for c in e[1]])
    if k in ("quot", "pow"):
        return (k, subst_t(e[1], s), subst_t(e[2], s))
    return ("call", subst_t(e[1], s), [subst_t(c, s) for c in e[2]], [(kk, subst_t(v, s)) for kk, v in e[3]])


def scramble(rng, e, free, p_drop):
    """Permute children of sums/products, regroup them into nested nodes, permute keyword arguments,
    drop a free-variable child here and there (so that the match needs the identity element)."""
    k = e[0]
    if k in ("var", "int"):
        return e
    if k in ("sum", "prod"):
        cs = list(e[1])
        if len(cs) >= 2 and rng.random() < p_drop:
            idx = [i for i, ch in enumerate(cs) if ch[0] == "var" and ch[1] in free]
            if idx:
                del cs[rng.choice(idx)]
        cs = [scramble(rng, ch, free, p_drop) for ch in cs]
        rng.shuffle(cs)
        if len(cs) >= 3 and rng.random() < 0.35:
            i = rng.randint(0, len(cs) - 2)
            cs = cs[:i] + [(k, cs[i:i + 2])] + cs[i + 2:]
        if len(cs) == 1:
            return cs[0]
        return (k, cs)
    if k in ("quot", "pow"):
        return (k, scramble(rng, e[1], free, p_drop), scramble(rng, e[2], free, p_drop))
    kw = [(kk, scramble(rng, v, free, p_drop)) for kk, v in e[3]]
    rng.shuffle(kw)
    return ("call", e[1], [scramble(rng, ch, free, p_drop) for ch in e[2]], kw)


def perturb_calls(rng, e, p=0.3):
    """Make the target differ from an instance of the template at a call: drop/add a positional argument,
    drop a keyword argument, or rename the function symbol (a sound matcher must then fail or bind accordingly)."""
    k = e[0]
    if k in ("var", "int"):
        return e
    if k in ("sum", "prod"):
        return (k, [perturb_calls(rng, c, p) for c in e[1]])
    if k in ("quot", "pow"):
        return (k, perturb_calls(rng, e[1], p), perturb_calls(rng, e[2], p))
    f, args, kw = e[1], [perturb_calls(rng, c, p) for c in e[2]], [(kk, perturb_calls(rng, v, p)) for kk, v in e[3]]
    if rng.random() < p:
        r = rng.random()
        if r < 0.3 and args:
            del args[rng.randrange(len(args))]
        elif r < 0.55:
            args.insert(rng.randint(0, len(args)), V(rng.choice(TARGET_POOL)))
        elif r < 0.75 and kw:
            del kw[rng.randrange(len(kw))]
        elif r < 0.85:
            kw.append((rng.choice([x for x in KW_POOL + ["n"] if x not in [kk for kk, _ in kw]]), V("q")))
        else:
            f = V(rng.choice(FUN_POOL))
    return ("call", f, args, kw)


def instantiate(e, s):
    """Substitute, then splice: the instance of a variable standing in a sum may itself be a sum."""
    return subst_t(e, s)


def rand_case(rng):
    kind = rng.random()
    tpl = rand_template(rng, rng.randint(3, 12))
    tnames = names_of(tpl)
    free_all = [x for x in tnames if x in FREE_POOL or (x in FUN_POOL and rng.random() < 0.3)]
    mode = rng.random()
    if mode < 0.7:
        free, bound = list(free_all), None
    elif mode < 0.85:
        free, bound = None, [x for x in tnames if x not in free_all]
    else:
        free, bound = None, None
    eff_free = free if free is not None else [x for x in tnames if x not in (bound or [])]
    if kind < 0.15:
        tgt = rand_template(rng, rng.randint(2, 9)) if rng.random() < 0.5 else rand_value(rng, 4)
        origin = "unrelated"
        s = {}
    else:
        s = {}
        fpos = fn_names(tpl)
        for x in eff_free:
            if x in fpos or x in FUN_POOL:
                s[x] = V(rng.choice(FUN_POOL))
            else:
                s[x] = rand_value(rng, rng.choice([1, 1, 2, 3]))
        tgt = instantiate(tpl, s)
        if rng.random() < 0.85:
            tgt = scramble(rng, tgt, [], 0.0)
        # dropping a free child of the *template side* instance: scramble the instantiated target with the
        # positions of the template's free variables unknown, so drop on the template and re-instantiate
        if rng.random() < 0.3:
            dropped = scramble(rng, tpl, eff_free, 0.6)
            tgt = scramble(rng, instantiate(dropped, s), [], 0.0)
        origin = "instance"
        if rng.random() < 0.15:
            tgt = perturb_calls(rng, tgt)
            origin = "perturbed-instance"
    pre = None
    pk = rng.random()
    if pk < 0.25 and eff_free:
        x = rng.choice(eff_free)
        good = s.get(x, V("a"))
        bad = V(rng.choice(FUN_POOL)) if x in fn_names(tpl) else rand_value(rng, 2)
        pre = [(x, good if rng.random() < 0.7 else bad)]
        if rng.random() < 0.3 and len(eff_free) > 1:
            y = rng.choice([z for z in eff_free if z != x])
            pre.append((y, s.get(y, V("b"))))
    elif pk < 0.3:
        pre = [(rng.choice(BOUND_POOL + ["nowhere"]), V("a"))]
    c = mk_case(tpl, tgt, free, bound, pre, origin)
    if max_ac(c["tpl"]) > 5 or max_ac(c["tgt"]) > MAX_AC_CHILDREN or _flat_width(c["tgt"]) > MAX_AC_CHILDREN:
        return rand_case(rng)
    return c


def _flat_width(e):
    """Upper bound on the number of children of any sum/product after flattening."""
    k = e[0]
    if k in ("var", "int"):
        return 1
    if k in ("sum", "prod"):
        w = 0
        for c in e[1]:
            w += _flat_terms(c, k)
        return max([w] + [_flat_width(c) for c in e[1]])
    if k in ("quot", "pow"):
        return max(_flat_width(e[1]), _flat_width(e[2]))
    return max([_flat_width(e[1])] + [_flat_width(c) for c in e[2]] + [_flat_width(v) for _, v in e[3]] + [1])


def _flat_terms(e, k):
    if e[0] == k:
        return sum(_flat_terms(c, k) for c in e[1])
    return 1


def exhaustive_cases(tier):
    """Complete enumeration, free = {x, y}.  (1) templates = all sums and products of 2 atoms from {x, y, a, 2},
    all sums of 3 atoms from {x, y, a} (thorough: sums and products of 3 atoms from {x, y, a, 2}); targets = the atoms
    a, b, 0, 1, 2 and all sums and products of 2..3 atoms from {a, b, 2}.  (2) calls fn(c1, c2) and f(k=c1, j=c2)
    with c from {x, a, x+a, x*y[, x+y]} against fn'(o1, o2) resp. f(j=o2, k=o1) with o from {a, b, 1, a+b, b+a[, a*b]},
    fn in {f, x (free symbol)}, fn' in {f, g}; the same with one positional/keyword argument more or less on one side."""
    t_atoms = [V("x"), V("y"), V("a"), I(2)]
    o_atoms = [V("a"), V("b"), I(2)]
    o_single = [V("a"), V("b"), I(0), I(1), I(2)]
    tpls, tgts = [], []
    for op in ("sum", "prod"):
        for cs in itertools.product(t_atoms, repeat=2):
            tpls.append((op, list(cs)))
        if tier != "quick":
            for cs in itertools.product(t_atoms, repeat=3):
                tpls.append((op, list(cs)))
        elif op == "sum":
            for cs in itertools.product(t_atoms[:3], repeat=3):
                tpls.append((op, list(cs)))
        for n in (2, 3):
            for cs in itertools.product(o_atoms, repeat=n):
                tgts.append((op, list(cs)))
    tgts = o_single + tgts
    cases = [mk_case(t, o, ["x", "y"], None, None, "exhaustive-ac") for t in tpls for o in tgts]
    t_small = [V("x"), V("a"), ("sum", [V("x"), V("a")]), ("prod", [V("x"), V("y")])]
    o_small = [V("a"), V("b"), I(1), ("sum", [V("a"), V("b")]), ("sum", [V("b"), V("a")])]
    if tier != "quick":
        t_small.append(("sum", [V("x"), V("y")]))
        o_small.append(("prod", [V("a"), V("b")]))
    for fn_t, fn_o in (("f", "f"), ("f", "g"), ("x", "g")):
        for c1 in t_small:
            for c2 in t_small:
                for o1 in o_small:
                    for o2 in o_small:
                        cases.append(mk_case(("call", V(fn_t), [c1, c2], []), ("call", V(fn_o), [o1, o2], []),
                                             ["x", "y"], None, None, "exhaustive-call"))
                        if fn_t == "f" and fn_o == "f":
                            cases.append(mk_case(("call", V("f"), [], [("k", c1), ("j", c2)]),
                                                 ("call", V("f"), [], [("j", o2), ("k", o1)]),
                                                 ["x", "y"], None, None, "exhaustive-kw"))
    for c1 in t_small:
        for o1 in o_small:
            for o2 in o_small:
                cases.append(mk_case(("call", V("f"), [c1], []), ("call", V("f"), [o1, o2], []),
                                     ["x", "y"], None, None, "exhaustive-arity"))
                cases.append(mk_case(("call", V("f"), [c1], [("k", V("y"))]), ("call", V("f"), [o1], [("k", o2), ("j", o1)]),
                                     ["x", "y"], None, None, "exhaustive-arity"))
            for c2 in t_small:
                cases.append(mk_case(("call", V("f"), [c1, c2], []), ("call", V("f"), [o1], []),
                                     ["x", "y"], None, None, "exhaustive-arity"))
    return cases


def corpus():
    out = []
    d = os.path.join(common.VERIF, "corpus", PID)
    if os.path.isdir(d):
        for f in sorted(os.listdir(d)):
            if f.endswith(".json"):
                out.append(case_from_json(json.load(open(os.path.join(d, f)))))
    return out


def case_from_json(j):
    return {"tpl": _tup(j["tpl"]), "tgt": _tup(j["tgt"]), "free": j.get("free"), "bound": j.get("bound"),
            "pre": None if j.get("pre") is None else [(x, _tup(v)) for x, v in j["pre"]],
            "origin": j.get("origin", "corpus")}


def case_to_json(c):
    return {"tpl": c["tpl"], "tgt": c["tgt"], "free": c["free"], "bound": c["bound"], "pre": c["pre"],
            "origin": c.get("origin")}


def gen_cases(tier, seed):
    cases = corpus()
    n_corpus = len(cases)
    ex = exhaustive_cases(tier)
    cases.extend(ex)
    rng = random.Random(seed * 7919 + 17)
    nrand = 2000 if tier == "quick" else 20000
    for _ in range(nrand):
        cases.append(rand_case(rng))
    dist = {"corpus": n_corpus, "exhaustive": len(ex), "random": nrand,
            "exhaustive_scope": " ".join(exhaustive_cases.__doc__.split())}
    return cases, dist


# ------------------------------------------------------------------ shrinking

def _sub_exprs(e):
    k = e[0]
    if k in ("sum", "prod"):
        for c in e[1]:
            yield c
        if len(e[1]) > 1:
            for i in range(len(e[1])):
                rest = e[1][:i] + e[1][i + 1:]
                yield (k, rest) if len(rest) > 1 else rest[0]
        for i, c in enumerate(e[1]):
            for c2 in _sub_exprs(c):
                yield (k, e[1][:i] + [c2] + e[1][i + 1:])
    elif k in ("quot", "pow"):
        yield e[1]
        yield e[2]
        for c2 in _sub_exprs(e[1]):
            yield (k, c2, e[2])
        for c2 in _sub_exprs(e[2]):
            yield (k, e[1], c2)
    elif k == "call":
        for c in e[2]:
            yield c
        for _, v in e[3]:
            yield v
        for i in range(len(e[3])):
            yield ("call", e[1], e[2], e[3][:i] + e[3][i + 1:])
        for i, c in enumerate(e[2]):
            for c2 in _sub_exprs(c):
                yield ("call", e[1], e[2][:i] + [c2] + e[2][i + 1:], e[3])
        for i, (kk, v) in enumerate(e[3]):
            for v2 in _sub_exprs(v):
                yield ("call", e[1], e[2], e[3][:i] + [(kk, v2)] + e[3][i + 1:])


def _neighbours(c):
    if c["pre"]:
        yield dict(c, pre=None)
        for i in range(len(c["pre"])):
            if len(c["pre"]) > 1:
                yield dict(c, pre=c["pre"][:i] + c["pre"][i + 1:])
    for t in _sub_exprs(c["tpl"]):
        yield dict(c, tpl=t)
    for t in _sub_exprs(c["tgt"]):
        yield dict(c, tgt=t)
    # matching argument of matching calls
    a, b = c["tpl"], c["tgt"]
    if a[0] == "call" and b[0] == "call":
        for i in range(min(len(a[2]), len(b[2]))):
            yield dict(c, tpl=a[2][i], tgt=b[2][i])
            yield dict(c, tpl=("call", a[1], a[2][:i] + a[2][i + 1:], a[3]),
                       tgt=("call", b[1], b[2][:i] + b[2][i + 1:], b[3]))
        for i in range(len(a[2])):
            yield dict(c, tpl=("call", a[1], a[2][:i] + a[2][i + 1:], a[3]))
        for i in range(len(b[2])):
            yield dict(c, tgt=("call", b[1], b[2][:i] + b[2][i + 1:], b[3]))
    if c["pre"]:
        for i, (x, v) in enumerate(c["pre"]):
            for v2 in _sub_exprs(v):
                yield dict(c, pre=c["pre"][:i] + [(x, v2)] + c["pre"][i + 1:])


def shrink(c, fails, limit=400):
    changed, n = True, 0
    while changed and n < limit:
        changed = False
        for cand in _neighbours(c):
            n += 1
            if case_size(cand) < case_size(c) and fails(cand):
                c, changed = cand, True
                break
            if n >= limit:
                break
    return c


# ------------------------------------------------------------------ the check

HEADER = ("From Coq Require Import ZArith String List Bool.\nImport ListNotations.\n"
          "From Dagrt Require Import GenC17 Match.\nOpen Scope string_scope.\nOpen Scope Z_scope.\n"
          "Definition c17_idel := idel_of c17_sum_id c17_prod_id.\n"
          "Inductive expected :=\n"
          "| XOk (s : list (string * expr)) (amb : bool) (recs : list (list (string * expr)))\n"
          "| XErrUnify | XErrPre (x : string) | XOther.\n"
          "Record tcase := mkC { c_swap : list (string * string); c_free : option (list string);\n"
          "  c_bound : list string; c_pre : option (list (string * expr)); c_tpl : expr; c_tgt : expr;\n"
          "  c_exp : expected }.\n"
          "Definition model (c : tcase) := match_model (swap_of (c_swap c)) c17_idel (c_free c) (c_bound c)\n"
          "  (c_pre c) (c_tpl c) (c_tgt c).\n"
          "Definition model_records (c : tcase) := map eqs (match_records (swap_of (c_swap c)) c17_idel\n"
          "  (free_names (c_free c) (c_bound c) (c_tpl c)) (c_pre c) (c_tpl c) (c_tgt c)).\n"
          "Definition chk (c : tcase) : bool :=\n"
          "  match model c, c_exp c with\n"
          "  | MOk s amb, XOk s' amb' recs => sigma_eqb s s' && Bool.eqb amb amb'\n"
          "                                   && list_eqb sigma_eqb (model_records c) recs\n"
          "  | MErr ValueError_cannot_unify, XErrUnify => true\n"
          "  | MErr (ValueError_pre_match_not_candidate x), XErrPre y => String.eqb x y\n"
          "  | _, _ => false end.\n")


def case_term(c, r):
    if r["kind"] == "ok":
        exp = "(XOk %s %s [%s])" % (coq_sigma(r["sigma"]), "true" if r["ambiguous"] else "false",
                                    "; ".join(coq_sigma(rec) for rec in r["records"]))
    elif r["kind"] == "err_unify":
        exp = "XErrUnify"
    elif r["kind"] == "err_pre":
        exp = "(XErrPre %s)" % coq_str(r["name"])
    else:
        exp = "XOther"
    free = "None" if c["free"] is None else "(Some %s)" % coq_strs(c["free"])
    pre = "None" if c["pre"] is None else "(Some %s)" % coq_sigma(c["pre"])
    return "(mkC [%s] %s %s %s %s %s %s)" % (
        "; ".join("(%s, %s)" % (coq_str(x), coq_str(y)) for x, y in r["swap"]), free,
        coq_strs(c["bound"] or []), pre, to_coq(c["tpl"]), to_coq(c["tgt"]), exp)


def public(r):
    return dict(r)


def run_impl_other_seed(cases, hashseed):
    """Run the implementation on `cases` in a fresh interpreter with another PYTHONHASHSEED (the iteration order
    of the Python set in map_modulo_identity, hence the FIRST record, depends on it)."""
    import pickle
    import subprocess
    import sys
    import tempfile
    d = tempfile.mkdtemp(prefix="c17_")
    try:
        with open(os.path.join(d, "cases.pkl"), "wb") as f:
            pickle.dump(cases, f)
        env = dict(os.environ, PYTHONHASHSEED=str(hashseed))
        subprocess.run([sys.executable, "-c",
                        "import pickle, sys; from harness import c17; "
                        "cs = pickle.load(open(sys.argv[1] + '/cases.pkl', 'rb')); "
                        "pickle.dump([c17.run_impl(c) for c in cs], open(sys.argv[1] + '/res.pkl', 'wb'))", d],
                       env=env, check=True, timeout=900, cwd=common.VERIF)
        with open(os.path.join(d, "res.pkl"), "rb") as f:
            return pickle.load(f)
    finally:
        import shutil
        shutil.rmtree(d, ignore_errors=True)


def is_nontrivial(c, r):
    """The match succeeded and had to do more than bind variables to whole corresponding operands."""
    if r["kind"] != "ok":
        return False
    return any(v[0] in ("sum", "prod", "int", "call") for _, v in r["sigma"]) or r["ambiguous"]


def main(tier):
    rep = common.Reporter(PID, tier)
    seed = common.seed()
    ps = common.proof_stage(rep, PID, gen=["c17"])

    cases, dist = gen_cases(tier, seed)
    results = [run_impl(c) for c in cases]
    # the same inputs under other hash seeds: corpus + cases whose answer was ambiguous
    amb_idx = [i for i, r in enumerate(results) if r.get("ambiguous") or i < dist["corpus"]]
    amb_idx = amb_idx[:300 if tier == "quick" else 2000]
    other_seeds = (1,) if tier == "quick" else (1, 2, 3)
    n_other = 0
    for hs in other_seeds:
        sub = [dict(cases[i], origin="hashseed=%d" % hs) for i in amb_idx]
        res = run_impl_other_seed(sub, hs)
        cases.extend(sub)
        results.extend(res)
        n_other += len(sub)
    dist["other_hash_seeds"] = {"seeds": list(other_seeds), "cases": n_other}

    # implementation-level oracle on every case
    failing = {}
    for c, r in zip(cases, results):
        o = oracle(c, r, seed)
        if o is not None:
            key = o["kind"] + ":" + o.get("exception", "")
            if key not in failing or case_size(c) < case_size(failing[key][0]):
                failing[key] = (c, r, o)
    for key, (c, r, o) in sorted(failing.items()):
        kind = o["kind"]

        def fails(cand, kind=kind):
            oo = oracle(cand, run_impl(cand), seed)
            return oo is not None and oo["kind"] == kind

        c2 = shrink(c, fails)
        r2 = run_impl(c2)
        rep.violation({"what": "match returns a substitution that is not a genuine match, or raises an "
                               "undocumented exception",
                       "case": case_to_json(c2), "template": str(to_real(c2["tpl"])),
                       "target": str(to_real(c2["tgt"])),
                       "impl_result": public(r2), "oracle": oracle(c2, r2, seed),
                       "replay": "./check C17 --replay <this file>"})

    # correspondence with the Coq model
    n_eval, mism, errors = 0, [], []
    if os.path.exists(os.path.join(common.COQ, "model", "Match.vo")) and os.path.exists(
            os.path.join(common.COQ, "gen", "GenC17.vo")):
        terms = [case_term(c, r) for c, r in zip(cases, results)]
        mism, n_eval, errors = common.eval_cases(PID, HEADER, terms, "chk", shard=250)
    else:
        errors = ["model not built"]

    tie_broken = bool(mism or errors)
    if (not ps["ok"] or tie_broken) and not rep.violations:
        detail = {"what": "proof obligation or model/implementation correspondence no longer checks; "
                          "no failing input found by the implementation-level oracle",
                  "proof_stage": ps, "coq_errors": errors[:3]}
        if mism:
            i = min(mism, key=lambda k: case_size(cases[k]))
            detail["first_disagreeing_case"] = {
                "case": case_to_json(cases[i]), "impl_result": public(results[i]),
                "model_result": common.eval_term(HEADER, "model %s" % case_term(cases[i], results[i]))}
            detail["n_disagreements"] = len(mism)
        detail["broken"] = ("theorem file %s" % ps.get("theorem")) if not ps["ok"] else \
            "correspondence dagrt.expression.match ~ Dagrt.Match.match_model"
        rep.violation(detail, no_input=True)
    elif not ps["ok"] or tie_broken:
        rep.coverage["broken_obligation"] = ps if not ps["ok"] else {"disagreements": len(mism)}

    kinds = {}
    for r in results:
        kinds[r["kind"]] = kinds.get(r["kind"], 0) + 1
    distinct = len({json.dumps(case_to_json(c), sort_keys=True) for c, r in zip(cases, results)
                    if is_nontrivial(c, r)})
    mid = dist["corpus"] + dist["exhaustive"] + dist["random"] // 2
    rep.coverage.update(
        evaluations=len(cases), distinct_nontrivial=distinct,
        rule="cases = corpus + exhaustive small templates x targets + random structured pairs; non-trivial = "
             "match succeeds and binds some variable to a constant (identity element), a sum/product (partition "
             "of the target's operands) or a call, or is ambiguous; distinct by (template, target, free, pre)",
        traces_validated_against_impl=n_eval, model_impl_disagreements=len(mism),
        oracle_checked=len(cases),
        input_distribution=dict(dist, result_kinds=kinds,
                                ambiguous=sum(1 for r in results if r.get("ambiguous")),
                                with_pre_match=sum(1 for c in cases if c["pre"]),
                                with_kwargs=sum(1 for c in cases if "'call'" in repr(c["tpl"]) and
                                                any(True for _ in _kw_calls(c["tpl"])))),
        size_histogram={str(k): sum(1 for c in cases if case_size(c) // 5 * 5 == k) for k in range(0, 60, 5)},
        samples=[{"template": str(to_real(cases[i]["tpl"])), "target": str(to_real(cases[i]["tgt"])),
                  "free": cases[i]["free"], "impl": public(results[i])["kind"],
                  "sigma": [[x, str(to_real(v))] for x, v in results[i].get("sigma", [])]}
                 for i in (0, len(cases) // 3, mid, len(cases) - 1)],
        exhaustive=False,
    )
    rep.assumptions = [
        "expressions range over variables, int constants, sums, products, quotients, powers, calls with "
        "positional/keyword arguments (Python ints only; no floats/bools)",
        "function position of every template call is a symbol (Variable)",
        "sums/products of the flattened target have at most 7 operands (CPython iterates sets of ints < 8 in "
        "increasing order; the model uses increasing order)",
        "pymbolic's flatten is modelled, not verified: the theorem relates the flattened template and target",
    ]
    return rep.finish("proof")


def _kw_calls(e):
    k = e[0]
    if k in ("sum", "prod"):
        for c in e[1]:
            yield from _kw_calls(c)
    elif k in ("quot", "pow"):
        yield from _kw_calls(e[1])
        yield from _kw_calls(e[2])
    elif k == "call":
        if e[3]:
            yield e
        for c in e[2]:
            yield from _kw_calls(c)
        for _, v in e[3]:
            yield from _kw_calls(v)


def replay(path):
    r = json.load(open(path))
    cj = r.get("case") or (r.get("first_disagreeing_case") or {}).get("case")
    if cj is None:
        print("replay names a broken obligation, no input: %s" % r.get("broken"))
        return 1
    c = case_from_json(cj)
    res = run_impl(c)
    o = oracle(c, res, r.get("seed", 0))
    print(json.dumps({"template": str(to_real(c["tpl"])), "target": str(to_real(c["tgt"])),
                      "free": c["free"], "bound": c["bound"],
                      "pre": None if c["pre"] is None else [[x, str(to_real(v))] for x, v in c["pre"]],
                      "impl_result": public(res), "oracle": o}, indent=1, default=str))
    return 1 if o is not None else 0
