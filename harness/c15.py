"""C15: generated source text is a pure function of the method description.

Oracle (implementation level, independent of the model): 8 values of PYTHONHASHSEED x 6
configurations (statement containers as list / frozenset / tuple; statements, dependency sets and
the phase dict built in permuted order; another rotation of the program list; every program
generated twice in a row by separate generator objects) = 48 "lanes", each a
fresh interpreter process that generates ALL programs one after the other with new generator
objects -- so every program is also produced after different predecessors in the same process,
and in one configuration directly after a generator that produced the very same method.
Observed per program: sha256 of the Python text, of the Fortran text and of the real
interpreter's event list.  All lanes must agree byte for byte; a difference is classified (hash
seed / container order / history), shrunk, and reported with the two configurations and a unified
diff excerpt.  The programs exercise: user right-hand sides and a two-result user function, a user
function whose template declares temporaries, keyword-argument calls, the built-ins with Fortran
templates of their own (array, matmul, transpose, linear_solve, svd, print) and the computed ones
(norm_2, len, isnan, elementwise_abs), looping assignments with several distinct counters, identifiers of 35-80 characters,
if/else, switch/restart/fail/raise, several phases/components/time ids, and the generator's options
(instrumentation on/off, trace, state update hooks, extra arguments, preambles, flat and nested
user types with a structure and a pointer member).

Tie to the model (coq/model/Determ.v): the real code of the modelled iteration sites
(SelfDependencyEliminator.map_statement, var_to_last_dependent_statement_mapping,
emit_deinit_for_last_usage_of_vars, the end-of-function deinit loop, the Python generator's
iteration over dag.phases, ArrayType's default index variables, the sorted declaration /
initialisation loops of emit_def_begin) is run with set-like objects whose
iteration order is dictated by the harness and compared with the model evaluated by vm_compute on
the same explicit order lists.  harness/tr/c15.py additionally enumerates every for/comprehension
of dagrt/codegen/*.py whose iterable is not syntactically ordered and requires the list to equal
the vetted table (fail-closed).
"""
import difflib
import hashlib
import itertools
import json
import os
import random
import shutil
import subprocess
import sys
import tempfile
import time

from harness import common

PID = "C15"
SEEDS = [0, 1, 2, 3, 4, 5, 6, 7]

# ====================================================================== programs
#
# program = {"name": str, "initial": phase, "steps": n, "phases": [{"name", "next", "ops": [op...]}]}
# op = ["asg", lhs | [lhs...], rhs]            cb(lhs, rhs)
#    | ["loop", lhs, rhs, [[i, lo, hi]...]]    cb(lhs, rhs, loops=...)
#    | ["if", cond, [op...], [op...]]          with cb.if_(cond): ... / with cb.else_(): ...
#    | ["yield", expr, comp, time, time_id] | ["switch", phase] | ["fail"] | ["restart"]
#    | ["raise", message]                      cb.raise_(MethodError, message)
# lhs [] is the empty assignee tuple (cb((), "`<builtin>print`(x)")).
# Optional program key "fopts": options of the Fortran generator (see fortran_text).
# The canonical description is what the real CodeBuilder makes of the ops (ids, dependencies).


class MethodError:
    """error condition of the ["raise", ...] op (only its __name__ reaches the generated text)"""


def _apply_ops(cb, ops):
    from dagrt.expression import parse
    for op in ops:
        k = op[0]
        if k == "asg":
            lhs = tuple(op[1]) if isinstance(op[1], list) else op[1]
            cb(lhs, op[2])
        elif k == "loop":
            cb(op[1], op[2], loops=[(i, lo, hi) for i, lo, hi in op[3]])
        elif k == "if":
            with cb.if_(op[1]):
                _apply_ops(cb, op[2])
            if len(op) > 3 and op[3]:
                with cb.else_():
                    _apply_ops(cb, op[3])
        elif k == "yield":
            cb.yield_state(op[1], op[2], parse(op[3]), op[4])
        elif k == "switch":
            cb.switch_phase(op[1])
        elif k == "fail":
            cb.fail_step()
        elif k == "restart":
            cb.restart_step()
        elif k == "raise":
            cb.raise_(MethodError, op[1])
        else:
            raise ValueError(op)


def canonical_statements(phase):
    """ops -> the statements of the real CodeBuilder, in the builder's own order."""
    from dagrt.language import CodeBuilder
    with CodeBuilder(name=phase["name"]) as cb:
        _apply_ops(cb, phase["ops"])
    return list(cb.statements)


def _permute(items, key, tag):
    """Deterministic permutation of a list: key 0 = as is, 1 = reversed, otherwise a shuffle
    that depends on (key, tag) only (never on the hash seed)."""
    items = list(items)
    if key == 0:
        return items
    if key == 1:
        return items[::-1]
    rng = random.Random("%d/%s" % (key, tag))
    rng.shuffle(items)
    return items


def make_code(prog, cfg):
    """The same description, stored differently: cfg = {"container": "list"|"frozenset"|"tuple",
    "perm": k, "dep_perm": k, "phase_perm": k}."""
    from dagrt.language import DAGCode, ExecutionPhase
    phases = []
    for ph in prog["phases"]:
        stmts = canonical_statements(ph)
        stmts = [s.copy(depends_on=frozenset(_permute(sorted(s.depends_on), cfg.get("dep_perm", 0), s.id)))
                 for s in stmts]
        stmts = _permute(stmts, cfg.get("perm", 0), ph["name"])
        cont = cfg.get("container", "list")
        if cont == "frozenset":
            stmts = frozenset(stmts)
        elif cont == "tuple":
            stmts = tuple(stmts)
        phases.append(ExecutionPhase(name=ph["name"], next_phase=ph["next"], statements=stmts))
    phases = _permute(phases, cfg.get("phase_perm", 0), "phases")
    return DAGCode({p.name: p for p in phases}, prog["initial"])


# ---------------------------------------------------------------------- generator set-up

G_CODE = "\n    ${r1} = ${a} + ${b}\n    ${r2} = ${a} - ${b}\n    "
F_CODE = "\n    ${result} = ${y} + 1\n    "
H_CODE = "\n    ${result} = ${z} + 2\n    "


# a user function whose Fortran template declares temporaries of its own, in the three ways a
# template can (declare_new, get_new_identifier + add_declaration), like the built-in linear
# algebra templates do
S_CODE = """
    <%
    tmp = declare_new("real (kind=%s)" % real_scalar_kind, "stmp")
    cnt = get_new_identifier("scnt")
    add_declaration("integer :: " + cnt)
    %>
    ${tmp} = 2
    ${cnt} = 1
    ${result} = ${tmp}*${a} + ${cnt}
    """
NOTE_CODE = "\n    write(*,*) 'state update ${tag}'\n    "

# long identifiers (35-70 characters; pairs sharing a prefix of 46+ characters): a name mapping
# that cuts or digests names must still be a function of the name alone
LONG_STATE = "<state>concentrations_of_all_species_in_the_reaction_network_at_the_current_time"
LONG_F1 = "<func>evaluate_the_production_rates_of_all_species_of_the_reaction_network"
LONG_F2 = "<func>evaluate_the_production_rates_of_all_species_of_the_reaction_network_damped"

_REGISTRY = []


def registry():
    """One registry per process, shared by all generator objects of a lane (the way a user builds
    it once and generates several methods): whatever a CallCode object or a Function keeps from one
    generation is then seen by the next."""
    if _REGISTRY:
        return _REGISTRY[0]
    import dagrt.codegen.fortran as f
    from dagrt.data import UserType
    from dagrt.function_registry import base_function_registry, register_function, register_ode_rhs
    freg = register_ode_rhs(base_function_registry, "y", identifier="<func>f", input_names=("y",))
    freg = freg.register_codegen("<func>f", "fortran", f.CallCode(F_CODE))
    freg = register_ode_rhs(freg, "z", identifier="<func>h", input_names=("z",))
    freg = freg.register_codegen("<func>h", "fortran", f.CallCode(H_CODE))
    freg = register_function(freg, "<func>g", ("a", "b"), result_names=("r1", "r2"),
                             result_kinds=(UserType("y"), UserType("y")))
    freg = freg.register_codegen("<func>g", "fortran", f.CallCode(G_CODE))
    for fid in (LONG_F1, LONG_F2):
        freg = register_ode_rhs(freg, "y", identifier=fid, input_names=("y",))
        freg = freg.register_codegen(fid, "fortran", f.CallCode(F_CODE))
    freg = register_function(freg, "<func>s", ("a",), result_names=("result",), result_kinds=(UserType("y"),))
    freg = freg.register_codegen("<func>s", "fortran", f.CallCode(S_CODE))
    for tag in ("before", "after"):
        freg = register_function(freg, "notify_" + tag, ("arg",))
        freg = freg.register_codegen("notify_" + tag, "fortran", f.CallCode(NOTE_CODE, extra_args={"tag": tag}))
    _REGISTRY.append(freg)
    return freg


def user_types(kind="flat"):
    """Built anew for every generator (ArrayType's default index variables came from a counter).
    "nested": arrays of arrays and a structure with an array and a pointer member."""
    import dagrt.codegen.fortran as f
    if kind == "nested":
        return {"y": f.ArrayType((5,), f.ArrayType((2, 2), f.BuiltinType("real*8"))),
                "z": f.StructureType("zrec", (
                    ("coeffs", f.ArrayType((3,), f.BuiltinType("real*8"))),
                    ("scale", f.BuiltinType("real*8")),
                    ("grid", f.PointerType(f.ArrayType((2,), f.ArrayType((2,), f.BuiltinType("real*8"))))),))}
    return {"y": f.ArrayType((5,), f.BuiltinType("real*8")),
            "z": f.ArrayType((3,), f.BuiltinType("real*8"))}


FOPTS_DEFAULT = {"instr": True, "trace": False, "types": "flat", "hooks": False, "extra": False}


def fortran_generator(fopts=None, name="m"):
    """fopts (program key "fopts"): instr = emit_instrumentation, trace, types = user_types kind,
    hooks = call_before/after_state_update, extra = extra_arguments + their declarations, a
    module preamble and a parallel-do preamble."""
    import dagrt.codegen.fortran as f
    o = dict(FOPTS_DEFAULT, **(fopts or {}))
    kw = {}
    if o["instr"]:
        kw.update(timing_function="second", emit_instrumentation=True)
    if o["trace"]:
        kw.update(trace=True)
    if o["hooks"]:
        kw.update(call_before_state_update="notify_before", call_after_state_update="notify_after")
    if o["extra"]:
        kw.update(extra_arguments=("rhs_ctx", "rhs_n"),
                  extra_argument_decl="\n    integer rhs_n\n    real*8 rhs_ctx(rhs_n)\n    ",
                  module_preamble="\n    use iso_c_binding\n    ", parallel_do_preamble="!dir$ simd")
    return f.CodeGenerator(name, function_registry=registry(), user_type_map=user_types(o["types"]), **kw)


def fortran_text(code, fopts=None, name="m"):
    return fortran_generator(fopts, name)(code)


def python_text(code, name="Method"):
    from dagrt.codegen import PythonCodeGenerator
    # default registry: <func>f / <func>g are looked up in function_map at run time
    return PythonCodeGenerator(class_name=name)(code)


def _canon(v):
    import numpy as np
    if isinstance(v, np.ndarray):
        return ["arr"] + [_canon(x) for x in v.tolist()]
    if isinstance(v, (bool, np.bool_)):
        return bool(v)
    if isinstance(v, (int, np.integer)):
        return int(v)
    if isinstance(v, (float, np.floating)):
        return ["float", float(v).hex()]
    if v is None:
        return None
    return str(v)


def interpreter_events(code, steps):
    import numpy as np
    from dagrt.exec_numpy import NumpyInterpreter
    fmap = {"<func>f": lambda t, y: y + 1, "<func>g": lambda a, b: (a + b, a - b),
            "<func>h": lambda t, z: z + 2, "<func>s": lambda a: 2 * a + 1,
            LONG_F1: lambda t, y: y + 3, LONG_F2: lambda t, y: 2 * y}
    interp = NumpyInterpreter(code, function_map=fmap)
    interp.set_up(t_start=0, dt_start=1, context={"y": np.array([1, 2, 3, 4, 5], dtype=np.int64),
                                                     "z": np.array([7, 8, 9], dtype=np.int64),
                                                     LONG_STATE[len("<state>"):]: np.array([2, 4, 6, 8, 10],
                                                                                           dtype=np.int64)})
    out = []
    try:
        for ev in interp.run(max_steps=steps):
            out.append([type(ev).__name__] + [[k, _canon(v)] for k, v in ev._asdict().items()])
            if len(out) > 200:
                break
    except Exception as ex:  # noqa: BLE001 - the class is the observable
        out.append(["EXC", type(ex).__name__])
    return out


PRE_PROGRAM = {"name": "pre", "initial": "q", "steps": 1, "phases": [
    {"name": "q", "next": "q", "ops": [["asg", "w", "<func>f(<t>, <state>y)"], ["asg", "w", "w + <state>y"],
                                       ["asg", "<state>y", "w"], ["yield", "<state>y", "y", "<t>", "pre"]]}]}


def observe(prog, cfg):
    """All three observables of one configuration (texts, or the exception class).
    cfg["repeat"] = r: both texts are produced r + 1 times, each time by a brand-new generator
    object, and the LAST text is the observable -- the smallest form of "what a previous, separate
    generator produced in the same process": the same method, generated again."""
    out = {}
    try:
        code = make_code(prog, cfg)
    except Exception as ex:  # noqa: BLE001
        return {"py": "EXC-build " + type(ex).__name__, "f": "EXC-build " + type(ex).__name__, "ev": []}
    fopts = prog.get("fopts")
    for key, fn in (("py", python_text), ("f", lambda c: fortran_text(c, fopts))):
        for _ in range(1 + int(cfg.get("repeat", 0))):
            try:
                out[key] = fn(code)
            except Exception as ex:  # noqa: BLE001
                out[key] = "EXC " + type(ex).__name__
    out["ev"] = interpreter_events(code, prog.get("steps", 2))
    return out


def _sha(s):
    return hashlib.sha256(s.encode()).hexdigest()[:20]


# ====================================================================== worker: one lane

def _store(d, text):
    h = _sha(text)
    p = os.path.join(d, h)
    if not os.path.exists(p):
        tmp = p + ".%d" % os.getpid()
        with open(tmp, "w") as fh:
            fh.write(text)
        os.replace(tmp, p)
    return h


def worker():
    """One lane = one fresh interpreter process (its PYTHONHASHSEED set by the parent) that runs
    the given (program, configuration) jobs one after the other, each with new generator objects.
    What an earlier job leaves behind in the process is therefore part of what a later job sees;
    the parent chooses the order.
    stdin: {"dir": d, "jobs": [[prog, cfg]...]}; stdout: {"results": [{"py": sha, "f": sha, "ev": sha}...]};
    the texts go to d/<sha>."""
    req = json.load(sys.stdin)
    results = []
    for prog, cfg in req["jobs"]:
        try:
            obs = observe(prog, cfg)
            res = {"py": _store(req["dir"], obs["py"]), "f": _store(req["dir"], obs["f"]),
                   "ev": _store(req["dir"], json.dumps(obs["ev"], indent=0))}
        except BaseException as ex:  # noqa: BLE001
            res = {"py": "WORKER-EXC", "f": "WORKER-EXC", "ev": "%s: %s" % (type(ex).__name__, ex)}
        results.append(res)
    sys.stdout.write("\n" + RESULT_MARK + json.dumps({"results": results}))


RESULT_MARK = "@@C15-RESULT@@"      # dagrt prints diagnostics of its own to stdout


def run_lanes(lanes, scratch):
    """lanes: [(hash seed, [[prog, cfg]...])...] -> ([results per lane], errors).  At most NPROC
    interpreter processes at a time."""
    out = [None] * len(lanes)
    errors = []
    pending = list(enumerate(lanes))
    running = []

    def start(i, seed, jobs):
        env = dict(os.environ)
        env["PYTHONHASHSEED"] = str(seed)
        env["PYTHONPATH"] = common.REPO + os.pathsep + common.VERIF
        fin = tempfile.TemporaryFile("w+")
        fin.write(json.dumps({"dir": scratch, "jobs": jobs}))
        fin.seek(0)
        fout = tempfile.TemporaryFile("w+")
        ferr = tempfile.TemporaryFile("w+")
        p = subprocess.Popen([sys.executable, "-m", "harness.c15", "--worker"], cwd=common.VERIF, env=env,
                             stdin=fin, stdout=fout, stderr=ferr, text=True)
        return (i, p, fin, fout, ferr, len(jobs))

    def finish(item):
        i, p, fin, fout, ferr, n = item
        p.wait()
        fout.seek(0)
        ferr.seek(0)
        data, err = fout.read(), ferr.read()
        for fh in (fin, fout, ferr):
            fh.close()
        try:
            res = json.loads(data[data.rindex(RESULT_MARK) + len(RESULT_MARK):])["results"]
            assert len(res) == n
            out[i] = res
        except Exception:  # noqa: BLE001
            errors.append("lane %d (seed %s) failed: %s" % (i, lanes[i][0], (data + err)[-1200:]))
            out[i] = [{"py": "LANE-FAILED", "f": "LANE-FAILED", "ev": "LANE-FAILED"}] * n

    while pending or running:
        while pending and len(running) < common.NPROC:
            i, (seed, jobs) = pending.pop(0)
            running.append(start(i, seed, jobs))
        done = [it for it in running if it[1].poll() is not None]
        if not done:
            running[0][1].wait()
            done = [running[0]]
        for it in done:
            running.remove(it)
            finish(it)
    return out, errors


# ====================================================================== programs of the run

HAND_PROGRAMS = [
    # three user-type temporaries whose last use is one statement (release calls, S3)
    {"name": "same_last_use", "initial": "main", "steps": 2, "phases": [
        {"name": "main", "next": "main", "ops": [
            ["asg", "a", "<func>f(<t>, <state>y)"],
            ["asg", "b", "<func>f(<t>, <state>y + a)"],
            ["asg", "c", "a + b"],
            ["asg", "a", "a + b + c"],
            ["asg", "b", "a + b"],
            ["asg", "<state>y", "a + b + c"],
            ["yield", "<state>y", "y", "<t>", "final"]]}]},
    # a call whose two assignees are also its arguments (temporaries of S1)
    {"name": "pair_call", "initial": "main", "steps": 2, "phases": [
        {"name": "main", "next": "main", "ops": [
            ["asg", "a", "<func>f(<t>, <state>y)"],
            ["asg", "b", "a + <state>y"],
            ["asg", ["a", "b"], "<func>g(a, b)"],
            ["asg", "<state>y", "a + b"],
            ["yield", "<state>y", "y", "<t>", "final"]]}]},
    # three phases, persistent variables, a guarded switch (phase order of S4)
    {"name": "three_phases", "initial": "init", "steps": 4, "phases": [
        {"name": "init", "next": "mid", "ops": [
            ["asg", "<p>k", "<func>f(<t>, <state>y)"],
            ["asg", "<p>n", "1"]]},
        {"name": "mid", "next": "zfin", "ops": [
            ["asg", "u", "<p>k + <state>y"],
            ["asg", "<p>n", "<p>n + 1"],
            ["if", "<p>n > 2", [["asg", "<state>y", "u"]], [["asg", "<state>y", "u + <p>k"]]],
            ["yield", "<state>y", "y", "<t>", "mid"]]},
        {"name": "zfin", "next": "mid", "ops": [
            ["asg", "v", "<func>f(<t>, <state>y)"],
            ["asg", "<state>y", "v"],
            ["asg", "<t>", "<t> + <dt>"],
            ["if", "<p>n > 3", [["switch", "init"]]],
            ["yield", "<state>y", "y", "<t>", "fin"]]}]},
    # the same method with its persistent variables, locals and phases spelt in the other letter case: generated
    # before three_phases in one lane and after it in another, so that names a separate generator object handed out
    # earlier in the process and that differ from these only in case (the Fortran name managers compare
    # case-insensitively) would show in the text (seeded C15_5b: one name map shared by all generators)
    {"name": "three_phases_upper", "initial": "Init", "steps": 4, "phases": [
        {"name": "Init", "next": "Mid", "ops": [
            ["asg", "<p>K", "<func>f(<t>, <state>y)"],
            ["asg", "<p>N", "1"]]},
        {"name": "Mid", "next": "Zfin", "ops": [
            ["asg", "U", "<p>K + <state>y"],
            ["asg", "<p>N", "<p>N + 1"],
            ["if", "<p>N > 2", [["asg", "<state>y", "U"]], [["asg", "<state>y", "U + <p>K"]]],
            ["yield", "<state>y", "y", "<t>", "Mid"]]},
        {"name": "Zfin", "next": "Mid", "ops": [
            ["asg", "V", "<func>f(<t>, <state>y)"],
            ["asg", "<state>y", "V"],
            ["asg", "<t>", "<t> + <dt>"],
            ["if", "<p>N > 3", [["switch", "Init"]]],
            ["yield", "<state>y", "y", "<t>", "Fin"]]}]},
    # the pair call twice, with scalars sharing the last use, in two phases one of which is
    # called "temp" (its statement ids temp_0, temp_1, ... collide with the generated ids)
    {"name": "temp_phase", "initial": "temp", "steps": 3, "phases": [
        {"name": "temp", "next": "work", "ops": [
            ["asg", "a", "<func>f(<t>, <state>y)"],
            ["asg", "b", "<func>f(<t>, a)"],
            ["asg", "s", "2"],
            ["asg", "r", "s + 3"],
            ["asg", ["b", "a"], "<func>g(a, b)"],
            ["asg", ["a", "b"], "<func>g(b, a)"],
            ["asg", "<state>y", "s*a + r*b"]]},
        {"name": "work", "next": "temp", "ops": [
            ["asg", "c", "<state>y"],
            ["asg", "d", "<func>f(<t>, c)"],
            ["asg", "e", "c + d"],
            ["asg", "<state>y", "c + d + e"],
            ["asg", "<t>", "<t> + <dt>"],
            ["yield", "<state>y", "y", "<t>", "w"]]}]},
    # two state components of two user types, three time ids (sets of component / time ids)
    {"name": "two_components", "initial": "main", "steps": 2, "phases": [
        {"name": "main", "next": "main", "ops": [
            ["asg", "p", "<func>f(<t>, <state>y)"],
            ["asg", "q", "<func>h(<t>, <state>z)"],
            ["asg", "r", "<func>h(<t>, q)"],
            ["asg", "<state>z", "q + r"],
            ["asg", "<state>y", "p + <state>y"],
            ["yield", "<state>z", "z", "<t>", "tz"],
            ["yield", "<state>y", "y", "<t>", "ty"],
            ["yield", "<state>y", "y", "<t> + <dt>", "later"]]}]},
    # nested calls and an if-expression (argument / call isolation, expand_IfThenElse), arrays and loops
    {"name": "passes", "initial": "main", "steps": 2, "phases": [
        {"name": "main", "next": "main", "ops": [
            ["asg", "n", "3"],
            ["asg", "arr", "`<builtin>array`(n)"],
            ["loop", "arr[i]", "i + 1", [["i", "0", "n"]]],
            ["asg", "q", "arr[1] + arr[2]"],
            ["asg", "a", "<func>f(<t>, <func>f(<t>, <state>y))"],
            ["asg", "b", "<func>f(<t>, a if q > 2 else <state>y)"],
            ["asg", "nrm", "`<builtin>norm_2`(b)"],
            ["if", "nrm > 100", [["fail"]]],
            ["asg", "<state>y", "a + b"],
            ["yield", "<state>y", "y", "<t>", "final"]]}]},
    # the built-ins whose Fortran templates are module-level CallCode objects shared by every
    # generator of a process and declare temporaries of their own (matmul, transpose,
    # linear_solve, svd), print with no assignee, len, a Raise (test_arrays_and_linalg of /repo)
    {"name": "linalg", "initial": "main", "steps": 1, "phases": [
        {"name": "main", "next": "main", "ops": [
            ["asg", "n", "2"],
            ["asg", "nodes", "`<builtin>array`(n)"],
            ["asg", "vdm", "`<builtin>array`(n*n)"],
            ["asg", "ident", "`<builtin>array`(n*n)"],
            ["loop", "nodes[i]", "i + 1", [["i", "0", "n"]]],
            ["loop", "ident[i]", "0", [["i", "0", "n*n"]]],
            ["loop", "ident[i*n + i]", "1", [["i", "0", "n"]]],
            ["loop", "vdm[j*n + i]", "nodes[i]**j", [["i", "0", "n"], ["j", "0", "n"]]],
            ["asg", "vinv", "`<builtin>linear_solve`(vdm, ident, n, n)"],
            ["asg", "prod", "`<builtin>matmul`(vdm, vinv, n, n)"],
            ["asg", "prodt", "`<builtin>transpose`(prod, n)"],
            ["asg", ["su", "ssig", "svt"], "`<builtin>svd`(vdm, n)"],
            ["asg", "zero", "prod - ident"],
            ["asg", [], "`<builtin>print`(zero)"],
            ["asg", "<p>res", "`<builtin>norm_2`(zero) + `<builtin>norm_2`(prodt) + `<builtin>len`(ssig)"],
            ["if", "<p>res > 100", [["raise", "matrix inversion failed"]]]]}]},
    # the same built-ins once more, in another method (another result name, two phases, two
    # calls of one template in one phase): whichever of the two is generated first in a lane
    # is the "previous generator" of the other
    {"name": "linalg_again", "initial": "setup", "steps": 2, "phases": [
        {"name": "setup", "next": "work", "ops": [
            ["asg", "<p>m", "2"],
            ["asg", "<p>mat", "`<builtin>array`(<p>m*<p>m)"],
            ["loop", "<p>mat[r*<p>m + c]", "1 + r + 2*c*c", [["r", "0", "<p>m"], ["c", "0", "<p>m"]]]]},
        {"name": "work", "next": "work", "ops": [
            ["asg", "sq", "`<builtin>matmul`(<p>mat, <p>mat, <p>m, <p>m)"],
            ["asg", "cube", "`<builtin>matmul`(sq, <p>mat, <p>m, <p>m)"],
            ["asg", "tr", "`<builtin>transpose`(cube, <p>m)"],
            ["asg", "sol", "`<builtin>linear_solve`(<p>mat, tr, <p>m, <p>m)"],
            ["asg", ["uu", "sg", "vv"], "`<builtin>svd`(sol, <p>m)"],
            ["asg", [], "`<builtin>print`(sg)"],
            ["asg", "<p>mat", "sol"]]}]},
    # several distinct loop counters in one phase: one assignment looping over two of them,
    # further looping assignments with counters of their own, one of them conditional
    {"name": "loop_counters", "initial": "main", "steps": 2, "phases": [
        {"name": "main", "next": "main", "ops": [
            ["asg", "n", "3"],
            ["asg", "mat", "`<builtin>array`(n*n)"],
            ["loop", "mat[row*n + col]", "row + 10*col", [["row", "0", "n"], ["col", "0", "n"]]],
            ["asg", "diag", "`<builtin>array`(n)"],
            ["loop", "diag[k]", "mat[k*n + k]", [["k", "0", "n"]]],
            ["asg", "acc", "`<builtin>array`(n)"],
            ["if", "diag[1] > 5", [["loop", "acc[idx]", "diag[idx] + mat[idx]", [["idx", "0", "n"]]]],
             [["loop", "acc[jj]", "0", [["jj", "0", "n"]]]]],
            ["asg", "<p>corner", "mat[n*n - 1] + acc[0]"]]}]},
    # a user function whose template declares temporaries (declare_new, get_new_identifier,
    # add_declaration), called several times and in two phases; calls with keyword arguments;
    # len / isnan / elementwise_abs / norm_2 on a user type; restart_step
    {"name": "user_templates", "initial": "first", "steps": 3, "phases": [
        {"name": "first", "next": "second", "ops": [
            ["asg", "a", "<func>s(<state>y)"],
            ["asg", "b", "<func>s(a=a)"],
            ["asg", "c", "<func>f(y=b, t=<t>)"],
            ["asg", "size", "`<builtin>len`(c)"],
            ["asg", "bad", "`<builtin>isnan`(c)"],
            ["asg", "<p>mag", "`<builtin>norm_2`(`<builtin>elementwise_abs`(c))"],
            ["if", "bad", [["restart"]]],
            ["asg", "<state>y", "a + b + size*c"]]},
        {"name": "second", "next": "first", "ops": [
            ["asg", "d", "<func>s(<state>y)"],
            ["asg", ["d", "e"], "<func>g(a=d, b=<state>y)"],
            ["asg", "<state>y", "d + e"],
            ["asg", [], "`<builtin>print`(<p>mag)"],
            ["yield", "<state>y", "y", "<t>", "second"]]}]},
    # the other settings of the Fortran generator: no instrumentation, trace output, state update
    # hooks, extra arguments with declarations, module preamble, parallel-do preamble; user types
    # that are arrays of arrays and a structure with array and pointer members
    {"name": "generator_options", "initial": "main", "steps": 2,
     "fopts": {"instr": False, "trace": True, "hooks": True, "extra": True},
     "phases": [
        {"name": "main", "next": "main", "ops": [
            ["asg", "p", "<func>f(<t>, <state>y)"],
            ["asg", "q", "<func>h(<t>, <state>z)"],
            ["asg", "n", "2"],
            ["asg", "w", "`<builtin>array`(n)"],
            ["loop", "w[i]", "i + `<builtin>norm_2`(p)", [["i", "0", "n"]]],
            ["asg", "<state>z", "q + w[1]*<state>z"],
            ["asg", "<state>y", "p + <state>y"],
            ["yield", "<state>z", "z", "<t>", "tz"],
            ["yield", "<state>y", "y", "<t> + <dt>", "ty"]]}]},
    # long identifiers everywhere a name is made: scalar and user-type locals (pairs sharing a 46+
    # character prefix), <p> and <state> variables, function ids, loop counters, phase names, a time id
    {"name": "long_names", "initial": "first_half_of_the_step_with_the_explicit_predictor_stage", "steps": 3,
     "phases": [
        {"name": "first_half_of_the_step_with_the_explicit_predictor_stage",
         "next": "first_half_of_the_step_with_the_explicit_predictor_stage_redone", "ops": [
            ["asg", "production_rates_of_all_species_in_the_reaction_network_stage_one",
             LONG_F1 + "(<t>, " + LONG_STATE + ")"],
            ["asg", "production_rates_of_all_species_in_the_reaction_network_stage_two",
             LONG_F2 + "(<t>, production_rates_of_all_species_in_the_reaction_network_stage_one)"],
            ["asg", "number_of_accepted_steps_since_the_last_change_of_the_order", "2"],
            ["asg", "number_of_accepted_steps_since_the_last_change_of_the_order_plus_one",
             "number_of_accepted_steps_since_the_last_change_of_the_order + 1"],
            ["asg", "<p>previous_right_hand_side_evaluation_kept_for_the_next_time_step",
             "production_rates_of_all_species_in_the_reaction_network_stage_two"],
            ["asg", "<p>norm_of_the_previous_right_hand_side_evaluation_kept_for_the_next_time_step",
             "`<builtin>norm_2`(production_rates_of_all_species_in_the_reaction_network_stage_one)"],
            ["asg", ["production_rates_of_all_species_in_the_reaction_network_stage_one",
                     "production_rates_of_all_species_in_the_reaction_network_stage_two"],
             "<func>g(production_rates_of_all_species_in_the_reaction_network_stage_one, "
             "production_rates_of_all_species_in_the_reaction_network_stage_two)"],
            ["asg", LONG_STATE,
             LONG_STATE + " + number_of_accepted_steps_since_the_last_change_of_the_order_plus_one"
             "*production_rates_of_all_species_in_the_reaction_network_stage_one"
             " + production_rates_of_all_species_in_the_reaction_network_stage_two"],
            ["yield", LONG_STATE, "y", "<t>", "the_final_time_of_the_step_after_all_stages_have_been_accepted"]]},
        {"name": "first_half_of_the_step_with_the_explicit_predictor_stage_redone",
         "next": "first_half_of_the_step_with_the_explicit_predictor_stage", "ops": [
            ["asg", "size_of_the_coefficient_matrix_of_the_linear_system", "2"],
            ["asg", "coefficient_matrix_of_the_linear_system_of_the_implicit_stage",
             "`<builtin>array`(size_of_the_coefficient_matrix_of_the_linear_system"
             "*size_of_the_coefficient_matrix_of_the_linear_system)"],
            ["loop", "coefficient_matrix_of_the_linear_system_of_the_implicit_stage["
                     "index_into_the_coefficient_matrix_of_the_linear_system_row"
                     "*size_of_the_coefficient_matrix_of_the_linear_system"
                     " + index_into_the_coefficient_matrix_of_the_linear_system_col]",
             "1 + index_into_the_coefficient_matrix_of_the_linear_system_row"
             " + 3*index_into_the_coefficient_matrix_of_the_linear_system_col",
             [["index_into_the_coefficient_matrix_of_the_linear_system_row", "0",
               "size_of_the_coefficient_matrix_of_the_linear_system"],
              ["index_into_the_coefficient_matrix_of_the_linear_system_col", "0",
               "size_of_the_coefficient_matrix_of_the_linear_system"]]],
            ["asg", "square_of_the_coefficient_matrix_of_the_linear_system_of_the_implicit_stage",
             "`<builtin>matmul`(coefficient_matrix_of_the_linear_system_of_the_implicit_stage, "
             "coefficient_matrix_of_the_linear_system_of_the_implicit_stage, "
             "size_of_the_coefficient_matrix_of_the_linear_system, "
             "size_of_the_coefficient_matrix_of_the_linear_system)"],
            ["asg", LONG_STATE,
             "square_of_the_coefficient_matrix_of_the_linear_system_of_the_implicit_stage[3]*" + LONG_STATE
             + " + <p>previous_right_hand_side_evaluation_kept_for_the_next_time_step"],
            ["asg", "<t>", "<t> + <dt>"]]}]},
    {"name": "nested_user_types", "initial": "main", "steps": 2, "fopts": {"types": "nested", "trace": True},
     "phases": [
        {"name": "main", "next": "fin", "ops": [
            ["asg", "p", "<func>f(<t>, <state>y)"],
            ["asg", "q", "<func>h(<t>, <state>z)"],
            ["asg", "r", "2*q + <state>z"],
            ["asg", "s", "`<builtin>norm_2`(p) + `<builtin>norm_2`(r) + `<builtin>len`(p)"],
            ["asg", "<state>z", "s*r"],
            ["asg", "<state>y", "`<builtin>elementwise_abs`(p) + <state>y"]]},
        {"name": "fin", "next": "main", "ops": [
            ["asg", ["u", "v"], "<func>g(<state>y, <func>s(<state>y))"],
            ["asg", "<state>y", "u if `<builtin>isnan`(v) else v"],
            ["yield", "<state>y", "y", "<t>", "ty"],
            ["yield", "<state>z", "z", "<t>", "tz"]]}]},
]

UVARS = ["ua", "ub", "uc", "ud"]
SVARS = ["sa", "sb", "sc"]


LNAMES = ["i", "j", "k", "row", "col", "ii", "m1"]


def array_section(arng, defined_s):
    """arrays filled by looping assignments with two or three distinct counters, then one of the
    built-ins with a template of their own; returns (ops, name of the scalar it computes)"""
    l1, l2, l3 = arng.sample(LNAMES, 3)
    sc = arng.choice(defined_s) if defined_s and arng.random() < 0.5 else "1"
    ops = [["asg", "an", arng.choice(["2", "3"])],
           ["asg", "am", "`<builtin>array`(an*an)"],
           ["loop", "am[%s*an + %s]" % (l1, l2), "%s + 2*%s + %s" % (l1, l2, sc),
            [[l1, "0", "an"], [l2, "0", "an"]]]]
    if arng.random() < 0.6:
        ops += [["asg", "av", "`<builtin>array`(an)"],
                ["loop", "av[%s]" % l3, "am[%s] + %s" % (l3, l3), [[l3, "0", "an"]]],
                ["asg", "am[0]", "av[1]"]]
    c = arng.random()
    res = "am"
    if c < 0.35:
        ops.append(["asg", "ar", "`<builtin>matmul`(am, am, an, an)"])
        res = "ar"
    elif c < 0.55:
        ops.append(["asg", "ar", "`<builtin>transpose`(am, an)"])
        res = "ar"
    elif c < 0.7:
        ops.append(["asg", ["au", "asig", "avt"], "`<builtin>svd`(am, an)"])
        res = "asig"
    elif c < 0.8:
        ops.append(["asg", [], "`<builtin>print`(am)"])
    ops.append(["asg", "asn", "`<builtin>norm_2`(%s)" % res])
    return ops, "asn"


LONG_NAMES = {
    # short name of random_program / array_section -> long name (35-70 characters); ua/ub, sa/sb,
    # am/av and the loop counters share prefixes of 46+ characters
    "ua": "intermediate_stage_value_of_the_solution_vector_number_one",
    "ub": "intermediate_stage_value_of_the_solution_vector_number_two",
    "uc": "right_hand_side_evaluated_at_the_predicted_state",
    "ud": "accumulated_increment_of_all_stages_computed_so_far_in_this_step",
    "sa": "weight_of_the_stage_in_the_final_linear_combination_first",
    "sb": "weight_of_the_stage_in_the_final_linear_combination_second",
    "sc": "safety_factor_of_the_step_size_controller",
    "an": "number_of_rows_and_columns_of_the_small_dense_matrix",
    "am": "entries_of_the_small_dense_matrix_stored_row_by_row_matrix",
    "av": "entries_of_the_small_dense_matrix_stored_row_by_row_vector",
    "ar": "result_of_the_linear_algebra_operation_on_the_small_matrix",
    "au": "left_singular_vectors_of_the_small_dense_matrix",
    "asig": "singular_values_of_the_small_dense_matrix_in_descending_order",
    "avt": "right_singular_vectors_of_the_small_dense_matrix_transposed",
    "asn": "euclidean_norm_of_the_result_of_the_linear_algebra_operation",
}
LONG_NAMES.update({l: "loop_index_over_the_entries_of_the_small_dense_matrix_" + l for l in
                   ["i", "j", "k", "row", "col", "ii", "m1"]})


def lengthen(prog):
    """the same program with long identifiers: every short variable / counter name of
    random_program is replaced as a whole word in every string of the ops"""
    import re
    pat = re.compile(r"(?<![\w<>])(%s)(?![\w>])" % "|".join(sorted(LONG_NAMES, key=len, reverse=True)))

    def go(x):
        if isinstance(x, str):
            return pat.sub(lambda m: LONG_NAMES[m.group(1)], x)
        if isinstance(x, list):
            return [go(y) for y in x]
        return x
    q = json.loads(json.dumps(prog))
    for ph in q["phases"]:
        ph["ops"] = [[op[0]] + go(op[1:]) for op in ph["ops"]]
    q["name"] = prog["name"] + "_long"
    return q


def random_program(rng, idx):
    """Type-correct straight-line phases with if/else: user-type variables (kind UserType y),
    scalars, pair calls whose assignees are read, several temporaries dying in one statement."""
    nph = rng.choice([1, 1, 2, 3])
    names = rng.sample(["main", "aux", "temp", "init", "zz"], nph)
    phases = []
    for pi, pname in enumerate(names):
        defined_u, defined_s = [], []
        ops = []

        def uexpr():
            c = rng.random()
            have = defined_u + ["<state>y"]
            if c < 0.3:
                return "<func>f(<t>, %s)" % rng.choice(have)
            if c < 0.6 and defined_s:
                return "%s*%s + %s" % (rng.choice(defined_s), rng.choice(have), rng.choice(have))
            if c < 0.8:
                return " + ".join(rng.choice(have) for _ in range(rng.randint(2, 3)))
            return "%s - %s" % (rng.choice(have), rng.choice(have))

        def sexpr():
            c = rng.random()
            if c < 0.4 or not defined_s:
                return str(rng.randint(1, 4))
            if c < 0.8:
                return "%s + %s" % (rng.choice(defined_s), rng.randint(1, 3))
            return "%s*%s" % (rng.choice(defined_s), rng.choice(defined_s))

        def block(depth, n):
            out = []
            for _ in range(n):
                c = rng.random()
                if c < 0.45:
                    v = rng.choice(UVARS)
                    out.append(["asg", v, uexpr()])
                    if v not in defined_u and depth == 0:
                        defined_u.append(v)
                elif c < 0.6:
                    v = rng.choice(SVARS)
                    out.append(["asg", v, sexpr()])
                    if v not in defined_s and depth == 0:
                        defined_s.append(v)
                elif c < 0.8 and len(defined_u) >= 2:
                    x, y = rng.sample(defined_u, 2)
                    ins = rng.sample(defined_u, 2) if rng.random() < 0.3 else [x, y]
                    out.append(["asg", [x, y], "<func>g(%s, %s)" % tuple(ins)])
                elif c < 0.9 and depth == 0 and defined_s:
                    cond = "%s > %d" % (rng.choice(defined_s), rng.randint(1, 5))
                    out.append(["if", cond, block(1, rng.randint(1, 2)),
                                block(1, rng.randint(1, 2)) if rng.random() < 0.5 else []])
                else:
                    out.append(["asg", "<state>y", uexpr()])
            return out

        # anchors the kinds: <func>f returns the user type y
        defined_u.append("ua")
        ops = [["asg", "ua", "<func>f(<t>, <state>y)"]] + block(0, rng.randint(3, 9))
        have = defined_u + ["<state>y"]
        # a generator of its own, so that the programs above stay what they were before the
        # array section existed
        arng = random.Random("arrays/%d/%d/%s" % (idx, pi, ",".join(names)))
        scale = None
        if arng.random() < 0.55:
            aops, scale = array_section(arng, defined_s)
            ops += aops
        ops.append(["asg", "<state>y", " + ".join(dict.fromkeys(have))])
        if scale:
            ops.append(["asg", "<state>y", "%s*<state>y" % scale])
        if rng.random() < 0.7:
            ops.append(["yield", "<state>y", "y", "<t>", "t%d" % pi])
        if nph > 1 and rng.random() < 0.3 and defined_s:
            ops.append(["if", "%s > 2" % rng.choice(defined_s), [["switch", names[(pi + 2) % nph]]]])
        phases.append({"name": pname, "next": names[(pi + 1) % nph], "ops": ops})
    return {"name": "rand%d" % idx, "initial": names[0], "steps": 3, "phases": phases}


DECLARING_TEMPLATES = ("<builtin>matmul", "<builtin>transpose", "<builtin>linear_solve", "<builtin>svd", "<func>s")


def _loop_counters(ops):
    out = set()
    for op in ops:
        if op[0] == "loop":
            out |= {l[0] for l in op[3]}
        elif op[0] == "if":
            out |= _loop_counters(op[2]) | _loop_counters(op[3] if len(op) > 3 else [])
    return out


def prog_size(prog):
    def n(ops):
        return sum(1 + (n(o[2]) + n(o[3] if len(o) > 3 else []) if o[0] == "if" else 0) for o in ops)
    return sum(n(ph["ops"]) for ph in prog["phases"])


def corpus():
    out = []
    d = os.path.join(common.VERIF, "corpus", PID)
    if os.path.isdir(d):
        for f in sorted(os.listdir(d)):
            if f.endswith(".json"):
                c = json.load(open(os.path.join(d, f)))
                if "program" in c:
                    out.append(c["program"])
    return out


# configurations of one lane family; every lane runs all programs, rotated by `offset`, so that
# one program is generated after different predecessors in different lanes
CONFIGS = [
    {"container": "list"},
    {"container": "frozenset"},
    {"container": "frozenset", "perm": 1, "dep_perm": 1},
    {"container": "tuple", "perm": 2, "dep_perm": 2, "phase_perm": 1},
    # differs from CONFIGS[0] in history only: other predecessors, and every program is generated
    # twice in a row by separate generator objects (the second text is the observable)
    {"container": "list", "offset": 1, "repeat": 1},
    {"container": "frozenset", "perm": 3, "dep_perm": 3, "phase_perm": 2, "offset": 2},
]


HISTORY_KEYS = ("offset", "repeat")      # what of a configuration is process history, not storage


def lane_jobs(programs, cfg):
    n = len(programs)
    off = (cfg.get("offset", 0) * (n // 2 + 1)) % n if n else 0
    order = list(range(off, n)) + list(range(0, off))
    c = {k: v for k, v in cfg.items() if k != "offset"}
    return order, [[programs[i], c] for i in order]


# ====================================================================== oracle

def _diff_excerpt(scratch, ha, hb, limit=40):
    try:
        a = open(os.path.join(scratch, ha)).read().splitlines()
        b = open(os.path.join(scratch, hb)).read().splitlines()
    except OSError:
        return [ha, hb]
    return list(difflib.unified_diff(a, b, "configuration A", "configuration B", lineterm="", n=1))[:limit]


def signature(diff):
    """what the two texts differ in, to keep unrelated defects apart in the report"""
    ch = _changed(diff)
    if not ch:
        return "none"
    if _only_reordered(diff, lambda l: l.strip().startswith("call dagrt_deinit_")):
        return "release_calls_reordered"
    if all("drtf_i" in l for l in ch):
        return "index_variable_names"
    if _only_reordered(diff, _is_declaration):
        return "declarations_reordered"
    if all(_is_declaration(l) for l in ch):
        return "declarations_differ"
    if any("def phase_" in l or "phase_transition_table" in l for l in ch):
        return "phase_order"
    if any("temp" in l for l in ch):
        return "temporaries"
    return "other"


def classify(cfg_a, seed_a, cfg_b, seed_b):
    ca = {k: v for k, v in cfg_a.items() if k not in HISTORY_KEYS}
    cb = {k: v for k, v in cfg_b.items() if k not in HISTORY_KEYS}
    ha = [cfg_a.get(k, 0) for k in HISTORY_KEYS]
    hb = [cfg_b.get(k, 0) for k in HISTORY_KEYS]
    if ca == cb and ha == hb:
        return "hash_seed"
    if ca == cb:
        return "history"
    if ha == hb:
        return "container_order"
    return "container_order_or_history"


def oracle(programs, table, scratch):
    """table[(seed, cfg index)][program index] = {"py","f","ev"}.  Returns the list of failures:
    one per (program, output kind), each with two configurations that disagree, preferring pairs
    that differ in as little as possible (same configuration and another hash seed first)."""
    fails = []
    keys = sorted(table)
    for pi, prog in enumerate(programs):
        for out in ("py", "f", "ev"):
            groups = {}
            for key in keys:
                groups.setdefault(table[key][pi][out], []).append(key)
            if len(groups) <= 1:
                continue
            best = None
            rank = {"hash_seed": 0, "history": 1, "container_order": 2, "container_order_or_history": 3}
            hs = sorted(groups, key=lambda h: (-len(groups[h]), h))
            for ha, hb in itertools.combinations(hs, 2):
                for ka in groups[ha][:6]:
                    for kb in groups[hb][:6]:
                        kind = classify(CONFIGS[ka[1]], ka[0], CONFIGS[kb[1]], kb[0])
                        if kind != "hash_seed" and ka[0] != kb[0]:
                            continue      # vary one thing at a time when possible
                        cand = (rank[kind], ka, kb, ha, hb, kind)
                        if best is None or cand[:3] < best[:3]:
                            best = cand
            if best is None:
                ha, hb = hs[0], hs[1]
                ka, kb = groups[ha][0], groups[hb][0]
                best = (9, ka, kb, ha, hb, "hash_seed_and_configuration")
            _, ka, kb, ha, hb, kind = best
            fails.append({"program_index": pi, "output": out, "kind": kind, "n_variants": len(groups),
                          "signature": signature(_diff_excerpt(scratch, ha, hb, limit=100000)),
                          "a": {"seed": ka[0], "cfg": CONFIGS[ka[1]], "sha": ha},
                          "b": {"seed": kb[0], "cfg": CONFIGS[kb[1]], "sha": hb},
                          "diff": _diff_excerpt(scratch, ha, hb)})
    return fails


def replay_pair(prog, others, a, b, scratch):
    """Re-run two configurations of `prog`, each in its own fresh interpreter, after the
    predecessors its lane had (`others`: the whole program list of the run, for the history)."""
    lanes = []
    for side in (a, b):
        order, jobs = lane_jobs(others, side["cfg"])
        idx = others.index(prog)
        pos = order.index(idx)
        lanes.append((side["seed"], jobs[:pos + 1]))
    res, errors = run_lanes(lanes, scratch)
    return res[0][-1], res[1][-1], errors


def minimal_history_pair(prog, out, scratch, seed=0):
    """Does the output of `prog` change when an unrelated program was generated first in the same
    process?  (the smallest form of a 'history' failure)"""
    lanes = [(seed, [[prog, {}]]), (seed, [[PRE_PROGRAM, {}], [prog, {}]])]
    res, _ = run_lanes(lanes, scratch)
    return res[0][-1][out], res[1][-1][out]


# ====================================================================== the modelled sites, run
# with dictated iteration orders (in this process; independent of the hash seed by construction)

def order_of(policy, sid, elems):
    """mirror of Determ.policy: sorted, optionally reversed, rotated by k + len(sid)"""
    rev, k = policy
    l = sorted(elems)
    if rev:
        l.reverse()
    if l:
        r = (k + len(sid)) % len(l)
        l = l[r:] + l[:r]
    return l


class OrdSet(frozenset):
    """a frozenset whose iteration order is dictated by the harness; set algebra keeps the type"""
    policy = (False, 0)

    def __new__(cls, it=(), sid=""):
        o = super().__new__(cls, it)
        o.sid = sid
        return o

    def __iter__(self):
        return iter(order_of(OrdSet.policy, self.sid, frozenset.__iter__(self)))

    def _w(self, raw):
        return OrdSet(raw, self.sid)

    def __and__(self, o):
        return self._w(frozenset.__and__(self, o))

    def __or__(self, o):
        return self._w(frozenset.__or__(self, o))

    def __sub__(self, o):
        return self._w(frozenset.__sub__(self, o))

    __rand__ = __and__
    __ror__ = __or__

    def union(self, *o):
        return self._w(frozenset.union(self, *o))

    def intersection(self, *o):
        return self._w(frozenset.intersection(self, *o))

    def difference(self, *o):
        return self._w(frozenset.difference(self, *o))


class dictated_order:
    """while active, get_read_variables / get_written_variables of every statement class return
    OrdSets iterating in the order Determ.policy rev k <statement id> prescribes"""

    def __init__(self, rev, k):
        self.policy = (bool(rev), int(k))

    def __enter__(self):
        import dagrt.language as L
        self.saved = []
        for cls in {c for c in vars(L).values() if isinstance(c, type)}:
            for m in ("get_read_variables", "get_written_variables"):
                if m in cls.__dict__:
                    orig = cls.__dict__[m]
                    self.saved.append((cls, m, orig))
                    setattr(cls, m, (lambda o: lambda s: OrdSet(o(s), getattr(s, "id", "") or ""))(orig))
        self.old = OrdSet.policy
        OrdSet.policy = self.policy
        return self

    def __exit__(self, *a):
        for cls, m, orig in self.saved:
            setattr(cls, m, orig)
        OrdSet.policy = self.old


def sview(stmt):
    return [stmt.id, sorted(frozenset(stmt.get_read_variables())), sorted(frozenset(stmt.get_written_variables())),
            sorted(stmt.depends_on)]


def kind_repr(k):
    from dagrt import data as D
    if k is None:
        return None
    if isinstance(k, D.Boolean):
        return ["bool"]
    if isinstance(k, D.Integer):
        return ["int"]
    if isinstance(k, D.Scalar):
        return ["scalar", bool(k.is_real_valued)]
    if isinstance(k, D.Array):
        return ["array", bool(k.is_real_valued)]
    if isinstance(k, D.UserType):
        return ["user", k.identifier]
    raise ValueError("unmodelled kind %r" % (k,))


def observe_sites(prog, rev, k, cfg=None):
    """Run the real code of S1, S2, S3, S3', S4, S4' on `prog` under the dictated order."""
    import dagrt.codegen.fortran as f
    from dagrt.codegen.dag_ast import create_ast_from_phase, get_statements_in_ast
    from dagrt.codegen.transform import eliminate_self_dependencies
    code = make_code(prog, cfg or {})
    obs = {"rev": bool(rev), "k": int(k), "program": prog["name"]}
    with dictated_order(rev, k):
        # ---- S1: eliminate_self_dependencies on the lowered phases
        s1 = []
        for name in sorted(code.phases):
            ast = create_ast_from_phase(code, name)
            before = [sview(s) for s in get_statements_in_ast(ast)]
            after = [sview(s) for s in get_statements_in_ast(eliminate_self_dependencies(ast))]
            s1.append({"phase": name, "before": before, "after": after})
        obs["s1"] = s1
        # ---- the whole Fortran generator, with the calls of interest recorded
        cg = fortran_generator(prog.get("fopts"))
        rec = {"ctx": None, "calls": [], "order": [], "leaves": {}, "kinds": None, "decls": {}, "in_begin": None}
        o_for, o_var, o_lf, o_la, o_end = (cg.emit_deinit_for_last_usage_of_vars, cg.emit_variable_deinit,
                                           cg.lower_function, cg.lower_ast, cg.emit_def_end)
        o_begin, o_decl, o_init = cg.emit_def_begin, cg.emit_variable_decl, cg.emit_variable_init

        def w_begin(function_name, argument_names, phase_id=None, **kw):
            # the declarations and initialisations of the locals of a phase function
            if phase_id is None:
                return o_begin(function_name, argument_names, phase_id=phase_id, **kw)
            d = rec["decls"][phase_id] = {"keys": list(cg.sym_kind_table.per_phase_table.get(phase_id, {})),
                                          "decl": [], "init": []}
            rec["in_begin"] = d
            try:
                return o_begin(function_name, argument_names, phase_id=phase_id, **kw)
            finally:
                rec["in_begin"] = None
                back = {}
                for ident in d["keys"]:
                    back.setdefault(cg.name_manager[ident], ident)
                d["decl"] = [back.get(n, "?" + n) for n in d["decl"]]

        def w_decl(fortran_name, sym_kind, *a, **kw):
            if rec["in_begin"] is not None:
                rec["in_begin"]["decl"].append(fortran_name)
            return o_decl(fortran_name, sym_kind, *a, **kw)

        def w_init(name, sym_kind, *a, **kw):
            if rec["in_begin"] is not None:
                rec["in_begin"]["init"].append(name)
            return o_init(name, sym_kind, *a, **kw)

        def w_for(inst):
            if getattr(inst, "id", None) is None:
                # the call of a state update hook, made up by emit_inst_YieldState: not a statement
                # of the description (its argument has no kind, so nothing is released)
                return o_for(inst)
            if getattr(cg, "for_loop_depth", 0):
                # since the repair of C12 (176abb3) the site returns at once inside a loop body:
                # nothing is iterated or emitted there
                return o_for(inst)
            rec["ctx"] = ["stmt", cg.current_function, inst.id]
            rec["calls"].append([rec["ctx"], None, None])      # the site ran for this statement
            try:
                return o_for(inst)
            finally:
                rec["ctx"] = None

        def w_var(name, kind):
            if rec["ctx"] is not None:
                rec["calls"].append([rec["ctx"], name, kind_repr(kind)])
            return o_var(name, kind)

        def w_lf(name, ast):
            rec["order"].append(name)
            rec["leaves"][name] = [sview(s) for s in get_statements_in_ast(ast)]
            rec["kinds"] = cg.sym_kind_table
            return o_lf(name, ast)

        def w_la(ast):
            r = o_la(ast)
            rec["ctx"] = ["final", cg.current_function, None]
            return r

        def w_end(*a, **kw):
            rec["ctx"] = None
            return o_end(*a, **kw)

        cg.emit_deinit_for_last_usage_of_vars, cg.emit_variable_deinit = w_for, w_var
        cg.lower_function, cg.lower_ast, cg.emit_def_end = w_lf, w_la, w_end
        cg.emit_def_begin, cg.emit_variable_decl, cg.emit_variable_init = w_begin, w_decl, w_init
        try:
            cg(code)
        except Exception as ex:  # noqa: BLE001
            obs["fortran_exc"] = type(ex).__name__
            return obs
        obs["f_order"] = rec["order"]
        obs["leaves"] = [[name, rec["leaves"][name]] for name in rec["order"]]
        obs["last_use"] = [[v, p, sid] for (v, p), sid in cg.last_used_stmt_table.items()]
        kt = rec["kinds"]
        obs["kinds"] = ([[None, x, kind_repr(kd)] for x, kd in kt.global_table.items()]
                        + [[p, x, kind_repr(kd)] for p, t in kt.per_phase_table.items() for x, kd in t.items()])
        per_stmt, final = {}, {}
        for ctx, name, kd in rec["calls"]:
            if ctx[0] == "stmt":
                lst = per_stmt.setdefault(ctx[1], {}).setdefault(ctx[2], [])
                if name is not None:
                    lst.append([name, kd])
            else:
                final.setdefault(ctx[1], []).append([name, kd])
        obs["deinit"] = [[p, [[sid, calls] for sid, calls in per_stmt.get(p, {}).items()]] for p in rec["order"]]
        obs["final"] = [[p, final.get(p, [])] for p in rec["order"]]
        obs["decls"] = [[p, rec["decls"][p]["keys"], rec["decls"][p]["decl"], rec["decls"][p]["init"]]
                        for p in rec["order"] if p in rec["decls"]]
    return obs


def observe_python_phases(prog, cfg):
    """S4: the order of the phase functions and of the phase transition table in the Python text"""
    import re
    code = make_code(prog, cfg)
    text = python_text(code)
    order = re.findall(r"^\s*def phase_(\w+)\(self\):", text, re.M)
    m = re.search(r"self\.phase_transition_table = (\{.*?\})\s*$", text, re.M | re.S)
    tab = re.findall(r"'(\w+)': \('(\w+)', self\.phase_\w+\)", re.sub(r"\s+", " ", m.group(1))) if m else None
    return {"D": [[n, ph.next_phase] for n, ph in code.phases.items()], "py_order": order,
            "py_table": [list(t) for t in tab] if tab is not None else None}


# ---- S5: ArrayType's default index variables

def gen_ftype(rng, depth=0):
    c = rng.random()
    if depth >= 3 or c < 0.35:
        return ["builtin"]
    if c < 0.7:
        return ["array", rng.randint(1, 3), gen_ftype(rng, depth + 1)]
    if c < 0.8:
        inner = gen_ftype(rng, depth + 1)
        return ["pointer", inner if inner[0] != "pointer" else ["builtin"]]
    return ["struct", [gen_ftype(rng, depth + 1) for _ in range(rng.randint(1, 3))]]


def build_ftype(t):
    """Builds the real type bottom-up; returns (object, [(history, ndims, elem description, names,
    history after)...]) for every ArrayType constructed with default index variables."""
    import dagrt.codegen.fortran as f
    log = []

    def counter():
        return getattr(f.ArrayType, "INDEX_VAR_COUNTER", 0)

    def go(t):
        if t[0] == "builtin":
            return f.BuiltinType("real*8")
        if t[0] == "array":
            elem = go(t[2])
            if isinstance(elem, f.PointerType):       # "Arrays of pointers are not allowed"
                elem = f.StructureType("s", (("m", elem),))
                desc = ["struct", [t[2]]]
            else:
                desc = t[2]
            h = counter()
            a = f.ArrayType(tuple(str(3 + i) for i in range(t[1])), elem)
            log.append([h, t[1], desc, list(a.index_vars), counter()])
            return a
        if t[0] == "pointer":
            return f.PointerType(go(t[1]))
        return f.StructureType("s", tuple(("m%d" % i, go(m)) for i, m in enumerate(t[1])))
    return go(t), log


# ---------------------------------------------------------------------- Coq terms

def cs(s):
    return '"' + s.replace('"', '""') + '"'


def clist(items):
    return "[" + "; ".join(items) + "]"


def cbool(b):
    return "true" if b else "false"


def sstmt_coq(v):
    return "(mkS %s %s %s %s)" % (cs(v[0]), clist(map(cs, v[1])), clist(map(cs, v[2])), clist(map(cs, v[3])))


def okind_coq(k):
    if k is None:
        return "(@None kind)"
    return "(Some %s)" % {"bool": "KBool", "int": "KInt"}.get(k[0], "(%s %s)" % (
        {"scalar": "KScalar", "array": "KArray", "user": "KUser"}.get(k[0], "?"),
        cs(k[1]) if k[0] == "user" else cbool(k[1] if len(k) > 1 else False)))


def ftype_coq(t):
    if t[0] == "builtin":
        return "FBuiltin"
    if t[0] == "array":
        return "(FArray %d %s)" % (t[1], ftype_coq(t[2]))
    if t[0] == "pointer":
        return "(FPointer %s)" % ftype_coq(t[1])
    return "(FStruct %s)" % clist(ftype_coq(m) for m in t[1])


def fs_coq(leaves):
    return clist("(%s, %s)" % (cs(p), clist(sstmt_coq(s) for s in ls)) for p, ls in leaves)


def site_cases(obs):
    """Coq terms (ccase) for one observation of observe_sites"""
    out = []
    rev, k = cbool(obs["rev"]), obs["k"]
    for ph in obs["s1"]:
        out.append(("selfdep", "(CSelfdep %s %d %s %s)" % (
            rev, k, clist(sstmt_coq(s) for s in ph["before"]), clist(sstmt_coq(s) for s in ph["after"]))))
    if "fortran_exc" in obs:
        return out
    fs = fs_coq(obs["leaves"])
    out.append(("last_use", "(CLastUse %s %d %s %s)" % (
        rev, k, fs, clist("((%s, %s), %s)" % (cs(v), cs(p), cs(sid)) for v, p, sid in obs["last_use"]))))
    T = clist("((%s, %s), %s)" % ("Some " + cs(p) if p is not None else "@None string", cs(x), okind_coq(kd))
              for p, x, kd in obs["kinds"])
    exp = clist("(%s, %s)" % (cs(p), clist(
        "(%s, DOk %s)" % (cs(sid), clist("(%s, %s)" % (cs(v), okind_coq(kd)) for v, kd in calls))
        for sid, calls in lst)) for p, lst in obs["deinit"])
    fin = clist("(%s, %s)" % (cs(p), clist("(%s, %s)" % (cs(v), okind_coq(kd)) for v, kd in calls))
                for p, calls in obs["final"])
    out.append(("deinit", "(CDeinit %s %d %s %s %s %s)" % (rev, k, T, fs, exp, fin)))
    for p, keys, decl, init in obs.get("decls", []):
        out.append(("decls", "(CDecls %s %s %s)" % (clist(map(cs, keys)), clist(map(cs, decl)), clist(map(cs, init)))))
    return out


def phases_case(o, f_order):
    pairs = lambda l: clist("(%s, %s)" % (cs(a), cs(b)) for a, b in l)  # noqa: E731
    return "(CPhases %s %s %s %s)" % (pairs(o["D"]), clist(map(cs, f_order)), clist(map(cs, o["py_order"])),
                                      pairs(o["py_table"]))


HEADER = r"""From Coq Require Import List String Bool Arith.
Import ListNotations.
From Dagrt Require Import GenC15 Simplify DagAst Unify KindInfer KindInferCfg Determ.
Open Scope string_scope.
Open Scope list_scope.
Inductive ccase :=
| CSelfdep (rev : bool) (k : nat) (before expect : list sstmt)
| CLastUse (rev : bool) (k : nat) (fs : list (string * list sstmt)) (expect : ltable)
| CDeinit (rev : bool) (k : nat) (T : table) (fs : list (string * list sstmt))
          (expect : list (string * list (string * dres)))
          (final : list (string * list (string * okind)))
| CPhases (D : list (string * string)) (f_order py_order : list string) (py_table : list (string * string))
| CIndex (h n : nat) (e : ftype) (names : list string) (h' : nat)
| CDecls (keys decl init : list string).
Definition is_state := c_is_state gen_cfg.
Definition entry_eqb (a b : lkey * string) : bool := lkey_eqb (fst a) (fst b) && String.eqb (snd a) (snd b).
Definition pair_eqb (a b : string * string) : bool := String.eqb (fst a) (fst b) && String.eqb (snd a) (snd b).
Definition find_stmt (ls : list sstmt) (sid : string) : option sstmt :=
  find (fun s => String.eqb (s_id s) sid) ls.
Definition chk_phase (rev : bool) (k : nat) (T : table) (tbl : ltable)
           (fs : list (string * list sstmt)) (pe : string * list (string * dres)) : bool :=
  match find (fun x => String.eqb (fst x) (fst pe)) fs with
  | None => false
  | Some (p, ls) =>
      forallb (fun e => match find_stmt ls (fst e) with
                        | None => false
                        | Some st => dres_eqb (deinit_calls is_state deinit_sorted T p tbl (s_id st)
                                                 (policy rev k (s_id st) (sunion (s_reads st) (s_writes st))))
                                              (snd e)
                        end) (snd pe)
  end.
Definition chk (c : ccase) : bool :=
  match c with
  | CSelfdep rev k before expect =>
      list_eqb sstmt_eqb (selfdep_pass pgen pg_gen pg_init selfdep_sorted (policy rev k) before) expect
  | CLastUse rev k fs expect =>
      list_eqb entry_eqb (last_use_all (fun _ => policy rev k) fs []) expect
  | CDeinit rev k T fs expect final =>
      let tbl := last_use_all (fun _ => policy rev k) fs [] in
      forallb (chk_phase rev k T tbl fs) expect
      && forallb (fun pf => list_eqb call_eqb (final_deinit exit_deinit_all T (fst pf) tbl) (snd pf)) final
      && Nat.eqb (List.length expect) (List.length fs) && Nat.eqb (List.length final) (List.length fs)
  | CPhases D f_order py_order py_table =>
      let D' := map (fun x => mkPh (fst x) (snd x) []) D in
      let r := pipeline_py true true true py_phases_sorted py_table_sorted D' in
      list_eqb String.eqb (map ph_name (sort_by ph_name D')) f_order
      && list_eqb String.eqb (map fst (fst r)) py_order
      && list_eqb pair_eqb (snd r) py_table
  | CIndex h n e names h' =>
      let r := index_vars index_vars_from_counter h n e in
      list_eqb String.eqb (fst r) names && (Nat.eqb (snd r) h' || negb index_vars_from_counter)
  | CDecls keys decl init =>
      (* emit_def_begin: the locals of a phase function are declared, then initialised, in the
         sorted order of the keys of the phase's kind table (keys: the dict's own order) *)
      list_eqb String.eqb (ssort keys) decl && list_eqb String.eqb (ssort keys) init
  end.
"""


# ====================================================================== shrinking / replays

def _drop_candidates(prog):
    """programs with one op removed (top level or inside an if)"""
    out = []
    for pi, ph in enumerate(prog["phases"]):
        for oi, op in enumerate(ph["ops"]):
            q = json.loads(json.dumps(prog))
            del q["phases"][pi]["ops"][oi]
            out.append(q)
            if op[0] == "if":
                for bi in (2, 3):
                    if len(op) > bi:
                        for ci in range(len(op[bi])):
                            q = json.loads(json.dumps(prog))
                            del q["phases"][pi]["ops"][oi][bi][ci]
                            out.append(q)
    if len(prog["phases"]) > 1:
        for pi, ph in enumerate(prog["phases"]):
            if ph["name"] != prog["initial"]:
                q = json.loads(json.dumps(prog))
                del q["phases"][pi]
                names = [p["name"] for p in q["phases"]]
                for p in q["phases"]:
                    if p["next"] not in names:
                        p["next"] = names[0]
                if not any(_mentions(p["ops"], ph["name"]) for p in q["phases"]):
                    out.append(q)
    return out


def _mentions(ops, phase):
    for op in ops:
        if op[0] == "switch" and op[1] == phase:
            return True
        if op[0] == "if" and (_mentions(op[2], phase) or (len(op) > 3 and _mentions(op[3], phase))):
            return True
    return False


def differs(sides_list, out, scratch):
    """sides_list: [(lane A, lane B)...] with lane = (seed, jobs); -> [bool...] whether the last
    job's `out` differs between the two lanes (and is a real text, not a failed lane)"""
    lanes = [l for pair in sides_list for l in pair]
    res, _ = run_lanes(lanes, scratch)
    r = []
    for i in range(0, len(res), 2):
        a, b = res[i][-1][out], res[i + 1][-1][out]
        r.append(a != b and "LANE-FAILED" not in (a, b) and "WORKER-EXC" not in (a, b))
    return r


def shrink_failure(prog, lane_a, lane_b, out, scratch, rounds=8):
    """lane_x = (seed, predecessors [[prog, cfg]...], cfg).  Drops the predecessors if the
    failure survives without them (or with the one unrelated PRE_PROGRAM run), then ops."""
    (sa, pa, ca), (sb, pb, cb) = lane_a, lane_b

    def mk(p, pre_a, pre_b):
        return ((sa, pre_a + [[p, ca]]), (sb, pre_b + [[p, cb]]))
    trial = [mk(prog, [], [])]
    if pa != pb:
        trial.append(mk(prog, [], [[PRE_PROGRAM, {}]]))
    ok = differs(trial, out, scratch)
    if ok[0]:
        pa, pb = [], []
    elif len(ok) > 1 and ok[1]:
        pa, pb = [], [[PRE_PROGRAM, {}]]
    for _ in range(rounds):
        cands = _drop_candidates(prog)
        if not cands:
            break
        same_history = all(ca.get(k, 0) == cb.get(k, 0) for k in HISTORY_KEYS)
        if not pa and not pb and same_history:
            # no predecessors involved: one interpreter per side tries all candidates in a row
            # (both sides see the same history, so a difference is due to the seed / configuration)
            res, _ = run_lanes([(sa, [[q, ca] for q in cands]), (sb, [[q, cb] for q in cands])], scratch)
            ok = [x[out] != y[out] and "LANE-FAILED" not in (x[out], y[out])
                  and "WORKER-EXC" not in (x[out], y[out]) for x, y in zip(res[0], res[1])]
        else:
            # every candidate needs two fresh interpreters (what an earlier candidate leaves
            # behind in the process would mask the failure): keep this search short
            if _ >= (4 if pa or pb else rounds):
                break
            cands = sorted(cands, key=prog_size)
            lim = 5 if pa or pb else common.NPROC // 2
            chunks = [cands[i:i + lim] for i in range(0, len(cands), lim)][:1 if pa or pb else 3]
            cands, ok = [], []
            for chunk in chunks:
                okc = differs([mk(q, pa, pb) for q in chunk], out, scratch)
                if any(okc):
                    cands, ok = chunk, okc
                    break
        nxt = [q for q, o in zip(cands, ok) if o]
        if not nxt:
            break
        prog = min(nxt, key=prog_size)
    return prog, (sa, pa, ca), (sb, pb, cb)


def lane_texts(prog, lane, out, scratch):
    s, pre, cfg = lane
    res, errs = run_lanes([(s, pre + [[prog, cfg]])], scratch)
    return res[0][-1][out]


KNOWN_CLASSES = {
    # class -> (output, predicate on (failure kind, diff lines))
    "fortran_release_call_order": ("f", lambda kind, d: kind == "hash_seed" and _only_reordered(
        d, lambda l: l.strip().startswith("call dagrt_deinit_"))),
    "fortran_selfdep_temporaries_order": ("f", lambda kind, d: kind == "hash_seed" and any(
        "temp" in l for l in _changed(d))),
    "python_phase_dict_order": ("py", lambda kind, d: kind.startswith("container_order")),
    "fortran_index_var_counter": ("f", lambda kind, d: kind == "history" and all(
        "drtf_i" in l for l in _changed(d))),
}


def _is_declaration(line):
    """a Fortran declaration line (`integer x`, `integer :: x`, `real (kind=8), allocatable, ... :: x`, ...)"""
    l = line.strip().lower()
    return l.startswith(("integer", "real", "complex", "logical", "character", "type(", "type ("))


def _changed(diff):
    return [l[1:] for l in diff if (l.startswith("+") or l.startswith("-")) and not l.startswith(("+++", "---"))]


def _only_reordered(diff, pred):
    plus = sorted(l[1:] for l in diff if l.startswith("+") and not l.startswith("+++"))
    minus = sorted(l[1:] for l in diff if l.startswith("-") and not l.startswith("---"))
    return plus == minus and all(pred(l) for l in plus)


def match_known(failure, known):
    for kf in known:
        cls = KNOWN_CLASSES.get(kf.get("class"))
        if cls and cls[0] == failure["output"] and cls[1](failure["kind"], failure["diff_full"]):
            return kf
    return None


# ====================================================================== the check

POLICIES = [(False, 0), (True, 0), (False, 1), (True, 2)]


def gen_programs(tier, seed):
    progs = corpus()
    n_corpus = len(progs)
    progs += [json.loads(json.dumps(p)) for p in HAND_PROGRAMS]
    rng = random.Random(seed * 7919 + 15)
    nrand = 24 if tier == "quick" else 120
    for i in range(nrand):
        p = random_program(rng, i)
        progs.append(lengthen(p) if i % 4 == 3 else p)      # every fourth one with long identifiers
    # the case twin goes last: a lane rotated by more than three_phases' index then generates it BEFORE
    # three_phases, the unrotated lanes after it
    twins = [p for p in progs if p["name"] == "three_phases_upper"]
    progs = [p for p in progs if p["name"] != "three_phases_upper"] + twins
    seen, out = set(), []
    for p in progs:
        key = json.dumps([p["phases"], p.get("fopts")], sort_keys=True)
        if key not in seen:
            seen.add(key)
            out.append(p)
    return out, {"corpus": n_corpus, "hand_written": len(HAND_PROGRAMS), "random": nrand}


def main(tier):
    rep = common.Reporter(PID, tier)
    seed = common.seed()
    ps = common.proof_stage(rep, PID, gen=["c05", "c06", "c14", "c15"],
                            extra_targets=["model/KindInferCfg.vo"])
    rep.coverage["stage_seconds"] = {"proof": round(time.time() - rep.t0, 1)}
    programs, dist = gen_programs(tier, seed)
    scratch = tempfile.mkdtemp(prefix="c15_")
    try:
        return _main(rep, tier, seed, ps, programs, dist, scratch)
    finally:
        shutil.rmtree(scratch, ignore_errors=True)


def _main(rep, tier, seed, ps, programs, dist, scratch):
    # ------------------------------------------------------------ oracle: all lanes
    lanes, meta = [], []
    for s in SEEDS:
        for ci, cfg in enumerate(CONFIGS):
            order, jobs = lane_jobs(programs, cfg)
            lanes.append((s, jobs))
            meta.append((s, ci, order))
    t1 = time.time()
    res, lane_errors = run_lanes(lanes, scratch)
    rep.coverage["stage_seconds"]["oracle_lanes"] = round(time.time() - t1, 1)
    table = {}
    for (s, ci, order), r in zip(meta, res):
        row = [None] * len(programs)
        for pos, pi in enumerate(order):
            row[pi] = r[pos]
        table[(s, ci)] = row
    fails = oracle(programs, table, scratch)
    n_obs = len(lanes) * len(programs)
    gen_failed = sum(1 for pi in range(len(programs))
                     if table[(SEEDS[0], 0)][pi]["f"] in ("WORKER-EXC", "LANE-FAILED")
                     or open(os.path.join(scratch, table[(SEEDS[0], 0)][pi]["f"])).read().startswith("EXC"))

    # one report per (kind of difference, output): the smallest program, shrunk
    known = common.known_findings(PID)
    by_kind = {}
    t1 = time.time()
    for fl in fails:
        key = (fl["kind"], fl["output"], fl["signature"])
        if key not in by_kind or prog_size(programs[fl["program_index"]]) < prog_size(
                programs[by_kind[key]["program_index"]]):
            by_kind[key] = fl
    for (kind, out, sig), fl in sorted(by_kind.items()):
        prog = programs[fl["program_index"]]

        def lane_of(side):
            order, jobs = lane_jobs(programs, side["cfg"])
            pos = order.index(fl["program_index"])
            cfg = {k: v for k, v in side["cfg"].items() if k != "offset"}
            return (side["seed"], jobs[:pos], cfg)
        small, la, lb = shrink_failure(prog, lane_of(fl["a"]), lane_of(fl["b"]), out, scratch,
                                       rounds=8 if tier == "quick" else 16)
        ha, hb = lane_texts(small, la, out, scratch), lane_texts(small, lb, out, scratch)
        diff = _diff_excerpt(scratch, ha, hb, limit=400)
        detail = {
            "what": "the %s differs between two configurations of one method description (%s)" % (
                {"py": "generated Python text", "f": "generated Fortran text",
                 "ev": "interpreter's event list"}[out], kind),
            "kind": kind, "output": out, "signature": sig, "program": small, "n_programs_failing": sum(
                1 for x in fails if (x["kind"], x["output"], x["signature"]) == (kind, out, sig)),
            "a": {"seed": la[0], "predecessors": la[1], "cfg": la[2], "sha256_20": ha},
            "b": {"seed": lb[0], "predecessors": lb[1], "cfg": lb[2], "sha256_20": hb},
            "diff_excerpt": diff[:60],
            "shape_switches": _flags(),
            "replay": "./check C15 --replay <this file>"}
        kf = match_known({"output": out, "kind": kind, "diff_full": diff}, known)
        if ha == hb:
            # could not be reproduced in isolation: report the original pair unshrunk
            detail.update(program=prog, a=fl["a"], b=fl["b"], diff_excerpt=fl["diff"],
                          all_programs=[p["name"] for p in programs], unshrunk=True)
        if kf is not None:
            rep.known_finding(kf.get("what_fails", kf.get("class")))
        else:
            rep.violation(detail)

    rep.coverage["stage_seconds"]["shrink_and_report"] = round(time.time() - t1, 1)

    # ------------------------------------------------------------ correspondence with the model
    t1 = time.time()
    terms, kinds_of_case, site_obs = [], [], []
    nontrivial = set()
    rng = random.Random(seed * 104729 + 15)
    for pi, prog in enumerate(programs):
        for rev, k in POLICIES:
            try:
                obs = observe_sites(prog, rev, k)
            except Exception as ex:  # noqa: BLE001
                site_obs.append({"program": prog["name"], "error": type(ex).__name__})
                continue
            site_obs.append(obs)
            for kind, term in site_cases(obs):
                terms.append(term)
                kinds_of_case.append((kind, pi, rev, k))
            if any(len(set(s[1]) & set(s[2])) >= 2 for ph in obs["s1"] for s in ph["before"]):
                nontrivial.add((pi, "two_self_dependent_variables"))
            if any(len(calls) >= 2 for _, lst in obs.get("deinit", []) for _, calls in lst):
                nontrivial.add((pi, "several_release_calls_after_one_statement"))
        if len(prog["phases"]) > 1:
            nontrivial.add((pi, "several_phases"))
        if any(len(_loop_counters(ph["ops"])) >= 2 for ph in prog["phases"]):
            nontrivial.add((pi, "several_loop_counters_in_one_phase"))
        if any(t in json.dumps(prog["phases"]) for t in DECLARING_TEMPLATES):
            nontrivial.add((pi, "call_of_a_template_that_declares_temporaries"))
        f_order = sorted(ph["name"] for ph in prog["phases"])
        for pp in (0, 1, 2):
            try:
                o = observe_python_phases(prog, {"phase_perm": pp})
            except Exception:  # noqa: BLE001
                continue
            if o["py_table"] is not None:
                terms.append(phases_case(o, f_order))
                kinds_of_case.append(("phases", pi, pp, 0))
    n_index = 40 if tier == "quick" else 400
    for _ in range(n_index):
        t = gen_ftype(rng)
        try:
            _, log = build_ftype(t)
        except Exception:  # noqa: BLE001
            continue
        for h, n, e, names, h2 in log:
            terms.append("(CIndex %d %d %s %s %d)" % (h, n, ftype_coq(e), clist(map(cs, names)), h2))
            kinds_of_case.append(("index", None, h, n))

    rep.coverage["stage_seconds"]["run_sites"] = round(time.time() - t1, 1)
    t1 = time.time()
    mism, n_eval, errors = [], 0, []
    if os.path.exists(os.path.join(common.COQ, "model", "Determ.vo")) and os.path.exists(
            os.path.join(common.COQ, "gen", "GenC15.vo")):
        mism, n_eval, errors = common.eval_cases(PID, HEADER, terms, "chk", shard=60)
    else:
        errors = ["model not built"]
    errors = list(errors) + lane_errors
    rep.coverage["stage_seconds"]["coq_cases"] = round(time.time() - t1, 1)

    tie_broken = bool(mism or errors)
    if (not ps["ok"] or tie_broken) and not rep.violations:
        detail = {"what": "proof obligation or model/implementation correspondence no longer checks; "
                          "no failing input found by the implementation-level oracle",
                  "proof_stage": ps, "coq_errors": errors[:3], "shape_switches": _flags()}
        if mism:
            i = mism[0]
            detail["first_disagreeing_case"] = {"site": kinds_of_case[i][0], "case": kinds_of_case[i][1:],
                                                "program": programs[kinds_of_case[i][1]]
                                                if kinds_of_case[i][1] is not None else None,
                                                "coq_term": terms[i][:6000]}
            detail["n_disagreements"] = len(mism)
            detail["disagreeing_sites"] = sorted({kinds_of_case[j][0] for j in mism})
        detail["broken"] = ("theorem file %s" % ps.get("theorem")) if not ps["ok"] else \
            "correspondence dagrt.codegen iteration sites ~ Dagrt.Determ"
        rep.violation(detail, no_input=True)
    elif not ps["ok"] or tie_broken:
        rep.coverage["broken_obligation"] = ps if not ps["ok"] else {"disagreements": len(mism),
                                                                     "errors": errors[:2]}

    by_site = {}
    for kd in kinds_of_case:
        by_site[kd[0]] = by_site.get(kd[0], 0) + 1
    rep.coverage.update(
        evaluations=n_obs + len(terms),
        distinct_nontrivial=len({pi for pi, _ in nontrivial}),
        rule="a program is non-trivial when it has a statement with >= 2 variables both read and written "
             "(S1), a statement after which >= 2 release calls are emitted (S3), >= 2 phases (S4), a phase "
             "with >= 2 distinct loop counters, or a call of a Fortran template that declares temporaries "
             "(matmul, transpose, linear_solve, svd, <func>s); distinct by program text",
        nontrivial_by_reason={r: sum(1 for _, x in nontrivial if x == r) for r in sorted({x for _, x in nontrivial})},
        oracle_observations=n_obs, hash_seeds=SEEDS, configurations=CONFIGS, lanes=len(lanes),
        programs=len(programs), programs_whose_generation_raises=gen_failed,
        oracle_failures=len(fails),
        traces_validated_against_impl=n_eval, model_impl_disagreements=len(mism), cases_by_site=by_site,
        input_distribution=dict(dist, policies=[list(p) for p in POLICIES],
                                statements=sorted(prog_size(p) for p in programs)),
        samples=[{"program": programs[i], "lane": {"seed": SEEDS[0], "cfg": CONFIGS[0]},
                  "sha": table[(SEEDS[0], 0)][i]} for i in (0, len(programs) // 2, len(programs) - 1)],
        shape_switches=_flags(),
        exhaustive=False,
    )
    rep.assumptions = [
        "text production from the modelled pipeline stages and CPython's hashing are outside the proof "
        "(covered by the sha256 oracle only)",
        "user-supplied containers that are sequences or dicts in written order (kw parameters, loops) "
        "are part of the description",
        "variable names do not end in _<digits> (pytools' counter regexp is not modelled)"]
    return rep.finish("proof")


def _flags():
    try:
        from harness.tr import c15 as tr
        return tr.shapes(common.REPO)
    except Exception as ex:  # noqa: BLE001
        return {"error": "%s: %s" % (type(ex).__name__, ex)}


def replay(path):
    r = json.load(open(path))
    if "program" not in r or "a" not in r or r.get("unshrunk"):
        print("replay names a broken obligation or an unshrunk pair: %s" % (r.get("broken") or r.get("what")))
        print(json.dumps({k: r.get(k) for k in ("kind", "output", "a", "b")}, indent=1)[:3000])
        return 1
    scratch = tempfile.mkdtemp(prefix="c15_")
    try:
        out = r["output"]
        la = (r["a"]["seed"], r["a"]["predecessors"], r["a"]["cfg"])
        lb = (r["b"]["seed"], r["b"]["predecessors"], r["b"]["cfg"])
        ha, hb = lane_texts(r["program"], la, out, scratch), lane_texts(r["program"], lb, out, scratch)
        diff = _diff_excerpt(scratch, ha, hb, limit=60)
        print(json.dumps({"output": out, "a": ha, "b": hb, "differs": ha != hb}, indent=1))
        print("\n".join(diff))
        return 1 if ha != hb else 0
    finally:
        shutil.rmtree(scratch, ignore_errors=True)


if __name__ == "__main__":
    if "--worker" in sys.argv:
        worker()
