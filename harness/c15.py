"""C15: generated source text is a pure function of the method description.

Oracle (implementation level, independent of the model): every program is generated in
subprocesses with PYTHONHASHSEED in 8 values; inside each, one forked child per configuration
(statement containers as list / frozenset, statements, dependency sets and the phase dict built in
permuted order, with / without a preceding unrelated generator run in the same process) produces
the Python text, the Fortran text and the real interpreter's event list.  All configurations of
one program must agree byte for byte; a difference is reported with the two configurations and a
unified diff excerpt.

Tie to the model (coq/model/Determ.v): the real code of the modelled iteration sites
(SelfDependencyEliminator.map_statement, var_to_last_dependent_statement_mapping,
emit_deinit_for_last_usage_of_vars, the end-of-function deinit loop, the Python generator's
iteration over dag.phases, ArrayType's default index variables) is run with set-like objects whose
iteration order is dictated by the harness and compared with the model evaluated by vm_compute on
the same explicit order lists.  harness/tr/c15.py additionally enumerates every for/comprehension
of dagrt/codegen/*.py whose iterable is not syntactically ordered and requires the list to equal
the vetted table (fail-closed).
"""
import difflib
import hashlib
import itertools
import json
import os
import random
import shutil
import subprocess
import sys
import tempfile

from harness import common

PID = "C15"
SEEDS = [0, 1, 2, 3, 4, 5, 6, 7]

# ====================================================================== programs
#
# program = {"name": str, "initial": phase, "steps": n, "phases": [{"name", "next", "ops": [op...]}]}
# op = ["asg", lhs | [lhs...], rhs]            cb(lhs, rhs)
#    | ["loop", lhs, rhs, [[i, lo, hi]...]]    cb(lhs, rhs, loops=...)
#    | ["if", cond, [op...], [op...]]          with cb.if_(cond): ... / with cb.else_(): ...
#    | ["yield", expr, comp, time, time_id] | ["switch", phase] | ["fail"] | ["restart"]
# The canonical description is what the real CodeBuilder makes of the ops (ids, dependencies).


def _apply_ops(cb, ops):
    from dagrt.expression import parse
    for op in ops:
        k = op[0]
        if k == "asg":
            lhs = tuple(op[1]) if isinstance(op[1], list) else op[1]
            cb(lhs, op[2])
        elif k == "loop":
            cb(op[1], op[2], loops=[(i, lo, hi) for i, lo, hi in op[3]])
        elif k == "if":
            with cb.if_(op[1]):
                _apply_ops(cb, op[2])
            if len(op) > 3 and op[3]:
                with cb.else_():
                    _apply_ops(cb, op[3])
        elif k == "yield":
            cb.yield_state(op[1], op[2], parse(op[3]), op[4])
        elif k == "switch":
            cb.switch_phase(op[1])
        elif k == "fail":
            cb.fail_step()
        elif k == "restart":
            cb.restart_step()
        else:
            raise ValueError(op)


def canonical_statements(phase):
    """ops -> the statements of the real CodeBuilder, in the builder's own order."""
    from dagrt.language import CodeBuilder
    with CodeBuilder(name=phase["name"]) as cb:
        _apply_ops(cb, phase["ops"])
    return list(cb.statements)


def _permute(items, key, tag):
    """Deterministic permutation of a list: key 0 = as is, 1 = reversed, otherwise a shuffle
    that depends on (key, tag) only (never on the hash seed)."""
    items = list(items)
    if key == 0:
        return items
    if key == 1:
        return items[::-1]
    rng = random.Random("%d/%s" % (key, tag))
    rng.shuffle(items)
    return items


def make_code(prog, cfg):
    """The same description, stored differently: cfg = {"container": "list"|"frozenset"|"tuple",
    "perm": k, "dep_perm": k, "phase_perm": k}."""
    from dagrt.language import DAGCode, ExecutionPhase
    phases = []
    for ph in prog["phases"]:
        stmts = canonical_statements(ph)
        stmts = [s.copy(depends_on=frozenset(_permute(sorted(s.depends_on), cfg.get("dep_perm", 0), s.id)))
                 for s in stmts]
        stmts = _permute(stmts, cfg.get("perm", 0), ph["name"])
        cont = cfg.get("container", "list")
        if cont == "frozenset":
            stmts = frozenset(stmts)
        elif cont == "tuple":
            stmts = tuple(stmts)
        phases.append(ExecutionPhase(name=ph["name"], next_phase=ph["next"], statements=stmts))
    phases = _permute(phases, cfg.get("phase_perm", 0), "phases")
    return DAGCode({p.name: p for p in phases}, prog["initial"])


# ---------------------------------------------------------------------- generator set-up

G_CODE = "\n    ${r1} = ${a} + ${b}\n    ${r2} = ${a} - ${b}\n    "
F_CODE = "\n    ${result} = ${y} + 1\n    "


def registry():
    import dagrt.codegen.fortran as f
    from dagrt.data import UserType
    from dagrt.function_registry import base_function_registry, register_function, register_ode_rhs
    freg = register_ode_rhs(base_function_registry, "y", identifier="<func>f", input_names=("y",))
    freg = freg.register_codegen("<func>f", "fortran", f.CallCode(F_CODE))
    freg = register_function(freg, "<func>g", ("a", "b"), result_names=("r1", "r2"),
                             result_kinds=(UserType("y"), UserType("y")))
    freg = freg.register_codegen("<func>g", "fortran", f.CallCode(G_CODE))
    return freg


def user_types():
    """Built anew for every generator (ArrayType's default index variables come from a counter)."""
    import dagrt.codegen.fortran as f
    return {"y": f.ArrayType((5,), f.BuiltinType("real*8"))}


def fortran_text(code, name="m"):
    import dagrt.codegen.fortran as f
    cg = f.CodeGenerator(name, function_registry=registry(), user_type_map=user_types(),
                         timing_function="second")
    return cg(code)


def python_text(code, name="Method"):
    from dagrt.codegen import PythonCodeGenerator
    # default registry: <func>f / <func>g are looked up in function_map at run time
    return PythonCodeGenerator(class_name=name)(code)


def _canon(v):
    import numpy as np
    if isinstance(v, np.ndarray):
        return ["arr"] + [_canon(x) for x in v.tolist()]
    if isinstance(v, (bool, np.bool_)):
        return bool(v)
    if isinstance(v, (int, np.integer)):
        return int(v)
    if isinstance(v, (float, np.floating)):
        return ["float", float(v).hex()]
    if v is None:
        return None
    return str(v)


def interpreter_events(code, steps):
    import numpy as np
    from dagrt.exec_numpy import NumpyInterpreter
    fmap = {"<func>f": lambda t, y: y + 1, "<func>g": lambda a, b: (a + b, a - b)}
    interp = NumpyInterpreter(code, function_map=fmap)
    interp.set_up(t_start=0, dt_start=1, context={"y": np.array([1, 2, 3, 4, 5], dtype=np.int64)})
    out = []
    try:
        for ev in interp.run(max_steps=steps):
            out.append([type(ev).__name__] + [[k, _canon(v)] for k, v in ev._asdict().items()])
            if len(out) > 200:
                break
    except Exception as ex:  # noqa: BLE001 - the class is the observable
        out.append(["EXC", type(ex).__name__])
    return out


PRE_PROGRAM = {"name": "pre", "initial": "q", "steps": 1, "phases": [
    {"name": "q", "next": "q", "ops": [["asg", "w", "<func>f(<t>, <state>y)"], ["asg", "w", "w + <state>y"],
                                       ["asg", "<state>y", "w"], ["yield", "<state>y", "y", "<t>", "pre"]]}]}


def observe(prog, cfg):
    """All three observables of one configuration (texts, or the exception class)."""
    if cfg.get("pre"):
        pre = make_code(PRE_PROGRAM, {})
        fortran_text(pre, "pre")
        python_text(pre, "Pre")
        interpreter_events(pre, 1)
    out = {}
    try:
        code = make_code(prog, cfg)
    except Exception as ex:  # noqa: BLE001
        return {"py": "EXC-build " + type(ex).__name__, "f": "EXC-build " + type(ex).__name__, "ev": []}
    for key, fn in (("py", python_text), ("f", fortran_text)):
        try:
            out[key] = fn(code)
        except Exception as ex:  # noqa: BLE001
            out[key] = "EXC " + type(ex).__name__
    out["ev"] = interpreter_events(code, prog.get("steps", 2))
    return out


def _sha(s):
    return hashlib.sha256(s.encode()).hexdigest()[:20]


# ====================================================================== worker (one per hash seed)

def worker():
    """stdin: {"dir": d, "jobs": [[job_id, prog, cfg]...]}; every job runs in a forked child so that
    no job sees process state (class-level counters, caches) left by another one.
    stdout: {"results": {job_id: {"py": sha, "f": sha, "ev": sha}}}; texts go to d/<sha>."""
    req = json.load(sys.stdin)
    # import everything once; children inherit the freshly imported modules
    import dagrt.codegen.fortran  # noqa: F401
    import dagrt.codegen.python  # noqa: F401
    import dagrt.exec_numpy  # noqa: F401
    registry()
    results = {}
    for job_id, prog, cfg in req["jobs"]:
        r, w = os.pipe()
        pid = os.fork()
        if pid == 0:
            os.close(r)
            try:
                try:
                    obs = observe(prog, cfg)
                    res = {}
                    for k in ("py", "f"):
                        res[k] = _sha(obs[k])
                        p = os.path.join(req["dir"], res[k])
                        if not os.path.exists(p):
                            with open(p + ".%d" % os.getpid(), "w") as fh:
                                fh.write(obs[k])
                            os.replace(p + ".%d" % os.getpid(), p)
                    ev = json.dumps(obs["ev"])
                    res["ev"] = _sha(ev)
                    p = os.path.join(req["dir"], res["ev"])
                    if not os.path.exists(p):
                        with open(p + ".%d" % os.getpid(), "w") as fh:
                            fh.write(json.dumps(obs["ev"], indent=0))
                        os.replace(p + ".%d" % os.getpid(), p)
                except BaseException as ex:  # noqa: BLE001
                    res = {"py": "WORKER-EXC", "f": "WORKER-EXC", "ev": "%s: %s" % (type(ex).__name__, ex)}
                with os.fdopen(w, "w") as fh:
                    fh.write(json.dumps(res))
            finally:
                os._exit(0)
        os.close(w)
        with os.fdopen(r) as fh:
            data = fh.read()
        os.waitpid(pid, 0)
        results[str(job_id)] = json.loads(data) if data else {"py": "CHILD-DIED", "f": "CHILD-DIED", "ev": ""}
    sys.stdout.write(json.dumps({"results": results}))


def run_workers(jobs_by_seed, scratch, shards=2):
    """jobs_by_seed: {seed: [[job_id, prog, cfg]...]} -> {seed: {job_id: result}}"""
    procs = []
    for seed, jobs in jobs_by_seed.items():
        for k in range(shards):
            part = jobs[k::shards]
            if not part:
                continue
            env = dict(os.environ)
            env["PYTHONHASHSEED"] = str(seed)
            env["PYTHONPATH"] = common.REPO + os.pathsep + common.VERIF
            p = subprocess.Popen([sys.executable, "-m", "harness.c15", "--worker"], cwd=common.VERIF, env=env,
                                 stdin=subprocess.PIPE, stdout=subprocess.PIPE, stderr=subprocess.PIPE, text=True)
            p.stdin.write(json.dumps({"dir": scratch, "jobs": part}))
            p.stdin.close()
            procs.append((seed, p))
    out = {}
    errors = []
    for seed, p in procs:
        data = p.stdout.read()
        err = p.stderr.read()
        p.wait()
        try:
            out.setdefault(seed, {}).update(json.loads(data)["results"])
        except Exception:  # noqa: BLE001
            errors.append("worker seed %s failed: %s" % (seed, (data + err)[-1500:]))
    return out, errors


if __name__ == "__main__":
    if "--worker" in sys.argv:
        worker()
