"""Regenerates seeded/README.md from seeded/*/meta.json (+ HEADER.md, HISTORY.md)."""
import json
import os

D = os.path.join(os.path.dirname(os.path.dirname(os.path.abspath(__file__))), "seeded")


def clip(t, n=150):
    return " ".join(str(t).split())[:n].replace("|", "/")


def main():
    rows = ["| seeded change | property | what it does | needs | caught by |", "|---|---|---|---|---|"]
    n = missed = 0
    first_missed = []
    for name in sorted(os.listdir(D)):
        p = os.path.join(D, name, "meta.json")
        if not os.path.exists(p):
            continue
        m = json.load(open(p))
        how = []
        for pid, c in sorted(m.get("confirmed", {}).get("checks", {}).items()):
            v = [ln for ln in c.get("lines", []) if ln.startswith("VIOLATION")]
            if v:
                how.append("%s: %s" % (pid, "broken tie (no-failing-input-found)"
                                       if all("no-failing-input-found" in x for x in v) else "failing input"))
        n += 1
        retest = os.path.join(D, name + "_retest", "meta.json")
        if not how and os.path.exists(retest) and json.load(open(retest)).get("caught_by"):
            how = ["not caught at first; caught after strengthening (see %s_retest)" % name]
            first_missed.append(name)
        missed += 0 if how else 1
        rows.append("| %s | %s | %s | %s | %s |" % (name, m["property"], clip(m["summary"]), clip(m["needs"], 130),
                                                   "; ".join(how) or "**not caught**"))
    head = open(os.path.join(D, "HEADER.md")).read()
    hist = open(os.path.join(D, "HISTORY.md")).read()
    with open(os.path.join(D, "README.md"), "w") as f:
        f.write(head + "\n".join(rows) + "\n\n%d entries (retests included); %d escaped at first and are caught since the checks were "
                "strengthened (%s); %d not caught now.\n\n" % (n, len(first_missed), ", ".join(first_missed), missed) + hist)
    print(n, "seeded,", missed, "not caught")


if __name__ == "__main__":
    main()
