"""C13: distinct IR names map to distinct, legal, stable target identifiers.

Tie: the real PythonNameManager / FortranNameManager (dagrt.codegen.python / .fortran, on top of
dagrt.codegen.utils.KeyToUniqueNameMap and pytools.UniqueNameGenerator) vs coq/model/Names.v evaluated by
vm_compute, identifier by identifier, on operation sequences built from all ordered tuples of short names over
an adversarial alphabet (canonical up to renaming of the punctuation characters), in several name-space
orders, plus random long names.
Oracle (independent of the model): stability on re-lookup, pairwise distinctness under the target's
identifier comparison, identifier grammar (Python: str.isidentifier/keyword; Fortran: letter first, <= 63
characters), disjointness from the identifiers the generators use themselves, storage class = persistence
of the IR name; plus one compiled Python class and one gfortran-compiled module declaring mapped names.
"""
import itertools
import json
import keyword
import os
import random
import re
import shutil
import subprocess
import tempfile
import time

from harness import common

PID = "C13"

ALPHABET = "aA_0<>^*"
JUNK = "<>^*"
PERSISTENT_TAGS = ("<state>", "<p>", "<ret_time_id>", "<ret_time>", "<ret_state>")   # dagrt's naming convention
PERSISTENT_EXACT = ("<t>", "<dt>")
FORTRAN_MAX = 63

# identifiers the generators use for themselves (hand-written from the generated code, independent of the
# translator's lists): attributes/methods of the generated Python class, names local to its methods,
# the Fortran generator's name space and entry points
PY_SELF_RESERVED = {"next_phase", "phase_transition_table", "_functions", "_numpy", "StateComputed",
                    "StepCompleted", "StepFailed", "TimeStepUnderflow", "FailStepException", "TransitionEvent",
                    "StepError", "_function_symbol_container", "set_up", "run", "run_single_step", "__init__",
                    "_builtins", "namedtuple"}
PY_SELF_RESERVED_PREFIXES = ("phase_", "_builtin_")
PY_LOCAL_RESERVED = {"self", "range", "float", "print", "len", "abs", "isinstance", "None", "True", "False"}
F_RESERVED_PREFIX = "dagrt_"
F_ENTRY = {"initialize", "shutdown", "run", "print_profile"}


# ------------------------------------------------------------------ operations
# Python ops: ("G",k) name_global  ("L",k) name_local  ("F",k) name_function  ("I",k) __getitem__  ("C",) clear
# Fortran ops: ("G",k) ("L",k,prefix|None) ("F",k) ("U",p) make_unique_fortran_name ("I",k) ("R",k,q) name_refcount

def _mods():
    from dagrt.codegen.python import PythonNameManager
    from dagrt.codegen.fortran import FortranNameManager
    return PythonNameManager, FortranNameManager


def run_impl(case):
    """case = (target, ops).  Returns ("ok", [outputs]) | ("exc", class name, outputs so far)."""
    target, ops = case
    Py, Ft = _mods()
    out = []
    try:
        if target == "py":
            m = Py()
            for op in ops:
                t = op[0]
                if t == "G":
                    out.append(m.name_global(op[1]))
                elif t == "L":
                    out.append(m.name_local(op[1]))
                elif t == "F":
                    out.append(m.name_function(op[1]))
                elif t == "I":
                    out.append(m[op[1]])
                elif t == "C":
                    m.clear_locals()
                    out.append(None)
                else:
                    raise ValueError(op)
        else:
            m = Ft()
            for op in ops:
                t = op[0]
                if t == "G":
                    out.append(m.name_global(op[1]))
                elif t == "L":
                    out.append(m.name_local(op[1]) if op[2] is None else m.name_local(op[1], prefix=op[2]))
                elif t == "F":
                    out.append(m.name_function(op[1]))
                elif t == "U":
                    out.append(m.make_unique_fortran_name(op[1]))
                elif t == "I":
                    out.append(m[op[1]])
                elif t == "R":
                    out.append(m.name_refcount(op[1], op[2]))
                else:
                    raise ValueError(op)
    except Exception as ex:  # noqa: BLE001 - the class is the observable
        return ("exc", type(ex).__name__, out)
    if not all(o is None or isinstance(o, str) for o in out):
        return ("exc", "NonStringResult", [])
    return ("ok", out)


# ------------------------------------------------------------------ oracle (independent of the model)

def persistent(k):
    return k in PERSISTENT_EXACT or k.startswith(PERSISTENT_TAGS)


def _identity(target, op):
    """(scope-independent identity of the thing named, kind) or None for ops that name nothing."""
    t = op[0]
    if t == "C":
        return None
    if t == "I":
        return ("G", op[1]) if persistent(op[1]) else ("L", op[1])
    if t == "R":                                      # Fortran reference count of a variable
        if persistent(op[1]):
            return ("RG", op[1])
        return ("L", "dagrt_refcnt_" + op[1])         # documented: the refcount of local x is the local dagrt_refcnt_x
    if t == "U":
        return None                                   # always fresh: handled separately
    if t == "L":
        return ("L", op[1])
    return (t, op[1])


def _bare(target, op, out):
    """Strip the storage qualifier; returns (storage, bare identifier)."""
    if target == "py":
        if out.startswith("self._functions."):
            return "function", out[len("self._functions."):]
        if out.startswith("self."):
            return "instance", out[len("self."):]
        return "local", out
    if out.startswith("dagrt_state%"):
        return "state", out[len("dagrt_state%"):]
    return "local", out


_PY_ID = re.compile(r"^[A-Za-z_][A-Za-z0-9_]*$")
_F_CHARS = re.compile(r"^[A-Za-z][A-Za-z0-9_]*$")


def oracle(case, result):
    """All property failures of one case: list of dicts {kind, ...} (empty = property holds on this input)."""
    target, ops = case
    if result[0] != "ok":
        return [{"kind": "exception", "exception": result[1], "at_op": len(result[2])}]
    outs = result[1]
    fails = []
    by_op = {}         # identical operation -> (index, output)
    by_ident = {}      # identity of the thing named -> (index, bare identifier)
    pool = {}          # comparison key of a bare identifier -> (index, identity)
    for i, (op, out) in enumerate(zip(ops, outs)):
        if op[0] == "C":                                  # clear_locals: a new function body begins
            by_op = {o: v for o, v in by_op.items() if _identity(target, o)[0] != "L"}
            by_ident = {x: v for x, v in by_ident.items() if x[0] != "L"}
            pool = {ck: v for ck, v in pool.items() if v[1][0] != "L"}
            continue
        ident = _identity(target, op)
        storage, bare = _bare(target, op, out)
        # stability: the same call again, or the same thing through another entry point
        if op[0] != "U":
            if op in by_op and by_op[op][1] != out:
                fails.append({"kind": "unstable", "ops": [by_op[op][0], i], "first": by_op[op][1], "again": out,
                              "key": _opkey(op)})
            by_op.setdefault(op, (i, out))
            if ident in by_ident and by_ident[ident][1] != bare:
                fails.append({"kind": "unstable", "ops": [by_ident[ident][0], i], "first": by_ident[ident][1],
                              "again": bare, "key": _opkey(op)})
        # distinctness under the target's comparison
        if not (ident is not None and ident in by_ident):
            who = ident if ident is not None else ("U", i)
            ck = _cmp_key(target, (storage, bare))
            if ck in pool:
                j = pool[ck][0]
                fails.append({"kind": "collision", "ops": [j, i], "identifiers": [outs[j], out],
                              "keys": [_opkey(ops[j]), _opkey(op)]})
            else:
                pool[ck] = (i, who)
            if ident is not None:
                by_ident[ident] = (i, bare)
        g = _legal(target, op, storage, bare)
        if g is not None:
            fails.append({"kind": "illegal", "op": i, "identifier": out, "why": g, "key": _opkey(op),
                          "space": op[0]})
        r = _reserved(target, op, storage, bare)
        if r is not None:
            fails.append({"kind": "reserved", "op": i, "identifier": out, "why": r, "key": _opkey(op)})
        s_ = _storage(target, op, storage)
        if s_ is not None:
            fails.append({"kind": "storage", "op": i, "identifier": out, "why": s_, "key": _opkey(op)})
    return fails


def _opkey(op):
    return op[1] if len(op) > 1 else None


def _cmp_key(target, sb):
    storage, bare = sb
    if target == "py":
        # distinct storage = distinct name space (local variable / attribute of self / of self._functions)
        return (storage, bare)
    # Fortran: case-insensitive; components of the state structure (dagrt_state%...) and plain identifiers
    # (locals, functions, reserved names) are two name spaces: `dagrt_refcnt_p_y` (refcount of the local p_y) and
    # `dagrt_state%dagrt_refcnt_p_Y` (refcount of <p>Y) are different identifiers also to a Fortran compiler
    return (storage == "state", bare.lower())


def _legal(target, op, storage, bare):
    if target == "py":
        if not _PY_ID.match(bare) or not bare.isidentifier():
            return "not a Python identifier"
        if keyword.iskeyword(bare):
            return "Python keyword"
        return None
    if op[0] == "G" and not persistent(op[1]):
        return None            # name_global is only reached with persistent names
    if not _F_CHARS.match(bare):
        return "not a Fortran name (letter first, then letters/digits/underscores)"
    if len(bare) > FORTRAN_MAX:
        return "longer than %d characters (%d)" % (FORTRAN_MAX, len(bare))
    return None


def _reserved(target, op, storage, bare):
    if target == "py":
        if storage == "instance":
            if op[0] in ("I", "G") and op[1] in PERSISTENT_EXACT:
                return None                      # <t>, <dt> ARE self.t, self.dt
            if bare in PY_SELF_RESERVED or bare in ("t", "dt") or bare.startswith(PY_SELF_RESERVED_PREFIXES):
                return "attribute used by the generated class"
        elif storage == "local":
            if bare in PY_LOCAL_RESERVED:
                return "name used by the generated method bodies"
        elif bare.startswith("__"):
            return "dunder attribute of the function container"
        return None
    if op[0] == "F":
        return None                              # Fortran function names are never emitted by the generator
    if op[0] == "R":
        return None                              # reference counts live in the generator's own name space
    if op[0] in ("I", "G") and op[1] in PERSISTENT_EXACT:
        return None                              # <t>, <dt> ARE dagrt_t, dagrt_dt
    low = bare.lower()
    if low.startswith(F_RESERVED_PREFIX):
        return "in the generator's own name space (dagrt_*)"
    if low in F_ENTRY:
        return "entry point of the generated module"
    return None


def _storage(target, op, storage):
    if op[0] != "I":
        return None
    want = persistent(op[1])
    got = storage in ("instance", "state")
    if want != got:
        return "persistent=%s but storage=%s" % (want, storage)
    return None


# ------------------------------------------------------------------ known findings (narrow matchers)

def classify(case, f):
    """Name of the known-finding class a failure belongs to, or None."""
    target, ops = case
    k = f["kind"]
    if target == "f" and k == "illegal" and f["why"].startswith("longer than") \
            and _F_CHARS.match(_bare("f", None, f["identifier"])[1]):
        return "fortran_identifier_too_long"
    if k == "illegal" and f["space"] == "F" and not f["key"].startswith("<func>"):
        bare = _bare(target, None, f["identifier"])[1]
        if bare[:1].isdigit() or (target == "py" and keyword.iskeyword(bare)):
            return "untagged_function_id"
        if target == "f" and len(bare) > FORTRAN_MAX:
            return "fortran_identifier_too_long"
    if target == "f" and k == "reserved" and f["key"].startswith("dagrt_") \
            and ops[f["op"]][0] in ("I", "L"):
        return "fortran_user_name_in_internal_namespace"
    if target == "f" and k == "collision":
        i, j = f["ops"]
        a, b = f["identifiers"]
        a, b = _bare("f", None, a)[1], _bare("f", None, b)[1]
        if a.lower() == b.lower() and a != b:
            return "fortran_case_only_collision"
    return None


def _fragment_findings():
    """Open C13 entries of known_findings.d/C13.json, used when known_findings.json has not been re-assembled
    (read-only; the committed list is never written by the check)."""
    path = os.path.join(common.VERIF, "known_findings.d", PID + ".json")
    if not os.path.exists(path):
        return []
    return [f for f in json.load(open(path)) if f.get("property") == PID and f.get("status") == "open"]


def finding_line(cls, findings):
    for kf in findings:
        if kf.get("class") == cls:
            return kf.get("what_fails") or kf.get("line") or cls
    return None


# ------------------------------------------------------------------ generation

def canonical(names):
    """Rename the punctuation characters in order of first occurrence (they are interchangeable for the code:
    none of them is an identifier character, and no tag can be spelt over the alphabet)."""
    m = {}
    out = []
    for n in names:
        s = ""
        for ch in n:
            if ch in JUNK:
                if ch not in m:
                    m[ch] = JUNK[len(m)]
                s += m[ch]
            else:
                s += ch
        out.append(s)
    return tuple(out)


def short_names(maxlen, alphabet=ALPHABET):
    out = [""]
    for n in range(1, maxlen + 1):
        out.extend("".join(t) for t in itertools.product(alphabet, repeat=n))
    return out


def tuples(names, k):
    """All ordered k-tuples of distinct names, one per class of `canonical`."""
    seen = set()
    for t in itertools.permutations(names, k):
        c = canonical(t)
        if c not in seen:
            seen.add(c)
            yield c


def seq_locals(target, ks):
    ops = [("I", k) for k in ks]
    return ops + ops


def seq_globals(target, ks, tag="<state>"):
    ops = [("I", tag + k) for k in ks]
    return ops + ops


def seq_functions(target, ks, tag=""):
    ops = [("F", tag + k) for k in ks]
    return ops + ops


FULL_GROUPS = True      # set by gen_cases: the quick tier uses the short group for tuples of two or more names


def seq_mixed(target, ks, rev=False, short=None):
    ops = []
    if short is None:
        short = (not FULL_GROUPS) and len(ks) > 1
    for k in ks:
        if short:
            grp = [("I", k), ("I", "<state>" + k), ("F", "<func>" + k)]
            if target == "f":
                grp += [("U", k), ("F", k)]
        else:
            grp = [("I", k), ("I", "<state>" + k), ("F", "<func>" + k), ("I", "<p>" + k)]
            if target == "f":
                grp += [("U", k), ("R", k, True), ("R", "<state>" + k, False)]
            else:
                grp += [("L", k), ("G", "<state>" + k)]
        if rev:
            grp.reverse()
        ops += grp
    return ops + ops


GENERATED_LOOKALIKES = ["y", "y_0", "y_1", "y_01", "y__0", "y_", "Y", "Y_0", "y_0_0", "_y", "0", "_0", "0_0",
                        "lploc_y", "lploc_y_0", "LPLOC_y", "drtf_y", "local", "localy", "self", "global_y",
                        "state_y", "p_y", "dagrt_var", "dagrt_var_0", "ret_state_y", "t", "dt", "id", "id_y", "if", "in", "None", "end", "run",
                        "<state>y", "<state>Y", "<state>y_0", "<p>y", "<p>Y", "<ret_state>y", "<ret_time>y",
                        "<ret_time_id>y", "<ret_time>id_y", "<t>", "<dt>", "dagrt_t", "dagrt_dt", "self.t", "<func>y", "<func>Y", "<func>y_0",
                        "<cond>y", "<builtin>y", "y^", "y*", "<state>y^", "<state>y*", "<p>y^", "<p>y*"]


QUICK_LOOKALIKES = ["y", "y_0", "y_1", "y_01", "y_", "Y", "Y_0", "_y", "0", "lploc_y", "LPLOC_y", "drtf_y", "localy",
                    "dagrt_var", "<state>y", "<state>Y", "<state>y_0", "<p>y", "<func>y", "<func>Y", "y^", "y*",
                    "<state>y^", "<state>y*", "if", "run", "t", "<t>", "dagrt_t", "dagrt_dt"]


def random_name(rng):
    kind = rng.random()
    letters = "abcxyzABCXYZ019__^*<>. -"
    if kind < 0.15:
        n = rng.randint(40, 90)
    elif kind < 0.3:
        n = rng.randint(10, 40)
    else:
        n = rng.randint(0, 8)
    body = "".join(rng.choice(letters) for _ in range(n))
    tag = rng.choice(["", "", "", "<state>", "<p>", "<func>", "<ret_state>", "<ret_time>", "<ret_time_id>",
                      "<cond>", "lploc_", "drtf_", "local", "state_"])
    if rng.random() < 0.15:
        body += "_" + str(rng.choice([0, 1, 2, 7, 10, 99, "00", "007", 12345678901234567890]))
    return tag + body


def random_case(rng, target):
    pool = [random_name(rng) for _ in range(rng.randint(1, 5))]
    if rng.random() < 0.5:
        pool += rng.sample(GENERATED_LOOKALIKES, 2)
    if rng.random() < 0.3 and pool:
        b = rng.choice(pool)
        pool.append(b.swapcase() if rng.random() < 0.5 else b + "_0")
    ops = []
    for _ in range(rng.randint(2, 14)):
        k = rng.choice(pool)
        r = rng.random()
        if target == "py":
            if r < 0.55:
                ops.append(("I", k))
            elif r < 0.7:
                ops.append(("F", k))
            elif r < 0.8:
                ops.append(("L", k))
            elif r < 0.9:
                ops.append(("G", k if persistent(k) else "<state>" + k))
            else:
                ops.append(("C",))
        else:
            if r < 0.5:
                ops.append(("I", k))
            elif r < 0.6:
                ops.append(("F", k))
            elif r < 0.7:
                ops.append(("U", k))
            elif r < 0.8:
                ops.append(("R", k, rng.random() < 0.5))
            elif r < 0.9:
                ops.append(("L", k, None if rng.random() < 0.6 else rng.choice(["lploc_", "tmp_"])))
            else:
                ops.append(("G", k if persistent(k) else "<state>" + k))
    return (target, ops)


def corpus():
    out = []
    d = os.path.join(common.VERIF, "corpus", PID)
    if os.path.isdir(d):
        for f in sorted(os.listdir(d)):
            if f.endswith(".json"):
                c = json.load(open(os.path.join(d, f)))
                out.append(_case_from_json(c["case"]))
    return out


def _case_from_json(c):
    return (c[0], [tuple(op) for op in c[1]])


def gen_cases(tier, seed):
    global FULL_GROUPS
    FULL_GROUPS = tier != "quick"
    cases = list(corpus())
    n_corpus = len(cases)
    n1 = short_names(3)
    n2 = short_names(2)
    small3 = short_names(3, "aA_0^")
    for target in ("py", "f"):
        for (k,) in tuples(n1, 1):
            cases.append((target, seq_mixed(target, (k,))))
            cases.append((target, seq_functions(target, (k,))))
        look = QUICK_LOOKALIKES if tier == "quick" else GENERATED_LOOKALIKES
        for ks in itertools.permutations(look, 2):                     # tags: no renaming of punctuation here
            half = [("I", k) for k in ks] + [("F", k) for k in ks]
            cases.append((target, half + half))
        pair_names = n2 if tier == "quick" else n1
        for ks in tuples(pair_names, 2):
            if tier == "quick" or len(ks[0]) + len(ks[1]) <= 4:
                cases.append((target, seq_locals(target, ks)))
            cases.append((target, seq_mixed(target, ks, rev=len(ks[0]) % 2 == 1,
                                            short=True if len(ks[0]) + len(ks[1]) == 6 else None)))
        if tier != "quick":
            for ks in tuples(n2, 2):
                cases.append((target, seq_mixed(target, ks, rev=len(ks[0]) % 2 == 0)))
                cases.append((target, seq_globals(target, ks)))
                cases.append((target, seq_functions(target, ks)))
        trip_names = short_names(1) + ["a_0", "a^", "a*"] if tier == "quick" else n2
        for ks in tuples(trip_names, 3):
            cases.append((target, seq_locals(target, ks)))
            if len(ks[0]) <= 1:
                cases.append((target, seq_mixed(target, ks, rev=len(ks[1]) % 2 == 1)))
        # length-3 names meet their look-alikes: (x, y) with y a generated-looking variant of x
        for x in small3:
            if len(x) == 3:
                for y in sorted({x.swapcase(), x + "_0", x[:-1] + "^", x[:-1] + "*", "_" + x, x + "_"} - {x}):
                    ks = canonical((x, y))
                    cases.append((target, seq_mixed(target, ks)))
    n_exh = len(cases) - n_corpus
    rng = random.Random(seed * 7919 + 13)
    nrand = 1600 if tier == "quick" else 25000
    for i in range(nrand):
        cases.append(random_case(rng, "py" if i % 2 else "f"))
    dist = {"corpus": n_corpus, "exhaustive": n_exh, "random": nrand,
            "exhaustive_scope": "per target: every name of length <= 3 over {a,A,_,0,<,>,^,*} alone (all name "
                                "spaces, looked up twice); all ordered pairs of names of length <= %d; all ordered "
                                "triples of names from %s; pairs of generated-looking names; length-3 names with "
                                "their case/punctuation/counter variants; tuples are taken up to renaming of the "
                                "punctuation characters <>^* (interchangeable for the code)"
                                % (2 if tier == "quick" else 3,
                                   "length <= 1 plus a_0, a^, a*" if tier == "quick"
                                   else "length <= 2")}
    return cases, dist


# ------------------------------------------------------------------ Coq terms

def coq_str(s):
    return '"' + s.replace('"', '""') + '"'


def representable(case):
    for op in case[1]:
        for x in op[1:]:
            if isinstance(x, str) and any(ord(ch) < 32 or ord(ch) > 126 for ch in x):
                return False
    return True


def op_to_coq(target, op):
    t = op[0]
    if target == "py":
        if t == "C":
            return "PClear"
        return "%s %s" % ({"G": "PGlobal", "L": "PLocal", "F": "PFunction", "I": "PGetItem"}[t], coq_str(op[1]))
    if t == "L":
        return "FLocal %s %s" % (coq_str(op[1]), "None" if op[2] is None else "(Some %s)" % coq_str(op[2]))
    if t == "R":
        return "FRefcount %s %s" % (coq_str(op[1]), "true" if op[2] else "false")
    return "%s %s" % ({"G": "FGlobal", "F": "FFunction", "U": "FUnique", "I": "FGetItem"}[t], coq_str(op[1]))


def case_term(case, res):
    target, ops = case
    outs = res[1] if res[0] == "ok" else None
    twice = "false"
    n = len(ops)
    if outs is not None and n >= 2 and n % 2 == 0 and ops[:n // 2] == ops[n // 2:] and outs[:n // 2] == outs[n // 2:]:
        ops, outs, twice = ops[:n // 2], outs[:n // 2], "true"       # the term is half as long; chk doubles it
    opl = "[" + "; ".join(op_to_coq(target, op) for op in ops) + "]"
    if target == "py":
        if outs is None:
            return "(P false %s [Some \"<exception>\"])" % opl                # never a model result
        return "(P %s %s [%s])" % (twice, opl, "; ".join("None" if o is None else "Some %s" % coq_str(o)
                                                          for o in outs))
    if outs is None:
        return "(F false %s [\"<exception>\"; \"<exception>\"])" % opl
    return "(F %s %s [%s])" % (twice, opl, "; ".join(coq_str(o) for o in outs))


HEADER = ("From Coq Require Import List String Bool.\nImport ListNotations.\nOpen Scope string_scope.\n"
          "From Dagrt Require Import GenC13 Names.\n"
          "Inductive tcase := P (twice : bool) (ops : list py_op) (outs : list (option string))\n"
          "  | F (twice : bool) (ops : list f_op) (outs : list string).\n"
          "Definition dbl {A} (b : bool) (l : list A) : list A := if b then l ++ l else l.\n"
          "Definition chk (c : tcase) : bool :=\n"
          "  match c with P b o r => chk_py (dbl b o, dbl b r) | F b o r => chk_f (dbl b o, dbl b r) end.\n")


def model_outputs(case):
    target, ops = case
    opl = "[" + "; ".join(op_to_coq(target, op) for op in ops) + "]"
    return common.eval_term(HEADER, ("py_outputs %s" if target == "py" else "f_outputs fortran_casefold %s") % opl)


# ------------------------------------------------------------------ shrinking

def size(case):
    return sum(1 + sum(len(x) for x in op[1:] if isinstance(x, str)) for op in case[1])


def shrink(case, fails):
    """Greedy: drop operations, then shorten keys (consistently across the case)."""
    target, ops = case
    changed = True
    while changed:
        changed = False
        for i in range(len(ops)):
            cand = (target, ops[:i] + ops[i + 1:])
            if fails(cand):
                ops = cand[1]
                changed = True
                break
        if changed:
            continue
        keys = sorted({x for op in ops for x in op[1:2] if isinstance(x, str)}, key=len, reverse=True)
        for k in keys:
            for j in range(len(k)):
                k2 = k[:j] + k[j + 1:]
                if k2 in keys:
                    continue
                ops2 = [((op[0], k2) + tuple(op[2:])) if len(op) > 1 and op[1] == k else op for op in ops]
                if fails((target, ops2)):
                    ops = ops2
                    changed = True
                    break
            if changed:
                break
    return (target, ops)


# ------------------------------------------------------------------ compiled artefacts

def compile_python(names_local, names_self, names_func):
    """One class whose method assigns every mapped name.  Returns error text or None."""
    lines = ["class C13Names:", "    class _function_symbol_container(object):", "        pass",
             "    def phase_primary(self):", "        self._functions = self._function_symbol_container()"]
    for n in names_self + names_func + names_local:
        lines.append("        %s = 0" % n)
    lines.append("        return [%s]" % ", ".join(names_self + names_func + names_local))
    src = "\n".join(lines) + "\n"
    try:
        ns = {}
        exec(compile(src, "<c13>", "exec"), ns)  # noqa: S102 - generated from identifiers only
        vals = ns["C13Names"]().phase_primary()
        if len(vals) != len(names_local) + len(names_self) + len(names_func):
            return "unexpected result"
    except Exception as ex:  # noqa: BLE001
        return "%s: %s" % (type(ex).__name__, ex)
    return None


def compile_fortran(components, locals_):
    """One module declaring every mapped name (state components / locals of a subroutine).  None = compiled."""
    if shutil.which("gfortran") is None:
        return "SKIP: gfortran not found"
    def wrap(items, lead):
        return "".join("%sreal (kind=8) %s\n" % (lead, n) for n in items)
    src = ("module c13names\n    type dagrt_state_type\n        integer dagrt_next_phase\n%s    end type\n"
           "    contains\n    subroutine dagrt_phase_func_primary(dagrt_state)\n        implicit none\n"
           "        integer dagrt_ierr\n        type(dagrt_state_type), pointer :: dagrt_state\n%s%s%s"
           "    end subroutine\nend module\n") % (
        wrap(components, "        "), wrap(locals_, "        "),
        "".join("        dagrt_state%%%s = 0\n" % n for n in components),
        "".join("        %s = 0\n" % n for n in locals_))
    d = tempfile.mkdtemp(prefix="c13_")
    try:
        path = os.path.join(d, "c13names.f90")
        with open(path, "w") as f:
            f.write(src)
        p = subprocess.run(["gfortran", "-c", "-ffree-line-length-none", "-fmax-identifier-length=63",
                            "-std=f2008", "-o", os.path.join(d, "c13names.o"), path],
                           capture_output=True, text=True, cwd=d, timeout=120)
        if p.returncode != 0:
            return (p.stdout + p.stderr)[-1500:]
        return None
    finally:
        shutil.rmtree(d, ignore_errors=True)


COMPILE_KEYS = ["y", "Y1", "y_1", "y_01", "y^", "y*", "_y", "0", "", "___", "lploc_y", "drtf_y", "local", "self",
                "<state>y", "<state>y^", "<state>y*", "<state>y_0", "<state>", "<p>y", "<p>0", "<ret_state>y",
                "<ret_time>y", "<ret_time_id>y", "<ret_time>id_y", "<t>", "<dt>", "if", "end", "real", "x" * 50]


def compiled_artefacts(rng):
    """Map one key set through the real managers and compile declarations of the results.
    Returns list of (what, error) for artefacts that did not compile."""
    Py, Ft = _mods()
    keys = list(COMPILE_KEYS) + [k for k in (random_name(rng) for _ in range(60)) if len(k) < 50
                                 and not k.startswith("dagrt_")]
    keys = list(dict.fromkeys(keys))
    # keep keys whose Fortran identifiers are pairwise distinct when case is ignored, so that a compile failure
    # means something the string-level oracle did not see (the collision itself is the oracle's business)
    bad = []
    m = Py()
    loc, slf, fun = [], [], []
    for k in keys:
        o = m[k]
        (slf if o.startswith("self.") else loc).append(o)
    for k in keys:
        if k.startswith("<func>") or _PY_ID.match(k) and not keyword.iskeyword(k):
            fun.append(m.name_function(k if k.startswith("<func>") else "<func>" + k))
    err = compile_python(loc, slf, fun)
    if err:
        bad.append(("python class", err, keys))
    fm = Ft()
    comps, locs, seenl = [], [], set()
    kept = []
    for k in keys:
        o = fm[k]
        bare = o.split("%")[-1]
        if bare.lower() in seenl:
            continue
        seenl.add(bare.lower())
        kept.append(k)
        (comps if "%" in o else locs).append(bare)
    for k in kept[:10]:
        o = fm.make_unique_fortran_name(k)
        if o.lower() not in seenl and _F_CHARS.match(o):
            seenl.add(o.lower())
            locs.append(o)
    err = compile_fortran(comps, locs)
    skipped = bool(err and err.startswith("SKIP"))
    if err and not skipped:
        bad.append(("fortran module", err, kept))
    return bad, {"python_names": len(loc) + len(slf) + len(fun), "fortran_names": len(comps) + len(locs),
                 "gfortran": not skipped}


# ------------------------------------------------------------------ the check

def main(tier):
    rep = common.Reporter(PID, tier)
    seed = common.seed()
    t0 = time.time()
    ps = common.proof_stage(rep, PID, gen=["c13"])
    t_proof = time.time() - t0
    known = common.known_findings(PID) or _fragment_findings()

    cases, dist = gen_cases(tier, seed)
    results = [run_impl(c) for c in cases]

    # implementation-level oracle on every case
    failing = {}      # (class or kind) -> smallest (case, failure)
    n_fail = 0
    for c, r in zip(cases, results):
        for f in oracle(c, r):
            n_fail += 1
            cls = classify(c, f)
            key = (c[0], cls or f["kind"] + ":" + f.get("why", "")[:24])
            if key not in failing or size(c) < size(failing[key][0]):
                failing[key] = (c, f, cls)
    for key, (c, f, cls) in sorted(failing.items(), key=lambda kv: str(kv[0])):
        kind = f["kind"]

        def still(cand, kind=kind, cls=cls):
            return any(g["kind"] == kind and classify(cand, g) == cls for g in oracle(cand, run_impl(cand)))
        c2 = shrink(c, still)
        r2 = run_impl(c2)
        f2 = [g for g in oracle(c2, r2) if g["kind"] == kind and classify(c2, g) == cls][0]
        line = finding_line(cls, known) if cls else None
        if line:
            rep.known_finding(line)
            continue
        rep.violation({"what": "name mapping violates C13 (%s)" % kind, "class": cls,
                       "case": [c2[0], [list(op) for op in c2[1]]], "impl_outputs": r2[1] if r2[0] == "ok" else r2,
                       "oracle": f2,
                       "replay": "PYTHONPATH=/repo /venv/bin/python -m harness.main C13 --replay <this file>"})

    t_impl = time.time() - t0 - t_proof
    # compiled artefacts (second, independent legality / distinctness check)
    bad_art, art_cov = compiled_artefacts(random.Random(seed * 31 + 5))
    for what, err, keys in bad_art:
        rep.violation({"what": "generated %s declaring the mapped names does not compile" % what,
                       "compiler_output": err, "keys": keys})

    # correspondence with the Coq model
    mism, n_eval, errors = [], 0, []
    idx = [i for i, c in enumerate(cases) if representable(c)]
    if os.path.exists(os.path.join(common.COQ, "model", "Names.vo")) and os.path.exists(
            os.path.join(common.COQ, "gen", "GenC13.vo")):
        terms = [case_term(cases[i], results[i]) for i in idx]
        mism, n_eval, errors = common.eval_cases(PID, HEADER, terms, "chk",
                                                 shard=min(700, max(300, len(terms) // 48 + 1)))
        mism = [idx[i] for i in mism]
    else:
        errors = ["model not built"]

    t_coq = time.time() - t0 - t_proof - t_impl
    tie_broken = bool(mism or errors)
    if (not ps["ok"] or tie_broken) and not rep.violations:
        detail = {"what": "proof obligation or model/implementation correspondence no longer checks; "
                          "no failing input found by the implementation-level oracle",
                  "proof_stage": ps, "coq_errors": errors[:3]}
        if mism:
            i = min(mism, key=lambda j: size(cases[j]))
            detail["first_disagreeing_case"] = {"case": [cases[i][0], [list(op) for op in cases[i][1]]],
                                                "impl_result": results[i], "model_result": model_outputs(cases[i])}
            detail["n_disagreements"] = len(mism)
        detail["broken"] = ("theorem file %s" % ps.get("theorem")) if not ps["ok"] else \
            "correspondence PythonNameManager/FortranNameManager ~ Dagrt.Names.py_run/f_run"
        rep.violation(detail, no_input=True)
    elif not ps["ok"] or tie_broken:
        rep.coverage["broken_obligation"] = ps if not ps["ok"] else {"disagreements": len(mism)}

    def nontrivial(c, r):
        # the generator had to do something beyond prefix + sanitised key: a counter was appended or parsed
        if r[0] != "ok":
            return True
        return any(o is not None and re.search(r"_\d+$", o) for o in r[1])
    distinct = len({json.dumps(c) for c, r in zip(cases, results) if nontrivial(c, r)})
    rep.coverage.update(
        evaluations=len(cases), distinct_nontrivial=distinct,
        rule="cases = corpus + exhaustive short-name tuples + random long names; one case = one fresh manager and a "
             "sequence of lookups (each key looked up at least twice); non-trivial = some identifier needed a "
             "counter suffix (collision after sanitising, or a key that itself ends in _<digits>); distinct by "
             "(target, operation sequence)",
        lookups=sum(len(c[1]) for c in cases),
        oracle_failures=n_fail,
        traces_validated_against_impl=n_eval, model_impl_disagreements=len(mism),
        input_distribution=dist, compiled_artefacts=art_cov,
        wall_split_s={"proof_stage": round(t_proof, 1), "implementation_and_oracle": round(t_impl, 1),
                      "artefacts_and_coq_correspondence": round(t_coq, 1)},
        samples=[{"case": [cases[i][0], [list(op) for op in cases[i][1]]], "impl": results[i]} for i in
                 (0, len(cases) // 2, len(cases) - 1)],
        exhaustive=False,
    )
    rep.assumptions = ["names are strings of code points; the correspondence runs on printable ASCII names "
                       "(other code points behave like any non-identifier character: replaced by '_')",
                       "name_global is called with persistent names only (as the generators do)",
                       "pytools.UniqueNameGenerator as pinned in /venv (source shape checked by the translator)"]
    return rep.finish("proof")


def replay(path):
    r = json.load(open(path))
    c = r.get("case") or (r.get("first_disagreeing_case") or {}).get("case")
    if c is None:
        print("replay names a broken obligation or artefact, no input: %s" % (r.get("broken") or r.get("what")))
        return 1
    case = _case_from_json(c)
    res = run_impl(case)
    fails = oracle(case, res)
    print(json.dumps({"case": c, "impl_result": res, "oracle": fails,
                      "classes": [classify(case, f) for f in fails]}, indent=1))
    return 1 if fails else 0
