"""Fortran build/run helper (owned by C03, reusable by C12/C15).

generate()      runs the real dagrt.codegen.fortran.CodeGenerator on a DAGCode and records, without
                changing what is emitted, the table of global symbols (IR name -> Fortran component
                name, kind) that the driver needs.
make_driver()   writes a main program that initialises the state, calls `run` n times and after each
                call prints every persistent variable, every <ret_*> slot and dagrt_next_phase,
                one value per line, in a format parse_output() reads back.
build_and_run() gfortran -g in a scratch directory (tempfile.mkdtemp, outside /repo and /verif,
                removed afterwards); compiler exit status / stderr and program exit status / stderr
                are part of the result.
Values are integer-valued doubles: parse_output returns Python ints (a non-integral or non-finite
number is returned as the string the program printed, so that it can never compare equal).
"""
import os
import shutil
import subprocess
import tempfile

FC = os.environ.get("FC", "gfortran")

# user functions available to generated programs: name -> spec
#   py: the Python implementation handed to the interpreter (numpy arrays for user types)
#   args / results: names; kind: "scalar" (register_function, real scalars) or "ode" (register_ode_rhs)
#   template: CallCode (Mako) template
USER_FUNCS = {
    "<func>sq": dict(kind="scalar", args=("x", "y"), defaults={"y": 1}, results=("result",),
                     template="\n${result} = ${x}*${x} + ${y}\n",
                     py=lambda x, y=1: x * x + y),
    "<func>two": dict(kind="scalar", args=("x",), defaults={}, results=("r1", "r2"),
                      template="\n${r1} = ${x} + 1\n${r2} = 2*${x}\n",
                      py=lambda x: (x + 1, 2 * x)),
    "<func>rhs": dict(kind="ode", utype="y", template="\n${result} = 2*${y} + ${t}\n",
                      py=lambda t, y: 2 * y + t),
    # right-hand sides of two more components, of other user types (other extents)
    "<func>rhsz": dict(kind="ode", utype="z", template="\n${result} = 3*${z} - ${t}\n",
                       py=lambda t, z: 3 * z - t),
    "<func>rhsw": dict(kind="ode", utype="w", template="\n${result} = ${t} - ${w}\n",
                       py=lambda t, w: t - w),
}

# the user types of generated programs: one-dimensional real*8 arrays of different extents
UTYPE_SIZES = {"y": 3, "z": 5, "w": 2}


def fmt_float(x):
    """canonical text of a finite non-integral number (both sides of a comparison use it)"""
    return "f:%.9e" % x


def registry(names):
    """function registry with the user functions in `names` registered for Fortran"""
    import dagrt.codegen.fortran as f
    from dagrt.data import Scalar
    from dagrt.function_registry import base_function_registry, register_function, register_ode_rhs
    freg = base_function_registry
    for n in sorted(names):
        spec = USER_FUNCS[n]
        if spec["kind"] == "ode":
            freg = register_ode_rhs(freg, spec["utype"], identifier=n, input_names=(spec["utype"],))
        else:
            freg = register_function(freg, n, spec["args"], default_dict=dict(spec["defaults"]),
                                     result_names=spec["results"],
                                     result_kinds=tuple(Scalar(is_real_valued=True) for _ in spec["results"]))
        freg = freg.register_codegen(n, "fortran", f.CallCode(spec["template"]))
    return freg


def python_functions(names):
    return {n: USER_FUNCS[n]["py"] for n in names}


def generate(code, module, utype_sizes, func_names):
    """Run the real generator.  Returns dict(text=..., symbols=[(ir_name, fortran_name, kind, arg)], phases,
    time_ids) or dict(error=ExceptionClassName, message=...)."""
    import dagrt.codegen.fortran as f
    from dagrt.data import Array, Boolean, Integer, Scalar, UserType

    captured = {}

    class Gen(f.CodeGenerator):
        def finish_emit(self, dag):            # the table is deleted at the end of __call__
            captured["global"] = dict(self.sym_kind_table.global_table)
            super().finish_emit(dag)

    try:
        gen = Gen(module, user_type_map={k: f.ArrayType((n,), f.BuiltinType("real*8"))
                                         for k, n in utype_sizes.items()},
                  function_registry=registry(func_names))
        text = gen(code)
    except Exception as ex:  # noqa: BLE001 - the class is part of the observable
        return {"error": type(ex).__name__, "message": str(ex)[:300]}

    def kind_name(k):
        if isinstance(k, Boolean):
            return "bool"
        if isinstance(k, Integer):
            return "int"
        if isinstance(k, Scalar):
            return "scalar"
        if isinstance(k, Array):
            return "array"
        if isinstance(k, UserType):
            return "utype:" + k.identifier
        return "unknown:" + type(k).__name__

    symbols = []
    for ident, kind in sorted(captured["global"].items()):
        symbols.append((ident, gen.name_manager.name_global(ident), kind_name(kind)))
    from dagrt.codegen.analysis import collect_time_ids_from_dag
    return {"text": text, "symbols": symbols, "phases": sorted(code.phases),
            "time_ids": sorted(collect_time_ids_from_dag(code))}


def _lit(v):
    return "%d.0d0" % v if v >= 0 else "(%d.0d0)" % v


def make_driver(module, gen, init, nsteps, utype_sizes):
    """init: IR name -> int | bool | list of ints (user type).  Every non-<ret> scalar / user-type global is
    initialised through `initialize` when a value is given."""
    L = []
    a = L.append
    a("program drv")
    a("  use %s" % module)
    a("  implicit none")
    a("  type(dagrt_state_type), target :: st")
    a("  type(dagrt_state_type), pointer :: sp")
    a("  integer k, j")
    args = ["dagrt_state=sp"]
    for ident, fname, kind in gen["symbols"]:
        if ident.startswith("<ret") or ident not in init:
            continue
        v = init[ident]
        if kind.startswith("utype:"):
            a("  real*8, dimension(%d) :: in_%s" % (len(v), fname))
            args.append("%s=in_%s" % (fname, fname))
        elif kind == "scalar":
            args.append("%s=%s" % (fname, _lit(v)))
        elif kind == "int":
            args.append("%s=%d" % (fname, v))
        elif kind == "bool":
            args.append("%s=%s" % (fname, ".true." if v else ".false."))
    a("  sp => st")
    for ident, fname, kind in gen["symbols"]:
        if kind.startswith("utype:") and ident in init and not ident.startswith("<ret"):
            for i, z in enumerate(init[ident]):
                a("  in_%s(%d) = %s" % (fname, i + 1, _lit(z)))
    a("  call initialize(&")
    for i, x in enumerate(args):
        a("    %s%s" % (x, ", &" if i + 1 < len(args) else ")"))
    a("  do k = 1, %d" % nsteps)
    a("    call run(dagrt_state=sp)")
    a("    write(*,'(A,1X,I0)') 'STEP', k")
    for ident, fname, kind in gen["symbols"]:
        tag = fname
        if kind == "scalar":
            a("    write(*,'(A,1X,A,1X,ES25.17E3)') 'S', '%s', sp%%%s" % (tag, fname))
        elif kind == "bool":
            a("    write(*,'(A,1X,A,1X,L1)') 'B', '%s', sp%%%s" % (tag, fname))
        elif kind == "int":
            a("    write(*,'(A,1X,A,1X,I0)') 'I', '%s', sp%%%s" % (tag, fname))
        elif kind == "array":
            a("    if (allocated(sp%%%s)) then" % fname)
            a("      write(*,'(A,1X,A,1X,I0,1X,I0)') 'A', '%s', size(sp%%%s), lbound(sp%%%s, 1)" % (tag, fname, fname))
            a("      do j = lbound(sp%%%s, 1), ubound(sp%%%s, 1)" % (fname, fname))
            a("        write(*,'(A,1X,ES25.17E3)') 'E', sp%%%s(j)" % fname)
            a("      end do")
            a("    else")
            a("      write(*,'(A,1X,A)') 'N', '%s'" % tag)
            a("    end if")
        elif kind.startswith("utype:"):
            a("    if (associated(sp%%%s)) then" % fname)
            a("      write(*,'(A,1X,A,1X,I0,1X,I0)') 'A', '%s', size(sp%%%s), 0" % (tag, fname))
            a("      do j = lbound(sp%%%s, 1), ubound(sp%%%s, 1)" % (fname, fname))
            a("        write(*,'(A,1X,ES25.17E3)') 'E', sp%%%s(j)" % fname)
            a("      end do")
            a("    else")
            a("      write(*,'(A,1X,A)') 'N', '%s'" % tag)
            a("    end if")
        else:
            a("    write(*,'(A,1X,A)') 'X', '%s'" % tag)
    a("    write(*,'(A,1X,I0)') 'PHASE', sp%dagrt_next_phase")
    a("  end do")
    a("  call shutdown(dagrt_state=sp)")
    a("  write(*,'(A)') 'DONE'")
    a("end program")
    return "\n".join(L) + "\n"


def build_and_run(sources, options=("-g",), timeout=120, keep=False, libs=()):
    """sources: [(filename, text)], module first.  Returns dict with compile_rc, compile_stderr, run_rc,
    stdout, stderr ('run_rc' is None when compilation failed)."""
    tmp = tempfile.mkdtemp(prefix="c03_")
    try:
        for name, text in sources:
            with open(os.path.join(tmp, name), "w") as fh:
                fh.write(text)
        try:
            p = subprocess.run([FC] + list(options) + ["-o", "runtest"] + [n for n, _ in sources] + list(libs),
                               cwd=tmp, capture_output=True, text=True, timeout=timeout)
        except subprocess.TimeoutExpired:
            return {"compile_rc": 124, "compile_stderr": "TIMEOUT", "run_rc": None, "stdout": "", "stderr": ""}
        res = {"compile_rc": p.returncode, "compile_stderr": p.stderr[:8000], "run_rc": None,
               "stdout": "", "stderr": ""}
        if p.returncode != 0:
            return res
        try:
            q = subprocess.run([os.path.join(tmp, "runtest")], cwd=tmp, capture_output=True, text=True,
                               timeout=timeout)
            res.update(run_rc=q.returncode, stdout=q.stdout, stderr=q.stderr[-3000:])
        except subprocess.TimeoutExpired:
            res.update(run_rc=124, stderr="TIMEOUT")
        return res
    finally:
        if not keep:
            shutil.rmtree(tmp, ignore_errors=True)


def _num(tok):
    try:
        x = float(tok)
    except ValueError:
        return tok
    if x != x or x in (float("inf"), float("-inf")) or abs(x) >= 2 ** 53:
        return tok.strip()
    if x != int(x):
        return fmt_float(x)
    return int(x)


def parse_output(stdout, gen):
    """-> (steps, done) where steps is a list of dicts: IR name -> int | bool | [ints] | None (not allocated /
    not associated) | str (NaN, non-integral ...), plus key 'next_phase' -> phase name."""
    back = {fname: ident for ident, fname, _ in gen["symbols"]}
    steps, cur, arr, done = [], None, None, False
    for line in stdout.splitlines():
        t = line.split()
        if not t:
            continue
        if t[0] == "STEP":
            cur = {}
            steps.append(cur)
        elif t[0] == "DONE":
            done = True
        elif cur is None:
            continue
        elif t[0] == "S":
            cur[back[t[1]]] = _num(t[2])
        elif t[0] == "I":
            cur[back[t[1]]] = int(t[2])
        elif t[0] == "B":
            cur[back[t[1]]] = t[2] == "T"
        elif t[0] == "A":
            arr = []
            cur[back[t[1]]] = arr
            if t[3] != "0" and int(t[2]) > 0:
                cur[back[t[1]]] = "lbound=%s" % t[3]
                arr = []
        elif t[0] == "E":
            arr.append(_num(t[1]))
        elif t[0] == "N":
            cur[back[t[1]]] = None
        elif t[0] == "X":
            cur[back[t[1]]] = "unprintable"
        elif t[0] == "PHASE":
            i = int(t[1])
            cur["next_phase"] = gen["phases"][i] if 0 <= i < len(gen["phases"]) else "invalid:%d" % i
    return steps, done
