"""Facts and shape switches for C10 (dagrt/codegen/analysis.py verify_code) -> coq/gen/GenC10.v

Extracted (fail-closed, exact shapes):
* verify_ids_per_phase   -- where verify_all_dependencies_exist builds `ids`:
                            one set over all phases before the loops (false, the code as
                            found: cross-phase dependencies pass) or a set rebuilt from
                            `phase.statements` inside each loop over the phases (true);
* verify_cond_writer_limit -- the literal in `len(insts) > <n>`;
* the order of the four passes and the swallow-only-if-errors except clause of
  verify_code, and the "<cond>" prefix literal (checked, not emitted: the model has
  them built in, any other shape is refused).
"""
import ast

from harness.tr import HEADER, ShapeError, _find_def, _parse, _src, coq_bool

REL = "dagrt/codegen/analysis.py"

IDS_GLOBAL = "ids = {inst.id for phase in phases.values() for inst in phase.statements}"
IDS_LOCAL = "ids = {inst.id for inst in phase.statements}"

VERIFY_CODE_BODY = [
    "errors = []",
    "try:\n"
    "    verify_all_dependencies_exist(code.phases, errors)\n"
    "    for phase in code.phases.values():\n"
    "        verify_no_circular_dependencies(phase.statements, errors)\n"
    "    verify_switch_phases(code.phases, errors)\n"
    "    for phase in code.phases.values():\n"
    "        verify_single_definition_cond_rule(phase.statements, errors)\n"
    "except Exception as e:\n"
    "    if len(errors) == 0:\n"
    "        raise e",
    "if errors:\n    raise CodeGenerationError(errors)",
]


def _body(fn):
    """Statements of a function without its docstring."""
    body = list(fn.body)
    if body and isinstance(body[0], ast.Expr) and isinstance(body[0].value, ast.Constant) \
            and isinstance(body[0].value.value, str):
        body = body[1:]
    return body


def ids_shape(tree):
    fn = _find_def(tree, "verify_all_dependencies_exist")
    body = _body(fn)
    top_assigns = [_src(s) for s in body if isinstance(s, ast.Assign)]
    loops = [s for s in body if isinstance(s, ast.For)]
    if len(loops) != 2:
        raise ShapeError("verify_all_dependencies_exist: expected two loops over the phases")
    if _src(loops[0].iter) != "phases.values()" or _src(loops[1].iter) != "phases.items()":
        raise ShapeError("verify_all_dependencies_exist: unexpected loop headers")
    inner = [[_src(s) for s in lp.body if isinstance(s, ast.Assign) and _src(s).startswith("ids")]
             for lp in loops]
    for lp in loops:
        for n in ast.walk(lp):
            if isinstance(n, ast.Compare) and "ids" in _src(n) and _src(n) != "deps <= ids":
                raise ShapeError("verify_all_dependencies_exist: unexpected test %r" % _src(n))
    if top_assigns == [IDS_GLOBAL] and inner == [[], []]:
        return False
    if top_assigns == [] and inner == [[IDS_LOCAL], [IDS_LOCAL]]:
        # the assignment must precede the use inside each loop
        for lp in loops:
            if _src(lp.body[0]) != IDS_LOCAL:
                raise ShapeError("verify_all_dependencies_exist: `ids` must be built first in the loop body")
        return True
    raise ShapeError("verify_all_dependencies_exist: unrecognised construction of `ids`: %r / %r"
                     % (top_assigns, inner))


def cond_limit(tree):
    fn = _find_def(tree, "verify_single_definition_cond_rule")
    cmps = [n for n in ast.walk(fn) if isinstance(n, ast.Compare) and _src(n.left) == "len(insts)"]
    if len(cmps) != 1 or len(cmps[0].ops) != 1 or not isinstance(cmps[0].ops[0], ast.Gt) \
            or not isinstance(cmps[0].comparators[0], ast.Constant) \
            or not isinstance(cmps[0].comparators[0].value, int):
        raise ShapeError("verify_single_definition_cond_rule: expected one test `len(insts) > <int>`")
    prefixes = [_src(n) for n in ast.walk(fn) if isinstance(n, ast.Call)
                and isinstance(n.func, ast.Attribute) and n.func.attr == "startswith"]
    if prefixes != ["varname.startswith('<cond>')"]:
        raise ShapeError("verify_single_definition_cond_rule: expected varname.startswith('<cond>'), got %r"
                         % prefixes)
    return cmps[0].comparators[0].value


def check_verify_code(tree):
    fn = _find_def(tree, "verify_code")
    got = [_src(s) for s in _body(fn)]
    if got != VERIFY_CODE_BODY:
        raise ShapeError("verify_code: pass order / except clause differ from the modelled shape: %r" % got)


def generate(repo):
    tree = _parse(repo, REL)
    check_verify_code(tree)
    out = [HEADER % "c10"]
    out.append("(* dagrt/codegen/analysis.py verify_all_dependencies_exist: is `ids` rebuilt per phase? *)")
    out.append("Definition verify_ids_per_phase : bool := %s." % coq_bool(ids_shape(tree)))
    out.append("(* dagrt/codegen/analysis.py verify_single_definition_cond_rule: len(insts) > <limit> *)")
    out.append("Definition verify_cond_writer_limit : nat := %d." % cond_limit(tree))
    return "\n".join(out) + "\n"
