"""Source shapes for C04 -> coq/gen/GenC04.v

coq/model/Controller.v mirrors a handful of short functions line by line.  The correspondence check
can only exercise phases of the generated sizes, so this translator additionally pins the exact shape
of those functions (docstrings, comments and logger.debug calls ignored): any other shape raises
ShapeError, i.e. the tie is reported broken and the oracle searches for a failing input.
"""
import ast

from harness.tr import HEADER, ShapeError, _find_class, _find_def, _parse

EXPECTED = {
    ("dagrt/language.py", "ExecutionPhase", "depends_on"): '''\
result = {stmt.id for stmt in self.statements}
for stmt in self.statements:
    result -= set(stmt.depends_on)
return result''',
    ("dagrt/language.py", "ExecutionPhase", "id_to_stmt"): '''\
return {stmt.id: stmt for stmt in self.statements}''',
    ("dagrt/language.py", "ExecutionController", "__init__"): '''\
self.code = code
self.plan = []
self.executed_ids = set()
self.plan_id_set = set()''',
    ("dagrt/language.py", "ExecutionController", "reset"): '''\
del self.plan[:]
self.plan_id_set.clear()
self.executed_ids.clear()''',
    ("dagrt/language.py", "ExecutionController", "update_plan"): '''\
early_plan = []
id_to_stmt = phase.id_to_stmt

def add_with_deps(stmt):
    stmt_id = stmt.id
    if stmt_id in self.executed_ids:
        return
    if stmt_id in self.plan_id_set:
        return
    if stmt_id in early_plan:
        return
    for dep_id in stmt.depends_on:
        add_with_deps(id_to_stmt[dep_id])
    assert stmt_id not in self.plan_id_set
    early_plan.append(stmt_id)
for stmt_id in execute_ids:
    add_with_deps(id_to_stmt[stmt_id])
self.plan = early_plan + self.plan
self.plan_id_set.update(early_plan)''',
    ("dagrt/language.py", "ExecutionController", "__call__"): '''\
id_to_stmt = phase.id_to_stmt
while self.plan:
    stmt_id = self.plan.pop(0)
    self.plan_id_set.remove(stmt_id)
    self.executed_ids.add(stmt_id)
    stmt = id_to_stmt[stmt_id]
    if not target.evaluate_condition(stmt):
        continue
    result = getattr(target, stmt.exec_method)(stmt)
    if result is not None:
        event, new_deps = result
        if event is not None:
            yield event
        if new_deps is not None:
            self.update_plan(phase, new_deps)''',
}

# NumpyInterpreter.run_single_step: only the try-body matters (the finally clause cleans the context)
EXPECTED_STEP = '''\
self.exec_controller.reset()
cur_state = self.code.phases[self.next_phase]
self.next_phase = cur_state.next_phase
self.exec_controller.update_plan(cur_state, cur_state.depends_on)
yield from self.exec_controller(cur_state, self)'''


def _is_noise(st):
    if isinstance(st, ast.Expr):
        v = st.value
        if isinstance(v, ast.Constant) and isinstance(v.value, str):
            return True                                   # docstring
        if isinstance(v, ast.Call) and isinstance(v.func, ast.Attribute) and v.func.attr == "debug" \
                and isinstance(v.func.value, ast.Name) and v.func.value.id == "logger":
            return True                                   # logger.debug(...)
    return False


class _Strip(ast.NodeTransformer):
    def generic_visit(self, node):
        node = super().generic_visit(node)
        for field in ("body", "orelse", "finalbody"):
            b = getattr(node, field, None)
            if isinstance(b, list) and b and isinstance(b[0], ast.stmt):
                nb = [s for s in b if not _is_noise(s)]
                setattr(node, field, nb or ([ast.Pass()] if field == "body" else []))
        return node


def _body_text(stmts):
    mod = ast.Module(body=list(stmts), type_ignores=[])
    mod = _Strip().visit(mod)
    return ast.unparse(ast.fix_missing_locations(mod)).strip()


def shapes(repo):
    trees = {}
    for (rel, cls, fn), want in EXPECTED.items():
        tree = trees.setdefault(rel, _parse(repo, rel))
        d = _find_def(_find_class(tree, cls), fn)
        got = _body_text(d.body)
        if got != want.strip():
            raise ShapeError("%s %s.%s: source shape differs from the one modelled in Controller.v:\n%s"
                             % (rel, cls, fn, got))
    tree = _parse(repo, "dagrt/exec_numpy.py")
    d = _find_def(_find_class(tree, "NumpyInterpreter"), "run_single_step")
    body = [s for s in d.body if not _is_noise(s)]
    if len(body) != 1 or not isinstance(body[0], ast.Try) or body[0].handlers or body[0].orelse:
        raise ShapeError("exec_numpy.py NumpyInterpreter.run_single_step: expected a single try/finally")
    got = _body_text(body[0].body)
    if got != EXPECTED_STEP.strip():
        raise ShapeError("exec_numpy.py NumpyInterpreter.run_single_step: try-body differs from "
                         "reset / update_plan(phase, phase.depends_on) / yield from controller:\n%s" % got)
    # the finally clause must not touch the controller
    for n in ast.walk(ast.Module(body=body[0].finalbody, type_ignores=[])):
        if isinstance(n, ast.Attribute) and n.attr == "exec_controller":
            raise ShapeError("exec_numpy.py run_single_step: finally clause touches the controller")
    return len(EXPECTED) + 1


def generate(repo):
    n = shapes(repo)
    out = [HEADER % "c04"]
    out.append("(* dagrt/language.py ExecutionPhase.depends_on/id_to_stmt, ExecutionController.__init__/reset/"
               "update_plan/__call__,\n   dagrt/exec_numpy.py NumpyInterpreter.run_single_step have exactly the "
               "shapes mirrored by model/Controller.v *)")
    out.append("Definition controller_shapes_checked : nat := %d." % n)
    out.append("Definition controller_source_shape_ok : bool := true.")
    return "\n".join(out) + "\n"
