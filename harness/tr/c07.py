"""Shape facts for C07 -> coq/gen/GenC07.v

The Coq model coq/model/Transform.v mirrors dagrt/codegen/transform.py line by line, together with
map_expressions of the statement classes (dagrt/language.py), the tree classes / ASTIdentityMapper /
get_statements_in_ast (dagrt/codegen/dag_ast.py) and pytools.UniqueNameGenerator.  Every function and
method it mirrors is compared, as ast.unparse text without docstrings, with the recorded expected
text (harness/tr/_c07_shapes.py); anything else is a ShapeError (fail-closed).  Three defects have two
recognised shapes each, selected by a boolean the model takes as a parameter:

  c07_sd_sorted       = true <-> SelfDependencyEliminator: `for var_name in sorted(read_and_written)`
                                 (C15's repair, /repo b086eee) instead of iterating the frozenset

  c07_seed_node_vars  = true <-> get_var_name_generator(statements, phase_ast) also adds
                                 get_node_variables(phase_ast)        (fixes/C07_seed_node_names.patch)
  c07_fci_passes_cond = true <-> isolate_call: super_method(expr, base_condition, base_deps, sub_extra_deps)
                                                                      (fixes/C07_isolate_call_arity.patch)
  c07_ite_flag_first  = true <-> map_if appends the flag assignment before recursing into the branches
                                                                      (fixes/C07_ifthenelse_flag_first.patch)

plus the order in which dagrt/codegen/fortran.py process_ast applies the passes.
"""
import ast
import fnmatch

from harness.tr import HEADER, ShapeError, _parse, coq_bool, coq_string_list

# file -> unit selectors (None = every function / method of the module)
FILES = {
    "dagrt/codegen/transform.py": None,
    "dagrt/language.py": [
        "StatementBase.__init__", "StatementBase.map_expressions", "StatementBase.get_dependency_mapper",
        "ConditionalStatementBase.__init__", "ConditionalStatementBase.get_read_variables",
        "AssignBase.__init__", "AssignBase.get_written_variables", "AssignBase.map_expressions",
        "ConditionalAssignment.map_expressions", "Statement.get_dependency_mapper",
        "Assign.__init__", "Assign.map_expressions", "Assign.assignee", "Assign.assignee_subscript",
        "AssignFunctionCall.__init__", "AssignFunctionCall.get_written_variables",
        "AssignFunctionCall.get_read_variables", "AssignFunctionCall.as_expression",
        "AssignFunctionCall.map_expressions",
        "YieldState.get_written_variables", "YieldState.get_read_variables", "YieldState.map_expressions",
        "<classes defining map_expressions>",
    ],
    "dagrt/codegen/dag_ast.py": [
        "IfThen.*", "IfThenElse.*", "ForLoop.*", "Block.*", "NullASTNode.*", "StatementWrapper.*",
        "ASTIdentityMapper.*", "get_statements_in_ast",
    ],
}

PASSES = ["eliminate_self_dependencies", "isolate_function_arguments", "isolate_function_calls",
          "expand_IfThenElse"]

PYTOOLS_RE = r"^(?P<based_on>\w+)_(?P<counter>\d+)$"


def _strip_doc(body):
    body = list(body)
    if body and isinstance(body[0], ast.Expr) and isinstance(getattr(body[0], "value", None), ast.Constant) \
            and isinstance(body[0].value.value, str):
        body = body[1:]
    return body


def _text(fn):
    deco = "".join("@%s\n" % ast.unparse(d) for d in fn.decorator_list)
    return deco + "(%s)\n" % ast.unparse(fn.args) + "\n".join(ast.unparse(s) for s in _strip_doc(fn.body))


def units_of(repo, rel, selectors):
    tree = _parse(repo, rel)
    out = {}
    with_me = []
    for n in tree.body:
        if isinstance(n, ast.FunctionDef):
            out[n.name] = _text(n)
        elif isinstance(n, ast.ClassDef):
            out[n.name + ".<bases>"] = ",".join(ast.unparse(b) for b in n.bases)
            for m in n.body:
                if isinstance(m, ast.FunctionDef):
                    out[n.name + "." + m.name] = _text(m)
                    if m.name == "map_expressions":
                        with_me.append(n.name)
                elif isinstance(m, ast.Assign):
                    out[n.name + "." + ast.unparse(m.targets[0])] = ast.unparse(m.value)
    out["<classes defining map_expressions>"] = ",".join(with_me)
    if selectors is None:
        out.pop("<classes defining map_expressions>")
        return out
    return {k: v for k, v in out.items() if any(fnmatch.fnmatchcase(k, s) for s in selectors)}


def _variant(expect, rel, unit, text):
    alts = expect.get(rel + "::" + unit)
    if alts is None:
        raise ShapeError("%s: unexpected function/method %s" % (rel, unit))
    if text not in alts:
        raise ShapeError("%s: %s has an unrecognised shape:\n%s" % (rel, unit, text))
    return alts.index(text), len(alts)


def pass_order(repo):
    tree = _parse(repo, "dagrt/codegen/fortran.py")
    fns = [n for n in ast.walk(tree) if isinstance(n, ast.FunctionDef) and n.name == "process_ast"]
    if len(fns) != 1:
        raise ShapeError("fortran.py: expected exactly one process_ast, found %d" % len(fns))
    body = fns[0].body
    if ast.unparse(fns[0].args) != "ast, print_ast=False":
        raise ShapeError("fortran.py process_ast: unexpected signature")
    if not (isinstance(body[0], ast.ImportFrom) and body[0].module == "dagrt.codegen.transform"
            and sorted(a.name for a in body[0].names) == sorted(PASSES)
            and all(a.asname is None for a in body[0].names)):
        raise ShapeError("fortran.py process_ast: unexpected import %r" % ast.unparse(body[0]))
    order = []
    rest = body[1:]
    while rest and isinstance(rest[0], ast.Assign):
        src = ast.unparse(rest[0])
        ok = [p for p in PASSES if src == "ast = %s(ast)" % p]
        if not ok:
            raise ShapeError("fortran.py process_ast: unexpected statement %r" % src)
        order.append(ok[0])
        rest = rest[1:]
    tail = [ast.unparse(s) for s in rest]
    if tail != ["if print_ast:\n    print(ast)", "return ast"]:
        raise ShapeError("fortran.py process_ast: unexpected tail %r" % tail)
    # the only caller applies it to the lowered tree of each phase
    callers = [ast.unparse(n) for n in ast.walk(tree) if isinstance(n, ast.Call)
               and isinstance(n.func, ast.Name) and n.func.id == "process_ast"]
    if callers != ["process_ast(ast)"]:
        raise ShapeError("fortran.py: unexpected callers of process_ast %r" % callers)
    return order


def third_party():
    import pymbolic
    import pytools
    if pytools.UNIQUE_NAME_GEN_COUNTER_RE.pattern != PYTOOLS_RE:
        raise ShapeError("pytools.UNIQUE_NAME_GEN_COUNTER_RE is %r" % pytools.UNIQUE_NAME_GEN_COUNTER_RE.pattern)
    import inspect
    import textwrap
    from harness.tr._c07_shapes import EXPECT
    for name, obj in (("pytools::UniqueNameGenerator.__call__", pytools.UniqueNameGenerator.__call__),
                      ("pytools::generate_numbered_unique_names", pytools.generate_numbered_unique_names)):
        fn = ast.parse(textwrap.dedent(inspect.getsource(obj))).body[0]
        if _text(fn) not in EXPECT[name]:
            raise ShapeError("%s (third party) changed:\n%s" % (name, _text(fn)))
    return pymbolic.__version__, pytools.__version__


def facts(repo):
    from harness.tr._c07_shapes import EXPECT
    idx = {}
    for rel, sel in FILES.items():
        got = units_of(repo, rel, sel)
        want = {k.split("::", 1)[1] for k in EXPECT if k.startswith(rel + "::")}
        for unit, text in got.items():
            idx[unit] = _variant(EXPECT, rel, unit, text)
        for unit in sorted(want - set(got)):
            # a unit that may legitimately be absent is recorded with the alternative None
            if None not in EXPECT[rel + "::" + unit]:
                raise ShapeError("%s: %s is missing" % (rel, unit))
            idx[unit] = (EXPECT[rel + "::" + unit].index(None), len(EXPECT[rel + "::" + unit]))
    two = sorted(u for u, (_, n) in idx.items() if n > 1)
    expected_two = ["ExprIfThenElseExpander.map_if", "ExpressionFunctionCallIsolator.isolate_call",
                    "SelfDependencyEliminator.map_statement",
                    "apply_statement_rewriter", "get_node_variables", "get_var_name_generator"]
    if two != expected_two:
        raise ShapeError("shape table out of date: units with two shapes are %r" % two)
    seed = {idx[u][0] for u in ("apply_statement_rewriter", "get_node_variables", "get_var_name_generator")}
    if len(seed) != 1:
        raise ShapeError("transform.py: get_var_name_generator / get_node_variables / apply_statement_rewriter "
                         "are a mixture of the two recognised shapes")
    return {"seed_node_vars": seed == {1},
            "sd_sorted": idx["SelfDependencyEliminator.map_statement"][0] == 1,
            "fci_passes_cond": idx["ExpressionFunctionCallIsolator.isolate_call"][0] == 1,
            "ite_flag_first": idx["ExprIfThenElseExpander.map_if"][0] == 1,
            "order": pass_order(repo),
            "third_party": third_party()}


def generate(repo):
    f = facts(repo)
    out = [HEADER % "c07"]
    out.append("(* dagrt/codegen/transform.py: get_var_name_generator also seeds loop counters, guards, loop bounds *)")
    out.append("Definition c07_seed_node_vars : bool := %s." % coq_bool(f["seed_node_vars"]))
    out.append("(* SelfDependencyEliminator iterates over sorted(read_and_written) *)")
    out.append("Definition c07_sd_sorted : bool := %s." % coq_bool(f["sd_sorted"]))
    out.append("(* isolate_call hands base_condition on to the inherited mapper method *)")
    out.append("Definition c07_fci_passes_cond : bool := %s." % coq_bool(f["fci_passes_cond"]))
    out.append("(* ExprIfThenElseExpander.map_if emits the flag assignment before the statements of the branches *)")
    out.append("Definition c07_ite_flag_first : bool := %s." % coq_bool(f["ite_flag_first"]))
    out.append("(* dagrt/codegen/fortran.py process_ast *)")
    out.append("Definition fortran_pass_order : list string := %s." % coq_string_list(f["order"]))
    out.append("(* third party, pinned in /venv: pymbolic %s, pytools %s *)" % f["third_party"])
    return "\n".join(out) + "\n"
