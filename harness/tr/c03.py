"""Shape switches and declarative facts for C03 -> coq/gen/GenC03.v

 * c03_ne_fortran     : FortranExpressionMapper prints the comparison `!=` as Fortran's `/=`
                        (false: inherited pymbolic printing, `!` starts a comment in Fortran)
 * c03_cond_honoured  : CodeGenerator.lower_inst wraps a statement whose `condition` is not True
                        in `if (condition)` (false: the conditions that expand_IfThenElse puts
                        on the branch assignments are ignored, the else value always wins)
 * c03_ite_flag_first : ExprIfThenElseExpander.map_if appends the flag assignment before the
                        statements of the branches, which are guarded by the flag (false: with
                        honoured conditions a NESTED conditional expression reads its outer flag
                        before it is assigned).  Repaired by fixes/C07_ifthenelse_flag_first.patch
 * c03_ubound_m1      : emit_for_begin's do-loop upper bound is `ubound - 1`
 * c03_switch_exits   : emit_inst_SwitchPhase ends with `goto 999`
 * c03_next_first     : emit_run_step assigns the default successor before calling the phase
 * c03_guard_outside  : dag_ast.py loop_to_ast_node puts the conditional of a guarded looped
                        assignment OUTSIDE its loop nest (fixes/C01_guard_outside_loops.patch;
                        false: ForLoop(..., IfThenElse(guard, stmt, Null)), the bounds are evaluated
                        and the loops run although the guard is false)
 * c03_prec_*         : the precedence FortranExpressionMapper's map_logical_or / map_logical_and /
                        map_logical_not hand to their operands (`_child`) and claim for themselves
                        (`_own`): the names are read off the three methods (exact shapes), the
                        numbers off pymbolic/mapper/stringifier.py (third party, pinned in /venv),
                        where parenthesize_if_needed must still be `if enclosing_prec > my_prec`
 * c03_prec_pow_*     : the precedence handed to the base (`_base`) and to the exponent (`_exp`) of a power and the
                        one claimed for the power itself (`_own`); c03_power_paren = a base that is itself a
                        power is printed in parentheses (base > own).  Two shapes: FortranExpressionMapper has
                        no map_power (then pymbolic's StringifyMapper.map_power, pinned, prints: all three are
                        PREC_POWER, `(a**b)**c` is printed `a**b**c`, which Fortran reads as a**(b**c)), or the
                        map_power of fixes/C03_fortran_power_parentheses.patch (base: PREC_POWER + 1)
 * c03_helper_key     : the components of the cache key under which emit_inst_AssignFunctionCall
                        remembers the helper subroutine emitted for a called function, and under which
                        finish_emit emits it: (inst.function_id, arg_kinds) with arg_kinds the FULL
                        kind records (function.resolve_args(arg_kinds_dict)).  Fail-closed: a key
                        built from anything coarser (class names, ...) is not a recognised shape --
                        the built-ins that walk the Fortran type of a user-type argument write that
                        type's extents into the helper
 * c03_builtin_templates : every built-in Fortran template of fortran.py (the `builtin_*` CallCode templates,
                        UTIL_MACROS, the codegen_builtin_* functions and the type visitors / CallCode they use)
                        and the table in function_registry.py that binds them to the built-ins, pinned by
                        the sha256 of their `ast.unparse` text (Python 3.12 of /venv): the text of these
                        templates is NOT modelled, so any edit has to break the tie until somebody looked at
                        it and re-ran the differential check (then update BUILTIN_TEMPLATES below)
 * c03_ret_prefixes   : the three slots written by emit_inst_YieldState, in order
 fail-closed only: emit_inst_FailStep ends with goto 999; emit_return emits goto 999;
 lower_function emits label 999 right after lower_ast; process_ast's pass order.
"""
import ast

from harness.tr import HEADER, ShapeError, _find_class, _find_def, _parse, _src, coq_bool, coq_string_list


def _body(fn):
    return [_src(s) for s in fn.body if not (isinstance(s, ast.Expr) and isinstance(s.value, ast.Constant))]


LOWER_INST_OLD = ["self.emit('! {{{ %s' % inst)", "self.emit('')", "super().lower_inst(inst)",
                  "self.emit('')", "self.emit('! }}}')", "self.emit('')"]
LOWER_INST_NEW = ["self.emit('! {{{ %s' % inst)", "self.emit('')",
                  "if inst.condition is not True:\n    self.emit_if_begin(inst.condition)",
                  "super().lower_inst(inst)",
                  "if inst.condition is not True:\n    self.emit_if_end()",
                  "self.emit('')", "self.emit('! }}}')", "self.emit('')"]

MAP_COMPARISON_NEW = [
    "from pymbolic.mapper.stringifier import PREC_COMPARISON",
    "operator = '/=' if expr.operator == '!=' else expr.operator",
    "return self.parenthesize_if_needed(self.format('%s %s %s', self.rec(expr.left, PREC_COMPARISON), operator, "
    "self.rec(expr.right, PREC_COMPARISON)), enclosing_prec, PREC_COMPARISON)"]

FOR_BEGIN = ("em = FortranDoEmitter(self.emitter, self.name_manager[loop_var_name], "
             "'int({}), int({})'.format(self.expr(lbound), self.expr(%s)), code_generator=self)")

SET_NEXT = "self.emit('dagrt_state%dagrt_next_phase = ' + self.phase_name_to_phase_sym(phase_descr.next_phase))"
CALL_PHASE = ("self.emit('call dagrt_phase_func_{phase_name}({args})'.format(phase_name=name, "
              "args=', '.join(args)))")
SWITCH_SET = "self.emit('dagrt_state%dagrt_next_phase = ' + self.phase_name_to_phase_sym(inst.next_phase))"
GOTO = "self.emit('goto 999')"


# dag_ast.py, the two recognised shapes of the lowering of one statement
COND_TO_AST = ["if statement.condition is not True:\n    new_statement = statement.copy(condition=True)\n"
               "    return IfThenElse(statement.condition, statement_to_ast(new_statement), NullASTNode())\n"
               "else:\n    return statement_to_ast(statement)"]
LOOP_OLD = ["if isinstance(statement, Assign) and statement.loops:\n"
            "    loop_var_name, lower, upper = statement.loops[0]\n"
            "    new_statement = statement.copy(loops=statement.loops[1:])\n"
            "    return ForLoop(loop_var_name=loop_var_name, lbound=lower, ubound=upper, "
            "body=loop_to_ast_node(new_statement))\n"
            "else:\n    return conditional_to_ast(statement)"]
LOOPS_NEW = ["if isinstance(statement, Assign) and statement.loops:\n"
             "    loop_var_name, lower, upper = statement.loops[0]\n"
             "    new_statement = statement.copy(loops=statement.loops[1:])\n"
             "    return ForLoop(loop_var_name=loop_var_name, lbound=lower, ubound=upper, "
             "body=loops_to_ast(new_statement))\n"
             "else:\n    return statement_to_ast(statement)"]
LOOP_NEW = ["if statement.condition is not True:\n    new_statement = statement.copy(condition=True)\n"
            "    return IfThenElse(statement.condition, loops_to_ast(new_statement), NullASTNode())\n"
            "else:\n    return loops_to_ast(statement)"]


def guard_outside(repo):
    tree = _parse(repo, "dagrt/codegen/dag_ast.py")
    defs = {n.name: n for n in tree.body if isinstance(n, ast.FunctionDef)}
    if "loop_to_ast_node" not in defs:
        raise ShapeError("dag_ast.py: loop_to_ast_node not found")
    body = _body(defs["loop_to_ast_node"])
    if body == LOOP_OLD and "conditional_to_ast" in defs and _body(defs["conditional_to_ast"]) == COND_TO_AST \
            and "loops_to_ast" not in defs:
        res = False
    elif body == LOOP_NEW and "loops_to_ast" in defs and _body(defs["loops_to_ast"]) == LOOPS_NEW \
            and "conditional_to_ast" not in defs:
        res = True
    else:
        raise ShapeError("dag_ast.py loop_to_ast_node / conditional_to_ast / loops_to_ast: unrecognised shape %r" % body)
    if _body(defs["statement_to_ast"]) != ["return StatementWrapper(statement)"]:
        raise ShapeError("dag_ast.py statement_to_ast: unrecognised body")
    # the only user is the main loop of create_ast_from_phase
    cap = defs.get("create_ast_from_phase")
    if cap is None or "main_block.append(loop_to_ast_node(statement))" not in [_src(n) for n in ast.walk(cap)
                                                                                 if isinstance(n, ast.Expr)]:
        raise ShapeError("dag_ast.py create_ast_from_phase: main_block.append(loop_to_ast_node(statement)) not found")
    return res


def logical_precedences(repo):
    """(or_child, or_own, and_child, and_own, not_child, not_own) as numbers"""
    import os
    ex = _parse(repo, "dagrt/codegen/expressions.py")
    fm = _find_class(ex, "FortranExpressionMapper")
    names = {}
    for meth, sep in (("map_logical_or", " .or. "), ("map_logical_and", " .and. ")):
        b = _body(_find_def(fm, meth))
        ok = False
        if len(b) == 2 and b[0].startswith("from pymbolic.mapper.stringifier import PREC_"):
            ret = _find_def(fm, meth).body[-1]
            if isinstance(ret, ast.Return) and isinstance(ret.value, ast.Call) \
                    and _src(ret.value.func) == "self.parenthesize_if_needed" and len(ret.value.args) == 3:
                j, enc, own = ret.value.args
                if isinstance(j, ast.Call) and _src(j.func) == "self.join_rec" and len(j.args) == 3 \
                        and isinstance(j.args[0], ast.Constant) and j.args[0].value == sep \
                        and _src(j.args[1]) == "expr.children" and isinstance(j.args[2], ast.Name) \
                        and _src(enc) == "enclosing_prec" and isinstance(own, ast.Name):
                    names[meth] = (j.args[2].id, own.id)
                    ok = True
        if not ok:
            raise ShapeError("expressions.py FortranExpressionMapper.%s: unrecognised body %r" % (meth, b))
    b = _body(_find_def(fm, "map_logical_not"))
    ret = _find_def(fm, "map_logical_not").body[-1]
    ok = False
    if len(b) == 2 and isinstance(ret, ast.Return) and isinstance(ret.value, ast.Call) \
            and _src(ret.value.func) == "self.parenthesize_if_needed" and len(ret.value.args) == 3:
        t, enc, own = ret.value.args
        if isinstance(t, ast.BinOp) and isinstance(t.op, ast.Add) and isinstance(t.left, ast.Constant) \
                and t.left.value == ".not. " and isinstance(t.right, ast.Call) and _src(t.right.func) == "self.rec" \
                and len(t.right.args) == 2 and _src(t.right.args[0]) == "expr.child" \
                and isinstance(t.right.args[1], ast.Name) and _src(enc) == "enclosing_prec" and isinstance(own, ast.Name):
            names["map_logical_not"] = (t.right.args[1].id, own.id)
            ok = True
    if not ok:
        raise ShapeError("expressions.py FortranExpressionMapper.map_logical_not: unrecognised body %r" % b)
    # the numbers and the parenthesisation rule, from the pinned pymbolic
    import pymbolic.mapper.stringifier as st
    path = st.__file__
    tree = ast.parse(open(path).read(), filename=path)
    consts = {}
    for n in tree.body:
        if isinstance(n, ast.Assign) and len(n.targets) == 1 and isinstance(n.targets[0], ast.Name) \
                and n.targets[0].id.startswith("PREC_") and isinstance(n.value, ast.Constant):
            consts[n.targets[0].id] = n.value.value
    sm = _find_class(tree, "StringifyMapper")
    pin = _body(_find_def(sm, "parenthesize_if_needed"))
    if pin != ["if enclosing_prec > my_prec:\n    return f'({s})'\nelse:\n    return s"]:
        raise ShapeError("pymbolic StringifyMapper.parenthesize_if_needed: unrecognised body %r" % pin)
    out = []
    for meth in ("map_logical_or", "map_logical_and", "map_logical_not"):
        for nm in names[meth]:
            if nm not in consts or not isinstance(consts[nm], int) or consts[nm] < 0:
                raise ShapeError("precedence constant %s not found in pymbolic" % nm)
            out.append(consts[nm])
    return out, names


PYM_MAP_POWER = ["return self.parenthesize_if_needed(self.format('%s**%s', self.rec(expr.base, PREC_POWER, *args, **kwargs), "
                 "self.rec(expr.exponent, PREC_POWER, *args, **kwargs)), enclosing_prec, PREC_POWER)"]
MAP_POWER_NEW = ["from pymbolic.mapper.stringifier import PREC_POWER",
                 "return self.parenthesize_if_needed(self.format('%s**%s', self.rec(expr.base, PREC_POWER + 1), "
                 "self.rec(expr.exponent, PREC_POWER)), enclosing_prec, PREC_POWER)"]


def power_precedences(repo):
    """((base, exponent, own), parenthesised) of the printing of a power"""
    ex = _parse(repo, "dagrt/codegen/expressions.py")
    fm = _find_class(ex, "FortranExpressionMapper")
    mp = [n for n in fm.body if isinstance(n, ast.FunctionDef) and n.name == "map_power"]
    import pymbolic.mapper.stringifier as st
    tree = ast.parse(open(st.__file__).read(), filename=st.__file__)
    pw = [n.value.value for n in tree.body if isinstance(n, ast.Assign) and len(n.targets) == 1
          and isinstance(n.targets[0], ast.Name) and n.targets[0].id == "PREC_POWER" and isinstance(n.value, ast.Constant)]
    if len(pw) != 1 or not isinstance(pw[0], int) or pw[0] < 0:
        raise ShapeError("pymbolic: PREC_POWER not found")
    pw = pw[0]
    if not mp:
        if [b.id for b in fm.bases if isinstance(b, ast.Name)] != ["StringifyMapper"] or len(fm.bases) != 1:
            raise ShapeError("expressions.py FortranExpressionMapper: unexpected base classes")
        sm = _find_class(tree, "StringifyMapper")
        body = _body(_find_def(sm, "map_power"))
        if body != PYM_MAP_POWER:
            raise ShapeError("pymbolic StringifyMapper.map_power: unrecognised body %r" % body)
        return (pw, pw, pw), False
    if len(mp) == 1 and _body(mp[0]) == MAP_POWER_NEW and [a.arg for a in mp[0].args.args] == ["self", "expr", "enclosing_prec"] \
            and not mp[0].decorator_list:
        return (pw + 1, pw, pw), True
    raise ShapeError("expressions.py FortranExpressionMapper.map_power: unrecognised body %r" % _body(mp[0]))


def helper_key(repo):
    tree = _parse(repo, "dagrt/codegen/fortran.py")
    cg = _find_class(tree, "CodeGenerator")
    fn = _find_def(cg, "emit_inst_AssignFunctionCall")
    body = [_src(x) for x in fn.body]
    want = ["arg_kinds = function.resolve_args(arg_kinds_dict)",
            "key = (inst.function_id, arg_kinds)",
            "try:\n    fortran_func_name = self.function_and_arg_kinds_to_fortran_name[key]\n"
            "except KeyError:\n"
            "    fortran_func_name = self.name_manager.make_unique_fortran_name(inst.function_id)\n"
            "    self.function_and_arg_kinds_to_fortran_name[key] = fortran_func_name"]
    try:
        i = body.index(want[0])
    except ValueError:
        raise ShapeError("fortran.py emit_inst_AssignFunctionCall: `arg_kinds = function.resolve_args(arg_kinds_dict)` "
                         "not found")
    if body[i:i + 3] != want:
        raise ShapeError("fortran.py emit_inst_AssignFunctionCall: unrecognised helper cache key / lookup %r"
                         % body[i:i + 3])
    # nothing else writes or reads the cache in this method, and arg_kinds_dict holds what sym_kind_table returns
    uses = [n for n in ast.walk(fn) if isinstance(n, ast.Attribute) and n.attr == "function_and_arg_kinds_to_fortran_name"]
    if len(uses) != 2:
        raise ShapeError("fortran.py emit_inst_AssignFunctionCall: %d uses of the helper cache, expected 2" % len(uses))
    assigns = sorted(_src(n) for n in ast.walk(fn) if isinstance(n, ast.Assign)
                     and _src(n.targets[0]).startswith("arg_kinds_dict["))
    if assigns != ["arg_kinds_dict[arg_name] = self.sym_kind_table.get(self.current_function, arg.name)",
                   "arg_kinds_dict[i] = None",
                   "arg_kinds_dict[i] = self.sym_kind_table.get(self.current_function, arg.name)"]:
        raise ShapeError("fortran.py emit_inst_AssignFunctionCall: unrecognised filling of arg_kinds_dict %r" % assigns)
    fe = _find_def(cg, "finish_emit")
    first = _src(fe.body[0])
    if first != ("for (function_id, arg_kinds), fortran_name in self.function_and_arg_kinds_to_fortran_name.items():\n"
                 "    self.emit_dagrt_function(fortran_name, function_id, arg_kinds)"):
        raise ShapeError("fortran.py finish_emit: unrecognised emission of the helper subroutines %r" % first)
    init = [_src(n) for n in ast.walk(_find_def(cg, "__init__")) if isinstance(n, ast.Assign)
            and _src(n.targets[0]) == "self.function_and_arg_kinds_to_fortran_name"]
    if init != ["self.function_and_arg_kinds_to_fortran_name = {}"]:
        raise ShapeError("fortran.py CodeGenerator.__init__: helper cache is not a plain dict")
    return ["inst.function_id", "arg_kinds"]


BUILTIN_TEMPLATES = {
    "AbsComputer": "bfd9228816570568",
    "CallCode": "2d7c60bd68b66213",
    "IsNaNComputer": "d8c74f4c3ec2d197",
    "LenComputer": "3c5a363b061151f2",
    "Norm2Computer": "2ac2c862a75f3738",
    "TypeVisitorWithResult": "df71b0cfeb62e797",
    "UTIL_MACROS": "ddaf6119a8e5a482",
    "builtin_array": "87b746123d90af13",
    "builtin_linear_solve": "59b03cc2fee728eb",
    "builtin_matmul": "2baedd9519326f21",
    "builtin_print": "9939b1d9da49dd95",
    "builtin_svd": "dd1bce9533338fe7",
    "builtin_transpose": "1e3d2af1b35375ef",
    "codegen_builtin_elementwise_abs": "8332356096a78766",
    "codegen_builtin_isnan": "82afc6f960c5de75",
    "codegen_builtin_len": "6c9b6e106632765a",
    "codegen_builtin_norm_2": "43c55f5da536923c",
}
BUILTIN_BINDINGS = [("Norm2", "codegen_builtin_norm_2"), ("ElementwiseAbs", "codegen_builtin_elementwise_abs"),
                    ("Len", "codegen_builtin_len"), ("IsNaN", "codegen_builtin_isnan"), ("Array_", "builtin_array"),
                    ("MatMul", "builtin_matmul"), ("Transpose", "builtin_transpose"),
                    ("LinearSolve", "builtin_linear_solve"), ("SVD", "builtin_svd"), ("Print", "builtin_print")]


def builtin_templates(repo):
    import hashlib
    tree = _parse(repo, "dagrt/codegen/fortran.py")
    got = {}
    for n in tree.body:
        if isinstance(n, ast.Assign) and len(n.targets) == 1 and isinstance(n.targets[0], ast.Name) \
                and (n.targets[0].id.startswith("builtin_") or n.targets[0].id == "UTIL_MACROS"):
            got[n.targets[0].id] = hashlib.sha256(ast.unparse(n.value).encode()).hexdigest()[:16]
        if isinstance(n, ast.FunctionDef) and n.name.startswith("codegen_builtin_"):
            got[n.name] = hashlib.sha256(ast.unparse(n).encode()).hexdigest()[:16]
        if isinstance(n, ast.ClassDef) and n.name in ("Norm2Computer", "LenComputer", "AbsComputer", "IsNaNComputer",
                                                      "TypeVisitorWithResult", "CallCode"):
            got[n.name] = hashlib.sha256(ast.unparse(n).encode()).hexdigest()[:16]
    if sorted(got) != sorted(BUILTIN_TEMPLATES):
        raise ShapeError("fortran.py: set of built-in templates changed: %r" %
                         sorted(set(got) ^ set(BUILTIN_TEMPLATES)))
    changed = sorted(k for k in got if got[k] != BUILTIN_TEMPLATES[k])
    if changed:
        raise ShapeError("fortran.py: built-in Fortran template(s) edited (text is not modelled; pinned by hash): %s"
                         % ", ".join("%s now %s" % (k, got[k]) for k in changed))
    reg = _parse(repo, "dagrt/function_registry.py")
    mk = [n for n in reg.body if isinstance(n, ast.FunctionDef) and n.name == "_make_bfr"]
    if len(mk) != 1:
        raise ShapeError("function_registry.py: _make_bfr not found")
    binds = []
    for n in ast.walk(mk[0]):
        if isinstance(n, ast.Call) and _src(n.func) == "bfr.register_codegen" and len(n.args) == 3 \
                and isinstance(n.args[1], ast.Constant) and n.args[1].value == "fortran":
            a0, a2 = _src(n.args[0]), _src(n.args[2])
            if not a0.endswith(".identifier") or not a2.startswith("f."):
                raise ShapeError("function_registry.py _make_bfr: unrecognised Fortran registration %r" % _src(n))
            binds.append((a0[:-len(".identifier")], a2[2:]))
    if binds != BUILTIN_BINDINGS:
        raise ShapeError("function_registry.py _make_bfr: Fortran templates bound differently: %r" % binds)
    return sorted(got.items())


def facts(repo):
    tree = _parse(repo, "dagrt/codegen/fortran.py")
    cg = _find_class(tree, "CodeGenerator")

    b = _body(_find_def(cg, "lower_inst"))
    if b == LOWER_INST_OLD:
        cond = False
    elif b == LOWER_INST_NEW:
        cond = True
    else:
        raise ShapeError("fortran.py CodeGenerator.lower_inst: unrecognised body %r" % b)

    tr = _parse(repo, "dagrt/codegen/transform.py")
    mi = _find_def(_find_class(tr, "ExprIfThenElseExpander"), "map_if")
    marks = []
    for st in mi.body:
        src = _src(st)
        for m in ("rec_condition = ", "rec_then = ", "rec_else = ", "self.new_statements.append(",
                  "self.new_statements.extend("):
            if src.startswith(m):
                marks.append(m.strip(" =(").replace("self.new_statements.", ""))
    assigns = [(_src(k.value) for k in n.keywords if k.arg in ("assignee", "condition"))
               for n in ast.walk(mi) if isinstance(n, ast.Call) and _src(n.func) == "Assign"]
    assigns = [tuple(a) for a in assigns]
    if sorted(assigns) != sorted([("flag.name", "base_condition"), ("tmp_result", "then_condition"),
                                  ("tmp_result", "else_condition")]):
        raise ShapeError("transform.py map_if: unexpected Assign statements %r" % assigns)
    if marks == ["rec_condition", "rec_then", "rec_else", "extend"]:
        ordered = False
    elif marks == ["rec_condition", "append", "rec_then", "rec_else", "extend"]:
        ordered = True              # fixes/C07_ifthenelse_flag_first.patch
    else:
        raise ShapeError("transform.py map_if: unrecognised statement order %r" % marks)

    b = _body(_find_def(cg, "emit_for_begin"))
    # (the loop-depth counter added by the repair of C12, 176abb3, does not touch the emitted loop)
    b = [x for x in b if x != "self.for_loop_depth += 1"]
    if b == [FOR_BEGIN % "ubound - 1", "em.__enter__()"]:
        m1 = True
    elif b == [FOR_BEGIN % "ubound", "em.__enter__()"]:
        m1 = False
    else:
        raise ShapeError("fortran.py emit_for_begin: unrecognised body %r" % b)

    b = _body(_find_def(cg, "emit_inst_SwitchPhase"))
    if b == [SWITCH_SET, GOTO]:
        sw = True
    elif b == [SWITCH_SET]:
        sw = False
    else:
        raise ShapeError("fortran.py emit_inst_SwitchPhase: unrecognised body %r" % b)

    b = _body(_find_def(cg, "emit_inst_FailStep"))
    if len(b) != 2 or not b[0].startswith("if self.emit_instrumentation:") or b[1] != GOTO:
        raise ShapeError("fortran.py emit_inst_FailStep: unrecognised body %r" % b)
    if _body(_find_def(cg, "emit_return")) != [GOTO]:
        raise ShapeError("fortran.py emit_return: expected a single goto 999")
    lf = _body(_find_def(cg, "lower_function"))
    try:
        i = lf.index("self.lower_ast(ast)")
    except ValueError:
        raise ShapeError("fortran.py lower_function: lower_ast(ast) not found")
    if lf[i + 1] != "self.emit('999 continue ! exit label')":
        raise ShapeError("fortran.py lower_function: exit label does not follow the body")

    rs = _find_def(cg, "emit_run_step")
    fors = [n for n in ast.walk(rs) if isinstance(n, ast.For) and _src(n.iter) == "sorted(dag.phases.items())"]
    if len(fors) != 1:
        raise ShapeError("fortran.py emit_run_step: phase dispatch loop not found")
    tail = [_src(s) for s in fors[0].body][-2:]
    if tail == [SET_NEXT, CALL_PHASE]:
        nf = True
    elif tail == [CALL_PHASE, SET_NEXT]:
        nf = False
    else:
        raise ShapeError("fortran.py emit_run_step: unrecognised dispatch body %r" % tail)

    ys = _find_def(cg, "emit_inst_YieldState")
    slots = []
    for n in ast.walk(ys):
        if isinstance(n, ast.Call) and _src(n.func) == "self.emit_assign_expr":
            a = n.args[0]
            if not (isinstance(a, ast.BinOp) and isinstance(a.left, ast.Constant)
                    and _src(a.right) == "inst.component_id"):
                raise ShapeError("fortran.py emit_inst_YieldState: unrecognised slot name %r" % _src(a))
            slots.append(a.left.value)
    if len(slots) != 3:
        raise ShapeError("fortran.py emit_inst_YieldState: expected three slot assignments, got %r" % slots)

    call = _find_def(cg, "__call__")
    pa = [n for n in ast.walk(call) if isinstance(n, ast.FunctionDef) and n.name == "process_ast"]
    if len(pa) != 1:
        raise ShapeError("fortran.py __call__: process_ast not found")
    passes = [_src(s.value.func) for s in pa[0].body if isinstance(s, ast.Assign) and _src(s.targets[0]) == "ast"
              and isinstance(s.value, ast.Call)]
    if passes != ["eliminate_self_dependencies", "isolate_function_arguments", "isolate_function_calls",
                  "expand_IfThenElse"]:
        raise ShapeError("fortran.py process_ast: unexpected pass order %r" % passes)

    ex = _parse(repo, "dagrt/codegen/expressions.py")
    fm = _find_class(ex, "FortranExpressionMapper")
    mc = [n for n in fm.body if isinstance(n, ast.FunctionDef) and n.name == "map_comparison"]
    if not mc:
        ne = False
    elif _body(mc[0])[-3:] == MAP_COMPARISON_NEW and [a.arg for a in mc[0].args.args] == ["self", "expr", "enclosing_prec"]:
        ne = True
    else:
        raise ShapeError("expressions.py FortranExpressionMapper.map_comparison: unrecognised body %r" % _body(mc[0]))
    return dict(ne=ne, cond=cond, ordered=ordered, go=guard_outside(repo), prec=logical_precedences(repo), pow=power_precedences(repo), hkey=helper_key(repo), templates=builtin_templates(repo), m1=m1, sw=sw, nf=nf, slots=slots, passes=passes)


def generate(repo):
    f = facts(repo)
    out = [HEADER % "c03"]
    out.append("(* dagrt/codegen/expressions.py FortranExpressionMapper *)")
    out.append("Definition c03_ne_fortran : bool := %s." % coq_bool(f["ne"]))
    out.append("(* dagrt/codegen/fortran.py CodeGenerator *)")
    out.append("Definition c03_cond_honoured : bool := %s." % coq_bool(f["cond"]))
    out.append("(* dagrt/codegen/transform.py ExprIfThenElseExpander.map_if *)")
    out.append("Definition c03_ite_flag_first : bool := %s." % coq_bool(f["ordered"]))
    out.append("Definition c03_ubound_m1 : bool := %s." % coq_bool(f["m1"]))
    out.append("Definition c03_switch_exits : bool := %s." % coq_bool(f["sw"]))
    out.append("Definition c03_next_first : bool := %s." % coq_bool(f["nf"]))
    out.append("(* dagrt/codegen/dag_ast.py loop_to_ast_node *)")
    out.append("Definition c03_guard_outside : bool := %s." % coq_bool(f["go"]))
    nums, names = f["prec"]
    out.append("(* FortranExpressionMapper map_logical_or %r, map_logical_and %r, map_logical_not %r (child, own) *)"
               % (names["map_logical_or"], names["map_logical_and"], names["map_logical_not"]))
    for nm, z in zip(("or_child", "or_own", "and_child", "and_own", "not_child", "not_own"), nums):
        out.append("Definition c03_prec_%s : nat := %d." % (nm, z))
    (pb, px, po), paren = f["pow"]
    out.append("(* FortranExpressionMapper.map_power (absent: pymbolic StringifyMapper.map_power) *)")
    out.append("Definition c03_prec_pow_base : nat := %d." % pb)
    out.append("Definition c03_prec_pow_exp : nat := %d." % px)
    out.append("Definition c03_prec_pow_own : nat := %d." % po)
    out.append("Definition c03_power_paren : bool := %s." % coq_bool(paren))
    out.append("(* fortran.py emit_inst_AssignFunctionCall / finish_emit: key of the helper-subroutine cache *)")
    out.append("Definition c03_helper_key : list string := %s." % coq_string_list(f["hkey"]))
    out.append("(* fortran.py built-in templates, pinned by hash (text not modelled) *)")
    out.append("Definition c03_builtin_templates : list (string * string) := [%s]."
               % "; ".join('("%s", "%s")' % kv for kv in f["templates"]))
    out.append("Definition c03_ret_prefixes : list string := %s." % coq_string_list(f["slots"]))
    out.append("Definition c03_passes : list string := %s." % coq_string_list(f["passes"]))
    return "\n".join(out) + "\n"
