"""Facts and shape switches for C09 -> coq/gen/GenC09.v

The Coq model coq/model/Kinds.v mirrors dagrt/data.py (unify, KindInferenceMapper,
SymbolKindTable.set, SymbolKindFinder.__call__), the get_result_kinds methods of
dagrt/function_registry.py, dagrt/utils.py resolve_args and dagrt/builtins_python.py line by line.
Every one of these functions is therefore matched against its expected text (docstrings and
comments aside, compared through a hash of ast.unparse); anything else is a ShapeError
(fail-closed: the check then reports the broken tie and searches for a failing input).

Six defects have two recognised shapes each, selected by a boolean the model takes as a parameter:

  c09_power_returns_kind   false <-> KindInferenceMapper.map_power has no return statement
                           true  <-> ... ends with `return self.map_product_like((expr.base, expr.exponent))`
  c09_new_entry_marks      false <-> SymbolKindTable.set: `else: tbl[name] = kind`
                           true  <-> ... `else: self._changed = True; tbl[name] = kind` (either order)
  c09_conflict_raises      false <-> SymbolKindTable.set: `except Exception: print(...)`
                           true  <-> ... `except Exception: print(...); raise`
  c09_isnan_any            false <-> builtin_isnan: `return np.isnan(x)`
                           true  <-> ... `return np.isnan(x).any()`
  c09_finder_restarts      false <-> SymbolKindFinder.__call__: the `if not made_progress:` block of the work-list
                                     loop starts with the "Left-over statements" report
                           true  <-> ... starts with `if result.is_changed(): break` (c2c8c5a); the rest of the
                                     body is the same pinned text in both shapes
  c09_matrix_need_arrays   false <-> MatMul/Transpose/LinearSolve/SVD.get_result_kinds read `.is_real_valued` of
                                     whatever kind the matrix arguments have
                           true  <-> ... raise UnableToInferKind first unless the matrix arguments are Arrays
                                     (47d5901); all four must have the same shape

Declarative facts: the prefixes of is_state_variable, the interpreter's persistence test, and the
(identifier, arg_names, number of results) table of the built-in functions registered in _make_bfr.
"""
import ast
import copy
import hashlib

from harness.tr import (HEADER, ShapeError, _find_class, _find_def, _parse, _src, coq_bool, coq_string,
                        coq_string_list)


def _strip_doc(fn):
    body = list(fn.body)
    if body and isinstance(body[0], ast.Expr) and isinstance(getattr(body[0], "value", None), ast.Constant) \
            and isinstance(body[0].value.value, str):
        body = body[1:]
    return body


def _body_src(fn):
    return "\n".join(_src(s) for s in _strip_doc(fn))


def _h(text):
    return hashlib.sha256(text.encode()).hexdigest()[:16]


MAP_POWER_OLD = ("if self.check and (not isinstance(self.rec(expr.exponent), Scalar)):\n"
                 "    raise TypeError(\"exponentiation by '%s'is meaningless\" % type(self.rec(expr.exponent)).__name__)")
MAP_POWER_NEW = MAP_POWER_OLD + "\nreturn self.map_product_like((expr.base, expr.exponent))"

def _set_text(raises, marks):
    return ("if is_state_variable(name):\n"
            "    tbl = self.global_table\n"
            "else:\n"
            "    tbl = self.per_phase_table.setdefault(phase_name, {})\n"
            "if name in tbl:\n"
            "    if tbl[name] != kind:\n"
            "        try:\n"
            "            kind = unify(kind, tbl[name])\n"
            "        except Exception:\n"
            "            print(\"trying to derive 'kind' for '%s' in '%s': '%s' vs '%s'\" % "
            "(name, phase_name, repr(kind), repr(tbl[name])))\n"
            + ("            raise\n" if raises else "") +
            "        else:\n"
            "            if tbl[name] != kind:\n"
            "                self._changed = True\n"
            "                tbl[name] = kind\n"
            "else:\n"
            + {0: "    tbl[name] = kind", 1: "    self._changed = True\n    tbl[name] = kind",
               2: "    tbl[name] = kind\n    self._changed = True"}[marks])


SET_SHAPES = {_set_text(r, m): (r, m != 0) for r in (False, True) for m in (0, 1, 2)}

ISNAN_OLD = "import numpy as np\nreturn np.isnan(x)"
ISNAN_NEW = "import numpy as np\nreturn np.isnan(x).any()"

# hash of the body text (ast.unparse, docstring removed) of every function the model mirrors
EXPECT = {
    ('dagrt/builtins_python.py', None, 'builtin_array'): 'c46e6ff23ef34372',
    ('dagrt/builtins_python.py', None, 'builtin_dot_product'): 'acd5dedb78058238',
    ('dagrt/builtins_python.py', None, 'builtin_elementwise_abs'): '70d2a630ecc127d0',
    ('dagrt/builtins_python.py', None, 'builtin_len'): '15f70a9f8a854224',
    ('dagrt/builtins_python.py', None, 'builtin_linear_solve'): '0e54f43df1eae895',
    ('dagrt/builtins_python.py', None, 'builtin_matmul'): '218769c929552437',
    ('dagrt/builtins_python.py', None, 'builtin_norm_1'): '56cd2621504d0959',
    ('dagrt/builtins_python.py', None, 'builtin_norm_2'): '4502bce5cc53a729',
    ('dagrt/builtins_python.py', None, 'builtin_norm_inf'): 'e6135fb1cc5de41f',
    ('dagrt/builtins_python.py', None, 'builtin_print'): '3f59bec9da81b0bb',
    ('dagrt/builtins_python.py', None, 'builtin_svd'): 'c3e2feb6b53198e5',
    ('dagrt/builtins_python.py', None, 'builtin_transpose'): '0c582541347742c2',
    ('dagrt/data.py', 'KindInferenceMapper', '__init__'): '920bbf745d3f9353',
    ('dagrt/data.py', 'KindInferenceMapper', 'map_call'): 'fb7e42e32938f067',
    ('dagrt/data.py', 'KindInferenceMapper', 'map_call_with_kwargs'): '2f6ad7ae3054d1e8',
    ('dagrt/data.py', 'KindInferenceMapper', 'map_comparison'): '47f599b229b7c045',
    ('dagrt/data.py', 'KindInferenceMapper', 'map_constant'): '124d6f80696249c9',
    ('dagrt/data.py', 'KindInferenceMapper', 'map_generic_call'): 'a05c1d1c198fad29',
    ('dagrt/data.py', 'KindInferenceMapper', 'map_logical_not'): '0ae188eadfa45d98',
    ('dagrt/data.py', 'KindInferenceMapper', 'map_logical_or'): '5d80d5501c0e92ca',
    ('dagrt/data.py', 'KindInferenceMapper', 'map_max'): 'e191730e9c5c6dae',
    ('dagrt/data.py', 'KindInferenceMapper', 'map_product'): 'd887953015724d61',
    ('dagrt/data.py', 'KindInferenceMapper', 'map_product_like'): 'a94d2bf2498db865',
    ('dagrt/data.py', 'KindInferenceMapper', 'map_quotient'): 'b5ef549b6382a04f',
    ('dagrt/data.py', 'KindInferenceMapper', 'map_subscript'): '5eaff6223543074c',
    ('dagrt/data.py', 'KindInferenceMapper', 'map_sum'): 'fd496905173f0f3a',
    ('dagrt/data.py', 'KindInferenceMapper', 'map_variable'): '58636ea46ce8b293',
    ('dagrt/data.py', 'SymbolKindTable', '__init__'): '435c0f5a366c9bbc',
    ('dagrt/data.py', 'SymbolKindTable', 'is_changed'): '0444078db550a0fa',
    ('dagrt/data.py', 'SymbolKindTable', 'reset_change_flag'): '2038eccb5f7690fa',
    ('dagrt/data.py', None, '_get_arg_dict_from_call_stmt'): '37b52e19252e3566',
    ('dagrt/data.py', None, 'unify'): '137384b46d07ae64',
    ('dagrt/exec_numpy.py', 'NumpyInterpreter', 'exec_AssignFunctionCall'): '8a583373188fe1d3',
    ('dagrt/function_registry.py', 'Array_', 'get_result_kinds'): '33f91c21d348965e',
    ('dagrt/function_registry.py', 'DotProduct', 'get_result_kinds'): '54f572879cf6e102',
    ('dagrt/function_registry.py', 'ElementwiseAbs', 'get_result_kinds'): 'ab3c4b799fde8254',
    ('dagrt/function_registry.py', 'FixedResultKindsFunction', 'get_result_kinds'): '9015951a40e245ba',
    ('dagrt/function_registry.py', 'Function', 'resolve_args'): 'f019774a5bd39afb',
    ('dagrt/function_registry.py', 'IsNaN', 'get_result_kinds'): '11d9cea37c9904c7',
    ('dagrt/function_registry.py', 'Len', 'get_result_kinds'): '5ae8a313c465fca6',
    ('dagrt/function_registry.py', 'Print', 'get_result_kinds'): '350145e90b12ecf5',
    ('dagrt/function_registry.py', '_NormBase', 'get_result_kinds'): '8582ca56c9f3c803',
    ('dagrt/function_registry.py', '_ODERightHandSide', 'arg_names'): '3515c78f74a41367',
    ('dagrt/function_registry.py', '_ODERightHandSide', 'get_result_kinds'): '210659b3d94f08b2',
    ('dagrt/utils.py', None, 'resolve_args'): '412db2d02833a2c1',
}

# functions with two recognised texts: key -> (hash of the old text, hash of the repaired text)
# SymbolKindFinder.__call__: without / with `if result.is_changed(): break` in front of the no-progress report
FINDER_KEY = ('dagrt/data.py', 'SymbolKindFinder', '__call__')
FINDER_SHAPES = ('98a5aea11a4e5e1e', '831318954e331efb')
RESTART = "if result.is_changed():\n    break"
# the matrix built-ins: reading `.is_real_valued` of any kind / unable unless the matrix arguments are Arrays
MATRIX = {
    ('dagrt/function_registry.py', 'MatMul', 'get_result_kinds'): ('0c934d440daffc27', 'a22c73f0a2a514d4'),
    ('dagrt/function_registry.py', 'Transpose', 'get_result_kinds'): ('a5cce528efbdb09b', '6bb26d3354abeafb'),
    ('dagrt/function_registry.py', 'LinearSolve', 'get_result_kinds'): ('9465138fb62114e3', '37cc76c2d142e6e3'),
    ('dagrt/function_registry.py', 'SVD', 'get_result_kinds'): ('86b4f7bf36975e1c', 'ce5d9aace5e7dc8c'),
}

# aliases inside KindInferenceMapper the model relies on
ALIASES = [("KindInferenceMapper", "map_logical_and", "map_logical_or"),
           ("KindInferenceMapper", "map_min", "map_max")]

# mapper methods that must NOT exist (an expression kind the model has no rule for would
# otherwise silently get one)
MAPPER_METHODS = {"__init__", "map_constant", "map_variable", "map_sum", "map_product_like", "map_product",
                  "map_quotient", "map_power", "map_generic_call", "map_call", "map_call_with_kwargs",
                  "map_comparison", "map_logical_or", "map_logical_not", "map_max", "map_subscript"}


def _get(trees, repo, rel, cls, name):
    if rel not in trees:
        trees[rel] = _parse(repo, rel)
    node = trees[rel] if cls is None else _find_class(trees[rel], cls)
    return _find_def(node, name)


def function_hashes(repo):
    trees = {}
    return {k: _h(_body_src(_get(trees, repo, *k))) for k in list(EXPECT) + [FINDER_KEY] + list(MATRIX)}


def _where(k):
    return "%s %s.%s" % (k[0], k[1] or "", k[2])


def two_shape_switches(repo, got):
    """(c09_finder_restarts, c09_matrix_need_arrays, complaints) from the hashes of the functions that have an
    old and a repaired text.  The finder's repaired text must moreover be the old text plus
    `if result.is_changed(): break` as the first statement of the `if not made_progress:` block."""
    bad = []
    restarts = None
    g = got[FINDER_KEY]
    if g == FINDER_SHAPES[0]:
        restarts = False
    elif g == FINDER_SHAPES[1]:
        restarts = True
        fn = copy.deepcopy(_get({}, repo, *FINDER_KEY))
        try:
            outer = [n for n in fn.body if isinstance(n, ast.While)][0]
            inner = [n for n in outer.body if isinstance(n, ast.While)][0]
            stuck = inner.body[0].body[0]
            ok = (_src(inner.body[0].test) == "not stmt_queue" and _src(stuck.test) == "not made_progress"
                  and ast.unparse(stuck.body[0]) == ast.unparse(ast.parse(RESTART)))
            stuck.body = stuck.body[1:]
        except (IndexError, AttributeError):
            ok = False
        if not ok or _h(_body_src(fn)) != FINDER_SHAPES[0]:
            bad.append("%s: the repaired text is not the old text plus the restart test" % _where(FINDER_KEY))
    else:
        bad.append("%s: got %s want %s or %s" % ((_where(FINDER_KEY), g) + FINDER_SHAPES))
    shapes = set()
    for k, (old, new) in sorted(MATRIX.items()):
        if got[k] == old:
            shapes.add(False)
        elif got[k] == new:
            shapes.add(True)
        else:
            bad.append("%s: got %s want %s or %s" % (_where(k), got[k], old, new))
    if len(shapes) > 1:
        bad.append("dagrt/function_registry.py: MatMul/Transpose/LinearSolve/SVD.get_result_kinds are not all of "
                   "the same shape")
    return restarts, (shapes.pop() if len(shapes) == 1 else None), bad


def _class_attr(cls, name):
    for n in cls.body:
        if isinstance(n, ast.Assign) and len(n.targets) == 1 and _src(n.targets[0]) == name:
            return ast.literal_eval(n.value)
    return None


def builtin_facts(repo):
    tree = _parse(repo, "dagrt/function_registry.py")
    classes = {c.name: c for c in tree.body if isinstance(c, ast.ClassDef)}
    mk = _find_def(tree, "_make_bfr")
    fors = [n for n in mk.body if isinstance(n, ast.For)]
    if len(fors) != 1 or not isinstance(fors[0].iter, ast.List):
        raise ShapeError("function_registry.py _make_bfr: expected one `for func, py_pattern in [...]`")
    facts = []
    for elt in fors[0].iter.elts:
        if not (isinstance(elt, ast.Tuple) and len(elt.elts) == 2 and isinstance(elt.elts[0], ast.Call)
                and isinstance(elt.elts[0].func, ast.Name) and not elt.elts[0].args):
            raise ShapeError("function_registry.py _make_bfr: unexpected entry %s" % _src(elt))
        cname = elt.elts[0].func.id
        attrs = {}
        c = classes.get(cname)
        chain = []
        while c is not None:
            chain.append(c)
            bases = [b.id for b in c.bases if isinstance(b, ast.Name)]
            c = classes.get(bases[0]) if bases and bases[0] != "Function" else None
        for key in ("identifier", "arg_names", "result_names", "default_dict"):
            for c in chain:
                v = _class_attr(c, key)
                if v is not None:
                    attrs[key] = v
                    break
            else:
                raise ShapeError("function_registry.py: class %s has no literal %s" % (cname, key))
        if attrs["default_dict"] != {}:
            raise ShapeError("function_registry.py: class %s has defaults (not modelled)" % cname)
        gr = [c.name for c in chain if any(isinstance(n, ast.FunctionDef) and n.name == "get_result_kinds"
                                           for n in c.body)]
        facts.append((attrs["identifier"], [str(a) for a in attrs["arg_names"]], len(attrs["result_names"]),
                      gr[0] if gr else None))
    return facts

# class that provides get_result_kinds -> constructor of Kinds.fsig
SIG_OF_CLASS = {"_NormBase": "FNorm", "ElementwiseAbs": "FAbs", "DotProduct": "FDot", "Len": "FLen",
                "IsNaN": "FIsNan", "Array_": "FArray", "MatMul": "FMatMul", "Transpose": "FTranspose",
                "LinearSolve": "FLinSolve", "SVD": "FSvd", "Print": "FPrint"}


def state_facts(repo):
    ut = _parse(repo, "dagrt/utils.py")
    isv = _find_def(ut, "is_state_variable")
    exact, prefixes = [], []
    for n in ast.walk(isv):
        if isinstance(n, ast.Compare) and len(n.ops) == 1 and isinstance(n.ops[0], ast.In) \
                and isinstance(n.comparators[0], ast.Tuple):
            exact += [c.value for c in n.comparators[0].elts]
        if isinstance(n, ast.Call) and isinstance(n.func, ast.Attribute) and n.func.attr == "startswith":
            prefixes.append(n.args[0].value)
    rets = [_src(n) for n in ast.walk(isv) if isinstance(n, ast.Return)]
    if sorted(rets) != ["return False", "return True", "return True"] or not exact or not prefixes:
        raise ShapeError("utils.py is_state_variable: unexpected shape")
    ex = _parse(repo, "dagrt/exec_numpy.py")
    rss = _find_def(_find_class(ex, "NumpyInterpreter"), "run_single_step")
    ip, ie = [], []
    for n in ast.walk(rss):
        if isinstance(n, ast.Call) and isinstance(n.func, ast.Attribute) and n.func.attr == "startswith":
            ip.append(n.args[0].value)
        if isinstance(n, ast.Compare) and isinstance(n.ops[0], ast.NotIn) and isinstance(n.comparators[0], ast.List):
            ie += [c.value for c in n.comparators[0].elts]
    if not ip or not ie:
        raise ShapeError("exec_numpy.py run_single_step: persistence test not found")
    return exact, prefixes, ie, ip


def switches(repo):
    data = _parse(repo, "dagrt/data.py")
    kim = _find_class(data, "KindInferenceMapper")
    mp = _body_src(_find_def(kim, "map_power"))
    if mp == MAP_POWER_OLD:
        power = False
    elif mp == MAP_POWER_NEW:
        power = True
    else:
        raise ShapeError("data.py KindInferenceMapper.map_power: unrecognised body:\n" + mp)
    st = _body_src(_find_def(_find_class(data, "SymbolKindTable"), "set"))
    if st not in SET_SHAPES:
        raise ShapeError("data.py SymbolKindTable.set: unrecognised body:\n" + st)
    raises, marks = SET_SHAPES[st]
    bp = _parse(repo, "dagrt/builtins_python.py")
    isn = _body_src(_find_def(bp, "builtin_isnan"))
    if isn == ISNAN_OLD:
        isnan_any = False
    elif isn == ISNAN_NEW:
        isnan_any = True
    else:
        raise ShapeError("builtins_python.py builtin_isnan: unrecognised body:\n" + isn)
    return power, marks, isnan_any, raises


def generate(repo):
    out = [HEADER % "c09"]
    got = function_hashes(repo)
    bad = ["%s: got %s want %s" % (_where(k), got[k], EXPECT[k]) for k in sorted(EXPECT, key=str)
           if got[k] != EXPECT[k]]
    restarts, need_arrays, bad2 = two_shape_switches(repo, got)
    bad += bad2
    if bad:
        raise ShapeError("source of modelled functions changed:\n  " + "\n  ".join(bad))
    data = _parse(repo, "dagrt/data.py")
    kim = _find_class(data, "KindInferenceMapper")
    for cls, alias, target in ALIASES:
        ok = [n for n in _find_class(data, cls).body if isinstance(n, ast.Assign)
              and _src(n) == "%s = %s" % (alias, target)]
        if len(ok) != 1:
            raise ShapeError("data.py %s: expected `%s = %s`" % (cls, alias, target))
    methods = {n.name for n in kim.body if isinstance(n, ast.FunctionDef)}
    if methods != MAPPER_METHODS:
        raise ShapeError("data.py KindInferenceMapper: methods %r, expected %r"
                         % (sorted(methods), sorted(MAPPER_METHODS)))
    if [_src(b) for b in kim.bases] != ["Mapper"]:
        raise ShapeError("data.py KindInferenceMapper: unexpected bases")
    power, marks, isnan_any, raises = switches(repo)
    out.append("(* dagrt/data.py KindInferenceMapper.map_power / SymbolKindTable.set; "
               "dagrt/builtins_python.py builtin_isnan *)")
    out.append("Definition c09_power_returns_kind : bool := %s." % coq_bool(power))
    out.append("Definition c09_new_entry_marks : bool := %s." % coq_bool(marks))
    out.append("Definition c09_isnan_any : bool := %s." % coq_bool(isnan_any))
    out.append("Definition c09_conflict_raises : bool := %s." % coq_bool(raises))
    out.append("(* dagrt/data.py SymbolKindFinder.__call__: `if result.is_changed(): break` before giving up *)")
    out.append("Definition c09_finder_restarts : bool := %s." % coq_bool(restarts))
    out.append("(* dagrt/function_registry.py MatMul / Transpose / LinearSolve / SVD .get_result_kinds:\n"
               "   UnableToInferKind unless the matrix arguments are Arrays *)")
    out.append("Definition c09_matrix_need_arrays : bool := %s." % coq_bool(need_arrays))
    exact, prefixes, ie, ip = state_facts(repo)
    out.append("Definition c09_state_exact : list string := %s." % coq_string_list(exact))
    out.append("Definition c09_state_prefixes : list string := %s." % coq_string_list(prefixes))
    out.append("Definition c09_keep_exact : list string := %s." % coq_string_list(ie))
    out.append("Definition c09_keep_prefixes : list string := %s." % coq_string_list(ip))
    facts = builtin_facts(repo)
    rows = []
    for ident, args, nres, cls in facts:
        if cls not in SIG_OF_CLASS:
            raise ShapeError("function_registry.py: built-in %s gets its result kinds from %r (not modelled)"
                             % (ident, cls))
        rows.append("(%s, (%s, %d))" % (coq_string(ident), coq_string_list(args), nres))
    out.append("(* (identifier, (arg_names, len(result_names))) of the functions registered by _make_bfr, in order *)")
    out.append("Definition c09_builtin_facts : list (string * (list string * nat)) :=\n  [%s]." % ";\n   ".join(rows))
    out.append("(* which class's get_result_kinds each of them uses, as the model's constructor name *)")
    out.append("Definition c09_builtin_sigs : list (string * string) :=\n  [%s]."
               % "; ".join("(%s, %s)" % (coq_string(i), coq_string(SIG_OF_CLASS[c])) for i, _, _, c in facts))
    return "\n".join(out) + "\n"


if __name__ == "__main__":   # development aid: print the current hashes
    import sys
    for k, v in sorted(function_hashes(sys.argv[1] if len(sys.argv) > 1 else "/repo").items(), key=str):
        print("    %r: %r," % (k, v))
