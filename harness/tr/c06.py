"""Shape switches for C06 (dagrt/codegen/dag_ast.py ASTSimplifyMapper.map_Block) -> coq/gen/GenC06.v"""
import ast

from harness.tr import HEADER, ShapeError, _find_class, _find_def, _parse, _src, coq_bool


# ------------------------------------------------------------------ C06

def simplify_flags(repo):
    tree = _parse(repo, "dagrt/codegen/dag_ast.py")
    fn = _find_def(_find_class(tree, "ASTSimplifyMapper"), "map_Block")
    ext = [n for n in ast.walk(fn) if isinstance(n, ast.Call)
           and isinstance(n.func, ast.Attribute) and n.func.attr == "extendleft"]
    if len(ext) != 1 or len(ext[0].args) != 1:
        raise ShapeError("dag_ast.py map_Block: expected exactly one extendleft(...) call")
    arg = _src(ext[0].args[0])
    if arg == "next_child.children":
        rev = True
    elif arg in ("reversed(next_child.children)", "next_child.children[::-1]"):
        rev = False
    else:
        raise ShapeError("dag_ast.py map_Block: unrecognised extendleft argument %r" % arg)
    whiles = [n for n in ast.walk(fn) if isinstance(n, ast.While)
              and _src(n.test) == "isinstance(current_child, NullASTNode)"]
    if len(whiles) != 1:
        raise ShapeError("dag_ast.py map_Block: expected one leading-Null skipping loop")
    body = [_src(s) for s in whiles[0].body]
    pop = "current_child = children_queue.popleft()"
    if body == [pop]:
        guard = False
    elif body == ["if not children_queue:\n    return NullASTNode()", pop]:
        guard = True
    else:
        raise ShapeError("dag_ast.py map_Block: unrecognised leading-Null loop body %r" % body)
    return rev, guard


def generate(repo):
    out = [HEADER % "c06"]
    rev, guard = simplify_flags(repo)
    out.append("(* dagrt/codegen/dag_ast.py ASTSimplifyMapper.map_Block *)")
    out.append("Definition simplify_rev_expand : bool := %s." % coq_bool(rev))
    out.append("Definition simplify_guard_empty : bool := %s." % coq_bool(guard))
    return "\n".join(out) + "\n"


