"""Shape switches for C06 (dagrt/codegen/dag_ast.py ASTSimplifyMapper.map_Block) -> coq/gen/GenC06.v"""
import ast

from harness.tr import HEADER, ShapeError, _find_class, _find_def, _parse, _src, coq_bool


# ------------------------------------------------------------------ C06

def simplify_flags(repo):
    tree = _parse(repo, "dagrt/codegen/dag_ast.py")
    fn = _find_def(_find_class(tree, "ASTSimplifyMapper"), "map_Block")
    ext = [n for n in ast.walk(fn) if isinstance(n, ast.Call)
           and isinstance(n.func, ast.Attribute) and n.func.attr == "extendleft"]
    if len(ext) != 1 or len(ext[0].args) != 1:
        raise ShapeError("dag_ast.py map_Block: expected exactly one extendleft(...) call")
    arg = _src(ext[0].args[0])
    if arg == "next_child.children":
        rev = True
    elif arg in ("reversed(next_child.children)", "next_child.children[::-1]"):
        rev = False
    else:
        raise ShapeError("dag_ast.py map_Block: unrecognised extendleft argument %r" % arg)
    whiles = [n for n in ast.walk(fn) if isinstance(n, ast.While)
              and _src(n.test) == "isinstance(current_child, NullASTNode)"]
    if len(whiles) != 1:
        raise ShapeError("dag_ast.py map_Block: expected one leading-Null skipping loop")
    body = [_src(s) for s in whiles[0].body]
    pop = "current_child = children_queue.popleft()"
    if body == [pop]:
        guard = False
    elif body == ["if not children_queue:\n    return NullASTNode()", pop]:
        guard = True
    else:
        raise ShapeError("dag_ast.py map_Block: unrecognised leading-Null loop body %r" % body)
    return rev, guard


def merge_test(repo):
    """the test under the comment 'Merge adjacent conditionals' in map_Block: the two nodes are conditionals with
    equal conditions (unrepaired), and in addition no statement of the first one assigns a variable of the
    condition (fix 5e02bf5)"""
    tree = _parse(repo, "dagrt/codegen/dag_ast.py")
    fn = _find_def(_find_class(tree, "ASTSimplifyMapper"), "map_Block")
    ifs = [n for n in ast.walk(fn) if isinstance(n, ast.If) and isinstance(n.test, ast.BoolOp)
           and isinstance(n.test.op, ast.And)
           and "current_child.condition == next_child.condition" in [_src(v) for v in n.test.values]]
    if len(ifs) != 1:
        raise ShapeError("dag_ast.py map_Block: expected exactly one test merging adjacent conditionals")
    conj = [_src(v) for v in ifs[0].test.values]
    base = ["isinstance(current_child, IfThenElse)", "isinstance(next_child, IfThenElse)",
            "current_child.condition == next_child.condition"]
    stable = "not get_variables(current_child.condition) & _WrittenVariableFinder()(current_child)"
    if conj == base:
        return False
    if conj == base + [stable]:
        finder = _find_class(tree, "_WrittenVariableFinder")
        pins = {"map_IfThenElse": "return self.rec(expr.then) | self.rec(expr.else_)",
                "map_ForLoop": "return {expr.loop_var_name} | self.rec(expr.body)",
                "map_StatementWrapper": "return set(expr.statement.get_written_variables())"}
        for name, body in pins.items():
            got = [_src(x) for x in _find_def(finder, name).body if not isinstance(x, ast.Expr)]
            if got != [body]:
                raise ShapeError("dag_ast.py _WrittenVariableFinder.%s: unrecognised body %r" % (name, got))
        return True
    raise ShapeError("dag_ast.py map_Block: unrecognised merge test %r" % conj)


def generate(repo):
    out = [HEADER % "c06"]
    rev, guard = simplify_flags(repo)
    out.append("(* dagrt/codegen/dag_ast.py ASTSimplifyMapper.map_Block *)")
    out.append("Definition simplify_rev_expand : bool := %s." % coq_bool(rev))
    out.append("Definition simplify_guard_empty : bool := %s." % coq_bool(guard))
    out.append("(* adjacent conditionals are merged only when the first assigns no variable of the condition *)")
    out.append("Definition simplify_merge_guard_stable : bool := %s." % coq_bool(merge_test(repo)))
    return "\n".join(out) + "\n"


