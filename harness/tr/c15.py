"""Shape switches and the structural tie for C15 -> coq/gen/GenC15.v

1. Shape switches of the five modelled sites (coq/model/Determ.v); each function is matched
   against its exact expected text, the iterable aside:

     selfdep_sorted          transform.py SelfDependencyEliminator.map_statement
                             `for var_name in read_and_written` (false) / `sorted(read_and_written)` (true)
     deinit_sorted           fortran.py CodeGenerator.emit_deinit_for_last_usage_of_vars
                             `for variable in read_and_written` (false) / `sorted(read_and_written)` (true)
     py_phases_sorted        python.py CodeGenerator.__call__
                             `for phase_name in dag.phases.keys()` (false) / `sorted(dag.phases.keys())` (true)
     py_table_sorted         python.py CodeGenerator._emit_constructor
                             `... in dag.phases.items()` (false) / `sorted(dag.phases.items())` (true)
     index_vars_from_counter fortran.py ArrayType.__init__
                             class-level INDEX_VAR_COUNTER (true) / _count_nested_index_vars (false)

   plus the always-required shapes: analysis.var_to_last_dependent_statement_mapping, the sorted
   traversals of fortran.py's __call__ / lower_function, process_ast's pass order, and that
   self.last_used_stmt_table is only ever consulted by key.

2. Structural tie (fail-closed): every `for` / comprehension of dagrt/codegen/*.py whose iterable
   is not syntactically ordered, and every order-observing consumer call (list, tuple, iter, next,
   dict, deque, str.join, extend, extendleft) of such an iterable, must be listed in VETTED with
   the multiplicity found; a new site, a vanished site or a changed iterable is a ShapeError.
   Syntactically ordered = sorted(..)/natsorted(..)/range(..), list/tuple/str literal,
   a comprehension (its own generators are sites), x.split()/x.splitlines(), and
   enumerate/zip/reversed/list/tuple of such.
"""
import ast
import os
from collections import Counter

from harness.tr import HEADER, ShapeError, _find_class, _find_def, _parse, _src, coq_bool

CODEGEN = "dagrt/codegen"

# ------------------------------------------------------------------ scanner

ORDERED_CALLS = {"sorted", "natsorted", "range"}
WRAPPERS = {"enumerate", "zip", "reversed", "list", "tuple"}
STR_METHODS = {"split", "splitlines"}
CONSUMER_NAMES = {"list", "tuple", "iter", "next", "dict", "deque"}
CONSUMER_ATTRS = {"join", "extend", "extendleft"}


def ordered(e):
    if isinstance(e, (ast.List, ast.Tuple)):
        return True
    if isinstance(e, ast.Constant) and isinstance(e.value, str):
        return True
    if isinstance(e, (ast.ListComp, ast.GeneratorExp)):
        return True
    if isinstance(e, ast.Call):
        f = e.func
        if isinstance(f, ast.Name):
            if f.id in ORDERED_CALLS:
                return True
            if f.id in WRAPPERS:
                return all(ordered(a) for a in e.args)
        if isinstance(f, ast.Attribute) and f.attr in STR_METHODS:
            return True
    return False


def _scan_file(path, rel):
    with open(path) as fh:
        tree = ast.parse(fh.read(), filename=path)
    out = []

    def visit(node, qual):
        for child in ast.iter_child_nodes(node):
            q = qual
            if isinstance(child, (ast.FunctionDef, ast.AsyncFunctionDef, ast.ClassDef)):
                q = qual + [child.name]
            if isinstance(child, (ast.For, ast.AsyncFor)):
                if not ordered(child.iter):
                    out.append((rel, ".".join(qual), "for", _src(child.iter)))
            elif isinstance(child, (ast.ListComp, ast.SetComp, ast.DictComp, ast.GeneratorExp)):
                for g in child.generators:
                    if not ordered(g.iter):
                        out.append((rel, ".".join(qual), "for", _src(g.iter)))
            elif isinstance(child, ast.Call) and child.args:
                f = child.func
                hit = (isinstance(f, ast.Name) and f.id in CONSUMER_NAMES) or \
                      (isinstance(f, ast.Attribute) and f.attr in CONSUMER_ATTRS)
                if hit and not ordered(child.args[0]) and not isinstance(child.args[0], ast.Starred):
                    name = f.id if isinstance(f, ast.Name) else f.attr
                    out.append((rel, ".".join(qual), name, _src(child.args[0])))
            visit(child, q)
    visit(tree, [])
    return out


def scan_sites(repo):
    d = os.path.join(repo, CODEGEN)
    rows = []
    for f in sorted(os.listdir(d)):
        if f.endswith(".py"):
            rows += _scan_file(os.path.join(d, f), f)
    return rows


# ------------------------------------------------------------------ vetted sites
#
# Categories
#   seq      a list / tuple / str / deque / generator over one of these, by construction
#            (AST children, statement fields that are tuples, emitter line lists, arguments)
#   odict    a dict whose insertion order is fixed by an ordered traversal (emission order,
#            nesting order) or is a literal of the source
#   descr    a container of the method description / generator configuration that is a sequence or
#            a dict in the order the user wrote it, and that is not re-ordered between two
#            stored forms of one description (keyword arguments of a call, loops, user_type_map
#            is only validated)
#   insens   unordered (set / frozenset / phases dict), but the loop only feeds sets, dicts that
#            are consulted by key or sorted before use, boolean tests, or the text of an
#            exception message (verify_code)
#   S1..S5   modelled in coq/model/Determ.v with an explicit iteration order (shape switch above)

VETTED = {}   # filled below: (file, qualname, kind, iterable) -> (count, category)


def _v(cat, rows):
    for r in rows:
        key, n = (r[:4], r[4]) if len(r) == 5 else (r, 1)
        if key in VETTED:
            raise AssertionError("duplicate vetted row %r" % (key,))
        VETTED[key] = (n, cat)


# rows: (file, qualname, kind, iterable[, count]); kind = "for" (loop / comprehension) or the
# name of the consuming call

_v("seq", [
    ("analysis.py", "CodeGenerationError.__str__", "join", "self.errors"),
    ("analysis.py", "var_to_last_dependent_statement_mapping", "for", "stmts"),
    ("analysis.py", "var_to_last_dependent_statement_mapping", "for", "zip(names, statement_lists)"),
    ("codegen_base.py", "StructuredCodeGenerator.lower_node", "for", "node.children"),
    ("dag_ast.py", "ASTCollector.map_Block", "for", "expr.children"),
    ("dag_ast.py", "ASTIdentityMapper.map_Block", "for", "expr.children"),
    ("dag_ast.py", "ASTPostSimplifyMapper.map_Block", "for", "expr.children"),
    ("dag_ast.py", "ASTSimplifyMapper.map_Block", "extendleft", "reversed(next_child.children)"),
    ("dag_ast.py", "ASTSimplifyMapper.map_Block", "for", "expr.children"),
    ("dag_ast.py", "ASTSimplifyMapper.map_Block.flat_Block", "extend", "node.children"),
    ("dag_ast.py", "ASTSimplifyMapper.map_Block.flat_Block", "for", "nodes"),
    ("dag_ast.py", "ASTStringifier.map_Block", "for", "expr.children"),
    ("dag_ast.py", "create_ast_from_phase", "for", "topological_order"),
    ("dag_ast.py", "get_statements_in_ast", "for", "children"),
    ("expressions.py", "FortranExpressionMapper.map_subscript", "for", "expr.index"),
    ("expressions.py", "PythonExpressionMapper.map_generic_call", "for", "args"),
    ("expressions.py", "PythonExpressionMapper.map_generic_call", "for", "enumerate(args)"),
    ("expressions.py", "PythonExpressionMapper.map_generic_call", "join", "args_strs"),
    ("expressions.py", "PythonExpressionMapper.map_numpy_array", "for", "expr"),
    ("expressions.py", "PythonExpressionMapper.map_numpy_array", "join", "elements"),
    ("fortran.py", "AllocationEmitter.visit_PointerType", "for", "pointee_type.dimension"),
    ("fortran.py", "ArrayType.get_type_specifiers", "join", "len(self.dimension) * ':'"),
    ("fortran.py", "ArrayType.get_type_specifiers", "join", "self.dimension"),
    ("fortran.py", "ArrayType.parse_dimension", "tuple", "parts"),
    ("fortran.py", "AssignmentEmitter.visit_ArrayType", "join", "alm.f_index_names"),
    ("fortran.py", "AssignmentEmitter.visit_ArrayType", "join", "dg(fortran_type) + ('pointer',)"),
    ("fortran.py", "AssignmentEmitter.visit_StructureType", "for", "fortran_type.members"),
    ("fortran.py", "CallCode.__call__", "for", "lines"),
    ("fortran.py", "CallCode.__call__", "for", "zip(function.arg_names, arg_kinds)"),
    ("fortran.py", "CallCode.__call__", "for", "zip(result_names, results)"),
    ("fortran.py", "CodeGeneratingTypeVisitor.visit_ArrayType", "join", "alm.f_index_names"),
    ("fortran.py", "CodeGeneratingTypeVisitor.visit_StructureType", "for", "fortran_type.members"),
    ("fortran.py", "CodeGenerator.__call__", "for", "fdescrs", 5),
    ("fortran.py", "CodeGenerator.__call__", "join", "new_lines"),
    ("fortran.py", "CodeGenerator.begin_emit", "for", "self.get_called_function_names(dag)"),
    ("fortran.py", "CodeGenerator.begin_emit", "for", "self.module_preamble"),
    ("fortran.py", "CodeGenerator.emit_allocation_check", "join",
     "self.extra_arguments + (fortran_name, refcnt_name)"),
    ("fortran.py", "CodeGenerator.emit_assign_expr_inner", "for", "assignee_subscript"),
    ("fortran.py", "CodeGenerator.emit_dagrt_function", "dict", "zip(function.arg_names, arg_kinds)"),
    ("fortran.py", "CodeGenerator.emit_dagrt_function", "for", "zip(function.arg_names, arg_kinds)"),
    ("fortran.py", "CodeGenerator.emit_dagrt_function", "for", "zip(result_names, result_kinds)"),
    ("fortran.py", "CodeGenerator.emit_dagrt_function", "list", "function.arg_names"),
    ("fortran.py", "CodeGenerator.emit_dagrt_function", "list", "self.extra_arguments"),
    ("fortran.py", "CodeGenerator.emit_extra_arg_decl", "for", "self.extra_argument_decl"),
    ("fortran.py", "CodeGenerator.emit_initialize", "for", "init_symbols", 4),
    ("fortran.py", "CodeGenerator.emit_initialize", "for", "self.get_called_function_names(dag)"),
    ("fortran.py", "CodeGenerator.emit_inst_AssignFunctionCall", "for", "enumerate(inst.parameters)"),
    ("fortran.py", "CodeGenerator.emit_inst_AssignFunctionCall", "for", "inst.assignees", 2),
    ("fortran.py", "CodeGenerator.emit_inst_AssignFunctionCall", "join", "inst.assignees"),
    ("fortran.py", "CodeGenerator.emit_inst_AssignFunctionCall", "join",
     "list(self.extra_arguments) + ['dagrt_state'] + list(function.resolve_args(arg_strs_dict)) "
     "+ assignee_fortran_names"),
    ("fortran.py", "CodeGenerator.emit_inst_AssignFunctionCall", "list", "function.resolve_args(arg_strs_dict)"),
    ("fortran.py", "CodeGenerator.emit_inst_AssignFunctionCall", "list", "self.extra_arguments"),
    ("fortran.py", "CodeGenerator.emit_print_profile", "for", "self.get_called_function_names(dag)"),
    ("fortran.py", "CodeGenerator.emit_run_step", "join", "args"),
    ("fortran.py", "CodeGenerator.emit_variable_decl", "join", "type_specifiers"),
    ("fortran.py", "CodeGenerator.emit_variable_deinit", "join",
     "self.extra_arguments + (fortran_name, refcnt_name)"),
    ("fortran.py", "CodeGenerator.get_code", "for", "self.module_emitter.code"),
    ("fortran.py", "CodeGenerator.get_code", "for",
     "wrap_line(line[line_leading_spaces:], level, indentation=indentation)"),
    ("fortran.py", "CodeGenerator.get_code", "join", "wrapped_lines"),
    ("fortran.py", "DeclarationGenerator.visit_ArrayType", "for", "fortran_type.dimension"),
    ("fortran.py", "DeclarationGenerator.visit_ArrayType", "join", "fortran_type.dimension"),
    ("fortran.py", "FortranEmitter.incorporate", "for", "sub_generator.code"),
    ("fortran.py", "FortranSubroutineEmitter.__init__", "join", "args"),
    ("fortran.py", "PointerAliasCreatingArraySubscriptAppender.transform", "join",
     "dg(self.fortran_type) + ('pointer',)"),
    ("fortran.py", "StructureType.__init__", "for", "enumerate(members)"),
    ("fortran.py", "StructureType.is_allocatable", "for", "self.members"),
    ("fortran.py", "_ArrayLoopManager.__init__", "for", "array_type.dimension"),
    ("fortran.py", "_ArrayLoopManager.__init__", "for", "array_type.index_vars"),
    ("fortran.py", "_ArrayLoopManager.enter", "for",
     "enumerate(reversed(list(zip(atype.dimension, self.f_index_names, self.f_dim_names))))"),
    ("fortran.py", "_ArrayLoopManager.enter", "list", "zip(atype.dimension, self.f_index_names, self.f_dim_names)"),
    ("fortran.py", "_ArrayLoopManager.get_loop_subscript", "for", "self.f_index_names"),
    ("python.py", "CodeGenerator._emit", "for", "wrap_line(line, level)"),
    ("python.py", "CodeGenerator._pre_lower", "for", "get_statements_in_ast(ast)"),
    ("python.py", "CodeGenerator.begin_emit", "for", "self.class_preamble"),
    ("python.py", "CodeGenerator.emit_inst_Assign", "for", "inst.assignee_subscript"),
    ("python.py", "CodeGenerator.emit_inst_AssignFunctionCall", "for", "inst.assignees"),
    ("python.py", "PythonClassEmitter.incorporate", "for", "sub_generator.code"),
    ("transform.py", "ASTStatementRewriter.map_StatementWrapper", "for", "self.map_statement(expr.statement)"),
    ("transform.py", "ExprFunctionArgumentIsolator.map_call", "for", "expr.parameters"),
    ("transform.py", "ExprFunctionArgumentIsolator.map_call_with_kwargs", "for", "expr.parameters"),
    ("transform.py", "ExpressionFunctionCallIsolator.isolate_call", "for", "rec_result.parameters"),
    ("transform.py", "ExpressionFunctionCallIsolator.isolate_call", "tuple", "parameters"),
    ("transform.py", "apply_statement_rewriter", "list", "get_statements_in_ast(phase_ast)"),
    # added by the repair of C07 (1d209b1): `children` is a tuple, the result a set union
    ("transform.py", "get_node_variables", "for", "children"),
    ("transform.py", "flat_LogicalAnd", "extend", "child.children"),
    ("transform.py", "flat_LogicalAnd", "for", "children"),
    ("transform.py", "flat_LogicalAnd", "tuple", "result"),
    ("utils.py", "make_identifier_from_name", "for", "name"),
    ("utils.py", "remove_common_indentation", "for", "lines"),
    ("utils.py", "remove_common_indentation", "for", "lines[1:]"),
    ("utils.py", "remove_redundant_blank_lines", "extend", "pending_blanks"),
    ("utils.py", "remove_redundant_blank_lines", "for", "lines"),
    ("utils.py", "split_outside_quotes", "for", "line"),
    ("utils.py", "wrap_line_base", "for", "enumerate(tokens)"),
])

_v("odict", [
    # filled while the types are visited outermost first
    ("fortran.py", "_replace_indices", "for", "index_expr_map.items()"),
    # filled in emission order by emit_inst_AssignFunctionCall
    ("fortran.py", "CodeGenerator.finish_emit", "for", "self.function_and_arg_kinds_to_fortran_name.items()"),
    # KeyToUniqueNameMap: keys in order of first use during emission
    ("python.py", "CodeGenerator._emit_constructor", "for", "self._name_manager.function_map"),
    ("python.py", "CodeGenerator._emit_set_up", "for", "self._name_manager.get_global_ids()"),
    ("python.py", "PythonNameManager.get_global_ids", "iter", "self._global_map"),
    ("utils.py", "KeyToUniqueNameMap.__iter__", "iter", "self._dict.keys()"),
    # `start` is a dict literal of the source ({"<t>": ..., "<dt>": ...})
    ("utils.py", "KeyToUniqueNameMap.__init__", "dict", "start"),
    ("utils.py", "KeyToUniqueNameMap.__init__", "for", "start.values()"),
    # substs is a list of pairs with distinct keys; the dict is only consulted by key
    ("transform.py", "SelfDependencyEliminator.map_statement", "dict", "substs"),
])

_v("descr", [
    # keyword arguments of one call, in the order of the description's expression
    ("expressions.py", "PythonExpressionMapper.map_generic_call", "for", "kwargs.items()", 2),
    ("fortran.py", "CodeGenerator.emit_inst_AssignFunctionCall", "for", "inst.kw_parameters.items()"),
    ("transform.py", "ExpressionFunctionCallIsolator.isolate_call", "for", "rec_result.kw_parameters.items()"),
    # Assign.loops: a list, outermost loop first
    ("python.py", "CodeGenerator.emit_inst_Assign", "for", "inst.loops", 3),
])

_v("insens", [
    # results are sets; every consumer sorts them (get_called_function_names, sorted(...time_ids),
    # sorted(component_ids)) or uses them by membership
    ("analysis.py", "collect_function_names_from_dag", "for", "dag.phases.values()"),
    ("analysis.py", "collect_function_names_from_dag", "for", "phase.statements"),
    ("analysis.py", "collect_ode_component_names_from_dag", "for", "dag.phases.values()"),
    ("analysis.py", "collect_ode_component_names_from_dag", "for", "phase.statements"),
    ("analysis.py", "collect_time_ids_from_dag", "for", "dag.phases.values()"),
    ("analysis.py", "collect_time_ids_from_dag", "for", "phase.statements"),
    # verify_code: only the text of CodeGenerationError depends on the order
    ("analysis.py", "verify_all_dependencies_exist", "for", "deps - ids"),
    ("analysis.py", "verify_all_dependencies_exist", "for", "ids - deps"),
    ("analysis.py", "verify_all_dependencies_exist", "for", "phase.statements", 3),
    ("analysis.py", "verify_all_dependencies_exist", "for", "phases.items()"),
    ("analysis.py", "verify_all_dependencies_exist", "for", "phases.values()"),
    ("analysis.py", "verify_code", "for", "code.phases.values()", 2),
    ("analysis.py", "verify_no_circular_dependencies", "for", "statements"),
    ("analysis.py", "verify_no_circular_dependencies", "for", "top.depends_on"),
    ("analysis.py", "verify_no_circular_dependencies", "list", "statements"),
    ("analysis.py", "verify_single_definition_cond_rule", "for", "cond_variables.items()"),
    ("analysis.py", "verify_single_definition_cond_rule", "for", "insts"),
    ("analysis.py", "verify_single_definition_cond_rule", "for", "statement.get_written_variables()"),
    ("analysis.py", "verify_single_definition_cond_rule", "for", "statements"),
    ("analysis.py", "verify_switch_phases", "for", "phase.statements"),
    ("analysis.py", "verify_switch_phases", "for", "phases.values()"),
    # statement_map = {inst.id: inst ...}: consulted by key (C05_storage_independent)
    ("dag_ast.py", "create_ast_from_phase", "for", "phase.statements"),
    # sym_kind_table.set on three distinct names per component; the tables are read sorted
    ("fortran.py", "CodeGenerator.__call__", "for", "component_ids"),
    # a set of loop counter names: (phase, counter, Integer) triples that SymbolKindFinder puts
    # into the per-phase kind tables first; the tables are read by key or sorted
    # (emit_def_begin's `sorted(sym_table.items())`: the order of the `integer <counter>`
    # declarations, correspondence case CDecls of harness/c15.py) -- was listed under "seq"
    ("fortran.py", "CodeGenerator.__call__", "for", "LoopVariableFinder()(fd.ast)"),
    # only raises for a PointerType value
    ("fortran.py", "CodeGenerator.__init__", "for", "user_type_map.items()"),
    # the comprehension is the argument of sorted(...)
    ("fortran.py", "CodeGenerator.emit_initialize", "for", "self.sym_kind_table.global_table"),
    # any(...) over the set of handed-out names
    ("fortran.py", "_CaseInsensitiveUniqueNameGenerator.is_name_conflicting", "for", "self.existing_names"),
    # sets of ids / names used for membership only
    ("transform.py", "get_stmt_id_generator", "for", "statements"),
    ("transform.py", "get_var_name_generator", "for", "statements"),
])

# modelled sites: present while the shape is the defective one, whitelisted (sorted) afterwards
_v("S2", [("analysis.py", "var_to_last_dependent_statement_mapping", "for", "read_and_written")])
MODELLED = {
    # row -> (category, flag, value of the flag for which the row is present)
    ("transform.py", "SelfDependencyEliminator.map_statement", "for", "read_and_written"):
        ("S1", "selfdep_sorted", False),
    ("fortran.py", "CodeGenerator.emit_deinit_for_last_usage_of_vars", "for", "read_and_written"):
        ("S3", "deinit_sorted", False),
    ("python.py", "CodeGenerator.__call__", "for", "dag.phases.keys()"):
        ("S4", "py_phases_sorted", False),
    ("python.py", "CodeGenerator._emit_constructor", "for", "dag.phases.items()"):
        ("S4", "py_table_sorted", False),
    # `tuple(get_index_var() for d in dimension)` (with the counter) next to
    # `tuple(d.strip() for d in dimension.split(","))`'s sibling `tuple(str(i) for i in dimension)`
    ("fortran.py", "ArrayType.__init__", "for", "dimension"):
        ("S5", "index_vars_from_counter", None),      # 2 with the counter, 1 without
    ("fortran.py", "_count_nested_index_vars", "for", "fortran_type.members"):
        ("S5", "index_vars_from_counter", False),
}


def check_sites(repo, flags):
    found = Counter(scan_sites(repo))
    want = {k: v for k, v in VETTED.items()}
    for row, (cat, flag, present) in MODELLED.items():
        if present is None:
            n = 2 if flags[flag] else 1
        else:
            n = 1 if flags[flag] == present else 0
        if n:
            want[row] = (n, cat)
    new = sorted(k for k in found if k not in want)
    gone = sorted(k for k in want if k not in found)
    changed = sorted((k, want[k][0], found[k]) for k in found if k in want and want[k][0] != found[k])
    if new or gone or changed:
        raise ShapeError("iteration sites of dagrt/codegen differ from the vetted table: "
                         "new (unvetted) %r; vanished %r; multiplicity changed %r"
                         % (new[:6], gone[:6], changed[:6]))
    cats = Counter()
    for k, n in found.items():
        cats[want[k][1]] += n
    return dict(cats), sum(found.values())


# ------------------------------------------------------------------ exact shapes

def _body_src(fn):
    body = list(fn.body)
    if body and isinstance(body[0], ast.Expr) and isinstance(getattr(body[0], "value", None), ast.Constant) \
            and isinstance(body[0].value.value, str):
        body = body[1:]
    return [_src(s) for s in body]


def _expect(what, got, want):
    if got != want:
        raise ShapeError("%s: unrecognised shape\n got: %r\nwant: %r" % (what, got, want))


def _switch(what, got, variants):
    """variants: {flag value: expected}; exactly one must match."""
    for flag, want in variants.items():
        if got == want:
            return flag
    raise ShapeError("%s: unrecognised shape\n got: %r\nknown: %r" % (what, got, list(variants.values())))


def MAP_STATEMENT(it):
    return [
        "read_and_written = stmt.get_read_variables() & stmt.get_written_variables()",
        "if not read_and_written:\n    return [stmt]",
        "substs = []", "tmp_stmt_ids = []", "new_statements = []",
        "from pymbolic import var", "from dagrt.language import Assign",
        "for var_name in %s:\n"
        "    tmp_var_name = self.var_name_gen('temp_' + var_name.replace('<', '_').replace('>', '_'))\n"
        "    substs.append((var_name, var(tmp_var_name)))\n"
        "    tmp_stmt_id = self.stmt_id_gen('temp')\n"
        "    tmp_stmt_ids.append(tmp_stmt_id)\n"
        "    new_tmp_stmt = Assign(tmp_var_name, (), var(var_name), condition=stmt.condition, "
        "id=tmp_stmt_id, depends_on=stmt.depends_on)\n"
        "    new_statements.append(new_tmp_stmt)" % it,
        "from pymbolic import substitute",
        "new_stmt = stmt.map_expressions(lambda expr: substitute(expr, dict(substs)), include_lhs=False)"
        ".copy(depends_on=stmt.depends_on | frozenset(tmp_stmt_ids))",
        "new_statements.append(new_stmt)", "return new_statements"]


def EMIT_DEINIT(it):
    return [
        "from dagrt.utils import is_state_variable",
        "read_and_written = inst.get_read_variables() | inst.get_written_variables()",
        "for variable in %s:\n"
        "    try:\n"
        "        var_kind = self.sym_kind_table.get(self.current_function, variable)\n"
        "    except KeyError:\n"
        "        continue\n"
        "    last_used_stmt_id = self.last_used_stmt_table[variable, self.current_function]\n"
        "    if inst.id == last_used_stmt_id and (not is_state_variable(variable)):\n"
        "        self.emit_variable_deinit(variable, var_kind)" % it]


LAST_USE = [
    "tbl = {}",
    "for name, stmts in zip(names, statement_lists):\n"
    "    for statement in stmts:\n"
    "        read_and_written = statement.get_read_variables().union(statement.get_written_variables())\n"
    "        for variable in read_and_written:\n"
    "            tbl[variable, name] = statement.id",
    "return tbl"]


def PY_CALL(it):
    return [
        "from dagrt.codegen.analysis import verify_code", "verify_code(dag)",
        "from dagrt.codegen.dag_ast import create_ast_from_phase", "self.begin_emit(dag)",
        "for phase_name in %s:\n"
        "    ast = create_ast_from_phase(dag, phase_name)\n"
        "    self._pre_lower(ast)\n"
        "    self.lower_function(phase_name, ast)" % it,
        "self.finish_emit(dag)", "return self.get_code()"]


def PY_TABLE(it):
    return ("emit('self.phase_transition_table = ' + repr({phase_name: (phase.next_phase, "
            "BareExpression('self.phase_' + phase_name)) for phase_name, phase in %s}))" % it)


ARRAY_INIT_HEAD = [
    "self.element_type = element_type",
    "if isinstance(dimension, str):\n    dimension = tuple((d.strip() for d in dimension.split(',')))",
    "self.dimension = tuple((str(i) for i in dimension))"]
ARRAY_INIT_TAIL = [
    "if len(index_vars) != len(dimension):\n"
    "    raise ValueError(\"length of 'index_vars' does not match length of 'dimension'\")",
    "if not isinstance(element_type, TypeBase):\n"
    "    raise TypeError('element_type should be a subclass of TypeBase')",
    "if isinstance(element_type, PointerType):\n"
    "    raise TypeError('Arrays of pointers are not allowed in Fortran. You must declare an "
    "intermediate StructureType instead.')",
    "self.index_vars = index_vars"]
ARRAY_INDEX_COUNTER = (
    "if isinstance(index_vars, str):\n"
    "    index_vars = tuple((iv.strip() for iv in index_vars.split(',')))\n"
    "elif index_vars is None:\n\n"
    "    def get_index_var():\n"
    "        ArrayType.INDEX_VAR_COUNTER += 1\n"
    "        return 'i%d' % ArrayType.INDEX_VAR_COUNTER\n"
    "    index_vars = tuple((get_index_var() for d in dimension))")
ARRAY_INDEX_NESTED = (
    "if isinstance(index_vars, str):\n"
    "    index_vars = tuple((iv.strip() for iv in index_vars.split(',')))\n"
    "elif index_vars is None:\n"
    "    first = _count_nested_index_vars(element_type) + 1\n"
    "    index_vars = tuple(('i%d' % (first + i) for i in range(len(self.dimension))))")
COUNT_NESTED = [
    "if isinstance(fortran_type, ArrayType):\n"
    "    return len(fortran_type.dimension) + _count_nested_index_vars(fortran_type.element_type)\n"
    "elif isinstance(fortran_type, PointerType):\n"
    "    return _count_nested_index_vars(fortran_type.pointee_type)\n"
    "elif isinstance(fortran_type, StructureType):\n"
    "    return max((_count_nested_index_vars(member_type) for _, member_type in fortran_type.members), "
    "default=0)\n"
    "else:\n"
    "    return 0"]

PROCESS_AST = [
    "from dagrt.codegen.transform import eliminate_self_dependencies, expand_IfThenElse, "
    "isolate_function_arguments, isolate_function_calls",
    "ast = eliminate_self_dependencies(ast)", "ast = isolate_function_arguments(ast)",
    "ast = isolate_function_calls(ast)", "ast = expand_IfThenElse(ast)",
    "if print_ast:\n    print(ast)", "return ast"]

F_CALL_REQUIRED = [
    "for phase_name in sorted(dag.phases.keys()):\n"
    "    ast = create_ast_from_phase(dag, phase_name)\n"
    "    fdescrs.append(NameASTPair(phase_name, process_ast(ast)))",
    "self.last_used_stmt_table = var_to_last_dependent_statement_mapping("
    "[fd.name for fd in fdescrs], [get_statements_in_ast(fd.ast) for fd in fdescrs])",
    "for fdescr in sorted(fdescrs, key=lambda f_descr: f_descr.name):\n"
    "    self.lower_function(fdescr.name, fdescr.ast)"]

LOWER_FUNCTION_REQUIRED = [
    "self.lower_ast(ast)",
    "sym_table = self.sym_kind_table.per_phase_table.get(self.current_function, {})",
    "for identifier, sym_kind in sorted(sym_table.items()):\n"
    "    if (identifier, self.current_function) not in self.last_used_stmt_table:\n"
    "        self.emit_variable_deinit(identifier, sym_kind)"]


def shapes(repo):
    flags = {}
    tr = _parse(repo, CODEGEN + "/transform.py")
    got = _body_src(_find_def(_find_class(tr, "SelfDependencyEliminator"), "map_statement"))
    flags["selfdep_sorted"] = _switch(
        "transform.py SelfDependencyEliminator.map_statement", got,
        {False: MAP_STATEMENT("read_and_written"), True: MAP_STATEMENT("sorted(read_and_written)")})
    if _body_src(_find_def(tr, "eliminate_self_dependencies")) != \
            ["return apply_statement_rewriter(SelfDependencyEliminator, phase_ast)"]:
        raise ShapeError("transform.py eliminate_self_dependencies: unrecognised shape")

    fo = _parse(repo, CODEGEN + "/fortran.py")
    cg = _find_class(fo, "CodeGenerator")
    got = _body_src(_find_def(cg, "emit_deinit_for_last_usage_of_vars"))
    # the early return inside loop bodies added by the repair of C12 (176abb3) emits nothing and
    # does not iterate: irrelevant to the order of what is emitted
    if got and got[0] == "if self.for_loop_depth:\n    return":
        got = got[1:]
    flags["deinit_sorted"] = _switch(
        "fortran.py emit_deinit_for_last_usage_of_vars", got,
        {False: EMIT_DEINIT("read_and_written"), True: EMIT_DEINIT("sorted(read_and_written)")})

    an = _parse(repo, CODEGEN + "/analysis.py")
    _expect("analysis.py var_to_last_dependent_statement_mapping",
            _body_src(_find_def(an, "var_to_last_dependent_statement_mapping")), LAST_USE)

    # fortran.py __call__: sorted phases, the table, sorted lowering; process_ast's pass order
    call = _find_def(cg, "__call__")
    call_src = [_src(s) for s in call.body]
    for need in F_CALL_REQUIRED:
        if call_src.count(need) != 1:
            raise ShapeError("fortran.py CodeGenerator.__call__: expected exactly one statement %r" % need)
    pa = [n for n in call.body if isinstance(n, ast.FunctionDef) and n.name == "process_ast"]
    if len(pa) != 1:
        raise ShapeError("fortran.py CodeGenerator.__call__: process_ast not found")
    _expect("fortran.py process_ast", _body_src(pa[0]), PROCESS_AST)
    lf = [_src(s) for s in _find_def(cg, "lower_function").body]
    # since the repair of C12 (03cec4e) the exit label releases every local; still a sorted traversal
    EXIT_ALL = ("for identifier, sym_kind in sorted(sym_table.items()):\n"
                "    self.emit_variable_deinit(identifier, sym_kind)")
    flags["exit_deinit_all"] = EXIT_ALL in lf
    lf = [LOWER_FUNCTION_REQUIRED[2] if x == EXIT_ALL else x for x in lf]
    for need in LOWER_FUNCTION_REQUIRED:
        if lf.count(need) != 1:
            raise ShapeError("fortran.py lower_function: expected exactly one statement %r" % need)
    if not (lf.index(LOWER_FUNCTION_REQUIRED[0]) < lf.index(LOWER_FUNCTION_REQUIRED[1])
            < lf.index(LOWER_FUNCTION_REQUIRED[2])):
        raise ShapeError("fortran.py lower_function: unexpected order of body / deinit loop")

    # self.last_used_stmt_table is only assigned once and otherwise consulted by key
    uses = []
    parents = {}
    for node in ast.walk(fo):
        for ch in ast.iter_child_nodes(node):
            parents[ch] = node
    for node in ast.walk(fo):
        if isinstance(node, ast.Attribute) and node.attr == "last_used_stmt_table":
            par = parents[node]
            if isinstance(par, ast.Assign) and node in par.targets:
                uses.append("assign")
            elif isinstance(par, ast.Subscript) and par.value is node and isinstance(par.ctx, ast.Load):
                uses.append("getitem")
            elif isinstance(par, ast.Compare) and node in par.comparators \
                    and all(isinstance(o, (ast.In, ast.NotIn)) for o in par.ops):
                uses.append("contains")
            else:
                raise ShapeError("fortran.py: last_used_stmt_table used other than by key: %s" % _src(par))
    # (the `not in` test at the exit label disappeared with the repair of C12, 03cec4e)
    if sorted(uses) not in (["assign", "contains", "getitem"], ["assign", "getitem"]):
        raise ShapeError("fortran.py: unexpected uses of last_used_stmt_table %r" % uses)

    # ArrayType.__init__
    at = _find_class(fo, "ArrayType")
    got = _body_src(_find_def(at, "__init__"))
    if got[:3] != ARRAY_INIT_HEAD or got[4:] != ARRAY_INIT_TAIL or len(got) != 8:
        raise ShapeError("fortran.py ArrayType.__init__: unrecognised shape %r" % got)
    has_counter = any(isinstance(n, ast.Assign) and _src(n) == "INDEX_VAR_COUNTER = 0" for n in at.body)
    mentions = sum(1 for n in ast.walk(fo) if isinstance(n, ast.Attribute) and n.attr == "INDEX_VAR_COUNTER")
    if got[3] == ARRAY_INDEX_COUNTER and has_counter:
        flags["index_vars_from_counter"] = True
    elif got[3] == ARRAY_INDEX_NESTED and not has_counter and mentions == 0:
        cn = [n for n in fo.body if isinstance(n, ast.FunctionDef) and n.name == "_count_nested_index_vars"]
        if len(cn) != 1:
            raise ShapeError("fortran.py: _count_nested_index_vars not found")
        _expect("fortran.py _count_nested_index_vars", _body_src(cn[0]), COUNT_NESTED)
        flags["index_vars_from_counter"] = False
    else:
        raise ShapeError("fortran.py ArrayType.__init__: unrecognised default index_vars branch %r" % got[3])

    py = _parse(repo, CODEGEN + "/python.py")
    pcg = _find_class(py, "CodeGenerator")
    got = _body_src(_find_def(pcg, "__call__"))
    flags["py_phases_sorted"] = _switch(
        "python.py CodeGenerator.__call__", got,
        {False: PY_CALL("dag.phases.keys()"), True: PY_CALL("sorted(dag.phases.keys())")})
    ctor = [_src(s) for s in _find_def(pcg, "_emit_constructor").body]
    n_false, n_true = ctor.count(PY_TABLE("dag.phases.items()")), ctor.count(PY_TABLE("sorted(dag.phases.items())"))
    if (n_false, n_true) == (1, 0):
        flags["py_table_sorted"] = False
    elif (n_false, n_true) == (0, 1):
        flags["py_table_sorted"] = True
    else:
        raise ShapeError("python.py _emit_constructor: phase_transition_table statement not recognised")
    return flags


# ------------------------------------------------------------------ name mapping, vetted
#
# The identifiers of the generated text come from FortranNameManager / PythonNameManager, which
# delegate to KeyToUniqueNameMap -> make_identifier_from_name -> pytools.UniqueNameGenerator.
# Two fail-closed facts:
#
# (a) nowhere in dagrt/codegen/*.py: a call of hash() / id() / object.__hash__, a mention of
#     __hash__, or an import of a module whose results differ between processes (random, secrets,
#     uuid, time, datetime, os, socket, threading, multiprocessing, tempfile, hashlib is NOT in the
#     list: a digest of the text of a name is a function of the name);
# (b) closed world for the name-mapping definitions: every free name and every attribute they
#     mention is in the vetted list below (a new helper such as a truncating translate function,
#     a set()/set display/set comprehension, hash, id, sorted-less iteration helpers ... is a
#     ShapeError naming the definition and the new identifiers); the names they import are bound
#     by the expected `from ... import` only; `_ident_chars` has its exact text (a set used for
#     membership only).
#     pytools.UniqueNameGenerator itself is outside /repo (trusted, C13 models it).

PROCESS_DEPENDENT_MODULES = {"random", "secrets", "uuid", "time", "datetime", "os", "socket", "threading",
                             "multiprocessing", "tempfile", "weakref", "gc", "ctypes"}
PROCESS_DEPENDENT_CALLS = {"hash", "id", "object", "vars", "globals", "locals", "dir"}
# `object` / `vars` / `dir` ... never occur in dagrt/codegen today; listing them keeps
# `object.__hash__(x)`, `vars(x)` (dict of a namespace) and friends from slipping in unseen.

NAME_MAPPING_DEFS = {
    # file -> {top-level definition -> (free names loaded, attributes mentioned)}
    "fortran.py": {
        "_CaseInsensitiveUniqueNameGenerator": (
            {"UniqueNameGenerator", "any", "name", "existing", "self"},
            {"lower", "existing_names"}),
        "FortranNameManager": (
            {"KeyToUniqueNameMap", "_CaseInsensitiveUniqueNameGenerator", "is_state_variable", "self", "var",
             "prefix", "name", "qualified_with_state"},
            {"name_generator", "local_map", "global_map", "function_map", "get_or_make_name_for_key",
             "startswith", "get_mapped_identifier_without_key", "is_name_conflicting", "name_global",
             "name_local"}),
    },
    "python.py": {
        "PythonNameManager": (
            {"KeyToUniqueNameMap", "is_state_variable", "iter", "self", "name", "local", "function"},
            {"_local_map", "_global_map", "function_map", "get_or_make_name_for_key", "name_global",
             "name_local"}),
    },
    "utils.py": {
        "make_identifier_from_name": (
            {"_ident_chars", "c", "name", "result", "default_identifier"},
            {"join", "lstrip"}),
        "_KeyTranslatingUniqueNameGeneratorWrapper": (
            {"self", "generator", "translate", "name", "key"},
            {"_generator", "_translate", "add_name"}),
        "KeyToUniqueNameMap": (
            {"make_identifier_from_name", "UniqueNameGenerator", "_KeyTranslatingUniqueNameGeneratorWrapper",
             "dict", "iter", "TypeError", "KeyError", "self", "start", "forced_prefix", "key_translate_func",
             "name_generator", "existing_name", "key", "prefix", "seed", "new_name", "name"},
            {"_dict", "_generator", "values", "startswith", "forced_prefix", "add_name", "keys"}),
    },
}
NAME_MAPPING_IMPORTS = {
    # file -> {name -> module it must be imported from (and bound by nothing else at module level)}
    "fortran.py": {"KeyToUniqueNameMap": "dagrt.codegen.utils", "make_identifier_from_name": "dagrt.codegen.utils",
                   "UniqueNameGenerator": "pytools", "is_state_variable": "dagrt.utils"},
    "python.py": {"KeyToUniqueNameMap": "dagrt.codegen.utils", "is_state_variable": "dagrt.utils"},
    "utils.py": {"UniqueNameGenerator": "pytools", "ascii_letters": "string", "digits": "string"},
}
IDENT_CHARS = "_ident_chars = set('_' + ascii_letters + digits)"


def _bound_at_module_level(tree):
    """name -> list of descriptions of what binds it at module level"""
    out = {}
    for n in tree.body:
        if isinstance(n, ast.ImportFrom):
            for a in n.names:
                out.setdefault(a.asname or a.name, []).append("from %s" % n.module)
        elif isinstance(n, ast.Import):
            for a in n.names:
                out.setdefault((a.asname or a.name).split(".")[0], []).append("import %s" % a.name)
        elif isinstance(n, (ast.FunctionDef, ast.ClassDef)):
            out.setdefault(n.name, []).append("def")
        elif isinstance(n, (ast.Assign, ast.AnnAssign, ast.AugAssign)):
            targets = n.targets if isinstance(n, ast.Assign) else [n.target]
            for t in targets:
                for x in ast.walk(t):
                    if isinstance(x, ast.Name):
                        out.setdefault(x.id, []).append("assign")
    return out


def check_name_mapping(repo):
    """(a) and (b) above; returns counts for the generated comment."""
    d = os.path.join(repo, CODEGEN)
    hits = []
    for f in sorted(os.listdir(d)):
        if not f.endswith(".py"):
            continue
        tree = _parse(repo, CODEGEN + "/" + f)
        for n in ast.walk(tree):
            if isinstance(n, ast.Call) and isinstance(n.func, ast.Name) and n.func.id in PROCESS_DEPENDENT_CALLS:
                hits.append("%s:%d calls %s()" % (f, n.lineno, n.func.id))
            elif isinstance(n, ast.Attribute) and n.attr in ("__hash__", "__sizeof__"):
                hits.append("%s:%d mentions %s" % (f, n.lineno, n.attr))
            elif isinstance(n, ast.Name) and n.id in ("hash", "id") and isinstance(n.ctx, ast.Load):
                hits.append("%s:%d mentions %s" % (f, n.lineno, n.id))
            elif isinstance(n, ast.Import):
                for a in n.names:
                    if a.name.split(".")[0] in PROCESS_DEPENDENT_MODULES:
                        hits.append("%s:%d imports %s" % (f, n.lineno, a.name))
            elif isinstance(n, ast.ImportFrom) and (n.module or "").split(".")[0] in PROCESS_DEPENDENT_MODULES:
                hits.append("%s:%d imports from %s" % (f, n.lineno, n.module))
    if hits:
        raise ShapeError("dagrt/codegen uses something whose value differs between interpreter processes: %s"
                         % "; ".join(sorted(set(hits))[:8]))

    n_defs = 0
    for f, defs in NAME_MAPPING_DEFS.items():
        tree = _parse(repo, CODEGEN + "/" + f)
        bound = _bound_at_module_level(tree)
        for name, module in NAME_MAPPING_IMPORTS[f].items():
            if bound.get(name) != ["from %s" % module]:
                raise ShapeError("%s: %s is expected to be bound by `from %s import` only, found %r"
                                 % (f, name, module, bound.get(name)))
        for dname, (names_ok, attrs_ok) in defs.items():
            found = [n for n in tree.body if isinstance(n, (ast.FunctionDef, ast.ClassDef)) and n.name == dname]
            if len(found) != 1:
                raise ShapeError("%s: expected exactly one top-level definition %s, found %d"
                                 % (f, dname, len(found)))
            names, attrs, bad = set(), set(), []
            for n in ast.walk(found[0]):
                if isinstance(n, ast.Name) and isinstance(n.ctx, ast.Load):
                    names.add(n.id)
                elif isinstance(n, ast.Attribute):
                    attrs.add(n.attr)
                elif isinstance(n, (ast.Set, ast.SetComp, ast.Import, ast.ImportFrom, ast.Global, ast.Nonlocal,
                                    ast.Lambda)):
                    bad.append("%s at line %d" % (type(n).__name__, n.lineno))
            new_names, new_attrs = sorted(names - names_ok), sorted(attrs - attrs_ok)
            if new_names or new_attrs or bad:
                raise ShapeError("%s %s (name mapping): not vetted -- new names %r, new attributes %r, "
                                 "constructs %r" % (f, dname, new_names, new_attrs, bad))
            n_defs += 1
        if f == "utils.py":
            ic = [_src(n) for n in tree.body if isinstance(n, ast.Assign) and "_ident_chars" in _src(n)]
            if ic != [IDENT_CHARS]:
                raise ShapeError("utils.py: _ident_chars not recognised: %r" % ic)
    return n_defs


def generate(repo):
    flags = shapes(repo)
    cats, total = check_sites(repo, flags)
    n_name_defs = check_name_mapping(repo)
    out = [HEADER % "c15"]
    out.append("(* dagrt/codegen/transform.py SelfDependencyEliminator.map_statement *)")
    out.append("Definition selfdep_sorted : bool := %s." % coq_bool(flags["selfdep_sorted"]))
    out.append("(* dagrt/codegen/fortran.py CodeGenerator.emit_deinit_for_last_usage_of_vars *)")
    out.append("Definition deinit_sorted : bool := %s." % coq_bool(flags["deinit_sorted"]))
    out.append("(* lower_function: the exit label releases every local (repair of C12) *)")
    out.append("Definition exit_deinit_all : bool := %s." % coq_bool(flags["exit_deinit_all"]))
    out.append("(* dagrt/codegen/python.py CodeGenerator.__call__ / _emit_constructor *)")
    out.append("Definition py_phases_sorted : bool := %s." % coq_bool(flags["py_phases_sorted"]))
    out.append("Definition py_table_sorted : bool := %s." % coq_bool(flags["py_table_sorted"]))
    out.append("(* dagrt/codegen/fortran.py ArrayType.__init__ *)")
    out.append("Definition index_vars_from_counter : bool := %s." % coq_bool(flags["index_vars_from_counter"]))
    out.append("(* structural tie: %d iteration sites of dagrt/codegen/*.py outside the syntactic whitelist,"
               % total)
    out.append("   all vetted: %s *)" % ", ".join("%s %d" % kv for kv in sorted(cats.items())))
    out.append("(* name mapping: %d definitions (FortranNameManager, PythonNameManager, KeyToUniqueNameMap, "
               "make_identifier_from_name, ...) mention vetted names only; no hash()/id()/__hash__ and no "
               "process-dependent module anywhere in dagrt/codegen *)" % n_name_defs)
    return "\n".join(out) + "\n"
