"""Shape switches and declarative facts for C16 (dagrt/transform.py) -> coq/gen/GenC16.v

 * fuse_sw_thread : fuse_two_dags hands `should_disambiguate_name` on to fuse_two_phases
 * fuse_sw_pred   : fuse_two_phases hands its predicate on to pymbolic's disambiguate_identifiers,
                    default `not is_state_variable`
 * fuse_sw_guard  : the condition of the statements of the second method is renamed as well
 * fuse_sw_loopv  : the loop variables of the statements of the second method are renamed as well

Fail-closed: the two functions of dagrt/transform.py must be, statement for statement, one of the
shapes listed here; the `map_expressions` methods of dagrt/language.py the model mirrors must be the
expected text (in particular: no class maps `condition`, Assign leaves the loop identifier alone,
AssignFunctionCall goes through as_expression); the pymbolic / pytools functions the model mirrors
(third party, pinned in /venv) must hash to the recorded values so that a silent upgrade is noticed.
"""
import ast
import hashlib

from harness.tr import HEADER, ShapeError, _find_class, _find_def, _parse, _src, coq_bool, coq_string


def norm(fn):
    return "def %s(%s):\n" % (fn.name, _src(fn.args)) + "\n".join(
        _src(s) for s in fn.body if not (isinstance(s, ast.Expr) and isinstance(s.value, ast.Constant)))


PHASES_OLD = '''def fuse_two_phases(phase_name, phase1, phase2):
from dagrt.language import ExecutionPhase
if phase1 is not None and phase2 is not None:
    if phase1.next_phase != phase2.next_phase:
        raise ValueError("DAGs don't agree on default phase transition out of phase '%s'" % phase_name)
    from pymbolic.imperative.transform import disambiguate_and_fuse
    new_statements, _, old_2_id_to_new_2_id = disambiguate_and_fuse(phase1.statements, phase2.statements)
    return ExecutionPhase(name=phase1.name, next_phase=phase1.next_phase, statements=new_statements)
elif phase1 is not None:
    return phase1
elif phase2 is not None:
    return phase2
else:
    raise ValueError('both phases are None')'''

PHASES_NEW = '''def fuse_two_phases(phase_name, phase1, phase2, should_disambiguate_name=None):
from dagrt.language import ExecutionPhase
if phase1 is not None and phase2 is not None:
    if phase1.next_phase != phase2.next_phase:
        raise ValueError("DAGs don't agree on default phase transition out of phase '%s'" % phase_name)
    if should_disambiguate_name is None:
        from dagrt.utils import is_state_variable

        def should_disambiguate_name(name):
            return not is_state_variable(name)
    from pymbolic.imperative.transform import disambiguate_identifiers, fuse_statement_streams_with_unique_ids
    statements2, subst2 = disambiguate_identifiers(phase1.statements, phase2.statements, should_disambiguate_name)
    statements2 = [_rename_guard_and_loop_variables(stmt, subst2) for stmt in statements2]
    new_statements, _ = fuse_statement_streams_with_unique_ids(phase1.statements, statements2)
    return ExecutionPhase(name=phase1.name, next_phase=phase1.next_phase, statements=new_statements)
elif phase1 is not None:
    return phase1
elif phase2 is not None:
    return phase2
else:
    raise ValueError('both phases are None')'''

HELPER_NEW = '''def _rename_guard_and_loop_variables(stmt, subst):
from pymbolic.mapper.substitutor import SubstitutionMapper, make_subst_func
subst_map = SubstitutionMapper(make_subst_func(subst))
new_fields = {}
if hasattr(stmt, 'condition'):
    new_fields['condition'] = subst_map(stmt.condition)
if getattr(stmt, 'loops', None):
    new_fields['loops'] = [(subst[ident].name if ident in subst else ident, start, end) for ident, start, end in stmt.loops]
return stmt.copy(**new_fields)'''

DAGS = '''def fuse_two_dags(dag1, dag2, phase_correspondences=None, should_disambiguate_name=None):
from dagrt.language import DAGCode
new_phases = {}
for phase_name in frozenset(dag1.phases) | frozenset(dag2.phases):
    phase1 = dag1.phases.get(phase_name)
    phase2 = dag2.phases.get(phase_name)
    new_phases[phase_name] = fuse_two_phases(%s)
if dag1.initial_phase != dag2.initial_phase:
    raise ValueError("DAGs don't agree on initial phase")
return DAGCode(new_phases, dag1.initial_phase)'''
DAGS_OLD = DAGS % "phase_name, phase1, phase2"
DAGS_NEW = DAGS % "phase_name, phase1, phase2, should_disambiguate_name"

MAP_EXPRESSIONS = {
    "StatementBase": '''def map_expressions(self, mapper, include_lhs=True):
return self''',
    "AssignBase": '''def map_expressions(self, mapper, include_lhs=True):
return super().map_expressions(mapper, include_lhs=include_lhs).copy(lhs=mapper(self.lhs) if include_lhs else self.lhs, rhs=mapper(self.rhs))''',
    "Assign": '''def map_expressions(self, mapper, include_lhs=True):
return super().map_expressions(mapper, include_lhs=include_lhs).copy(loops=[(ident, mapper(start), mapper(end)) for ident, start, end in self.loops])''',
    "AssignFunctionCall": '''def map_expressions(self, mapper, include_lhs=True):
from pymbolic.primitives import CallWithKwargs, Variable
mapped_expr = mapper(self.as_expression())
assert isinstance(mapped_expr, CallWithKwargs)
if include_lhs:
    lhss = tuple((mapper(Variable(assignee)) for assignee in self.assignees))
    assert all((isinstance(lhs, Variable) for lhs in lhss))
    assignees = tuple((lhs.name for lhs in lhss))
else:
    assignees = self.assignees
return super().map_expressions(mapper, include_lhs=include_lhs).copy(assignees=assignees, function_id=mapped_expr.function.name, parameters=mapped_expr.parameters, kw_parameters=mapped_expr.kw_parameters)''',
    "YieldState": '''def map_expressions(self, mapper, include_lhs=True):
return super().map_expressions(mapper, include_lhs=include_lhs).copy(expression=mapper(self.expression), time=mapper(self.time))''',
}
# classes of dagrt/language.py that define map_expressions at all (the two not modelled are not
# produced by the builder: ConditionalAssignment is pymbolic copy-pasta, AssignImplicit cannot be executed)
MAP_EXPRESSIONS_CLASSES = sorted(list(MAP_EXPRESSIONS) + ["ConditionalAssignment", "AssignImplicit"])

AS_EXPRESSION = '''def as_expression(self):
from pymbolic.primitives import CallWithKwargs, Variable
return CallWithKwargs(Variable(self.function_id), parameters=self.parameters, kw_parameters=immutabledict(self.kw_parameters))'''

BASES = {"Assign": ["Statement", "AssignBase"], "Statement": ["ConditionalStatementBase"],
         "ConditionalStatementBase": ["StatementBase"], "AssignBase": ["StatementBase"],
         "AssignFunctionCall": ["AssignmentBase"], "AssignmentBase": ["Statement"],
         "YieldState": ["Statement"], "Raise": ["Statement"], "SwitchPhase": ["Statement"],
         "FailStep": ["Statement"], "Nop": ["NopBase"], "NopBase": ["StatementBase"]}

# third party (pymbolic 2025.1, pytools): sha256 of the normalised source, first 16 hex digits
THIRD_PARTY = {
    ("pymbolic.imperative.transform", None, "fuse_statement_streams_with_unique_ids"): "9c0ef98b10f9053f",
    ("pymbolic.imperative.transform", None, "disambiguate_identifiers"): "de970b8ac0827542",
    ("pymbolic.imperative.transform", None, "disambiguate_and_fuse"): "6d8f81e6555f5adc",
    ("pymbolic.imperative.analysis", None, "get_all_used_identifiers"): "21aab303d8a4c89d",
    ("pytools", None, "generate_numbered_unique_names"): "aea2d3b93da714e5",
    ("pytools", "UniqueNameGenerator", "__call__"): "6e826f5fbc96c032",
    ("pymbolic.mapper.substitutor", None, "make_subst_func"): "d7d32a3a913e3442",
}
SUBSTITUTION_MAPPER = "f810337131d80f54"
COUNTER_RE = r"^(?P<based_on>\w+)_(?P<counter>\d+)$"


def _h(text):
    return hashlib.sha256(text.encode()).hexdigest()[:16]


def third_party():
    import importlib
    for (mod, cls, fn), want in THIRD_PARTY.items():
        m = importlib.import_module(mod)
        tree = ast.parse(open(m.__file__).read())
        node = _find_def(_find_class(tree, cls) if cls else tree, fn)
        got = _h(norm(node))
        if got != want:
            raise ShapeError("%s.%s%s: source changed (hash %s, expected %s)" % (mod, cls + "." if cls else "", fn,
                                                                                got, want))
    import pymbolic.mapper.substitutor as ps
    tree = ast.parse(open(ps.__file__).read())
    c = _find_class(tree, "SubstitutionMapper")
    got = _h("\n".join(norm(n) for n in c.body if isinstance(n, ast.FunctionDef)))
    if got != SUBSTITUTION_MAPPER:
        raise ShapeError("pymbolic SubstitutionMapper: source changed (hash %s)" % got)
    import pytools
    if pytools.UNIQUE_NAME_GEN_COUNTER_RE.pattern != COUNTER_RE:
        raise ShapeError("pytools.UNIQUE_NAME_GEN_COUNTER_RE changed: %r" % pytools.UNIQUE_NAME_GEN_COUNTER_RE.pattern)


def switches(repo):
    tr = _parse(repo, "dagrt/transform.py")
    defs = {n.name: n for n in tr.body if isinstance(n, ast.FunctionDef)}
    if "fuse_two_phases" not in defs or "fuse_two_dags" not in defs:
        raise ShapeError("transform.py: fuse_two_phases / fuse_two_dags not found")
    ph = norm(defs["fuse_two_phases"])
    if ph == PHASES_OLD:
        if set(defs) != {"fuse_two_phases", "fuse_two_dags"}:
            raise ShapeError("transform.py: unexpected functions %r" % sorted(defs))
        pred = guard = loopv = False
    elif ph == PHASES_NEW:
        if set(defs) != {"fuse_two_phases", "fuse_two_dags", "_rename_guard_and_loop_variables"}:
            raise ShapeError("transform.py: unexpected functions %r" % sorted(defs))
        if norm(defs["_rename_guard_and_loop_variables"]) != HELPER_NEW:
            raise ShapeError("transform.py _rename_guard_and_loop_variables: unrecognised body:\n"
                             + norm(defs["_rename_guard_and_loop_variables"]))
        pred = guard = loopv = True
    else:
        raise ShapeError("transform.py fuse_two_phases: unrecognised body:\n" + ph)
    dg = norm(defs["fuse_two_dags"])
    if dg == DAGS_OLD:
        thread = False
    elif dg == DAGS_NEW:
        thread = True
    else:
        raise ShapeError("transform.py fuse_two_dags: unrecognised body:\n" + dg)
    if thread and not pred:
        raise ShapeError("transform.py: fuse_two_dags passes a predicate that fuse_two_phases does not accept")
    return thread, pred, guard, loopv


def language_facts(repo):
    lang = _parse(repo, "dagrt/language.py")
    classes = {c.name: c for c in lang.body if isinstance(c, ast.ClassDef)}
    have = sorted(name for name, c in classes.items()
                  if any(isinstance(n, ast.FunctionDef) and n.name == "map_expressions" for n in c.body))
    if have != MAP_EXPRESSIONS_CLASSES:
        raise ShapeError("language.py: classes defining map_expressions are %r, expected %r"
                         % (have, MAP_EXPRESSIONS_CLASSES))
    for cls, want in MAP_EXPRESSIONS.items():
        got = norm(_find_def(classes[cls], "map_expressions"))
        if got != want:
            raise ShapeError("language.py %s.map_expressions: unrecognised body:\n%s" % (cls, got))
    if norm(_find_def(classes["AssignFunctionCall"], "as_expression")) != AS_EXPRESSION:
        raise ShapeError("language.py AssignFunctionCall.as_expression: unrecognised body")
    for k, v in BASES.items():
        got = [_src(b) for b in classes[k].bases] if k in classes else None
        if got != v:
            raise ShapeError("language.py: class %s has bases %r, expected %r" % (k, got, v))


def generate(repo):
    thread, pred, guard, loopv = switches(repo)
    language_facts(repo)
    third_party()
    out = [HEADER % "c16"]
    out.append("(* dagrt/transform.py fuse_two_dags / fuse_two_phases *)")
    out.append("Definition fuse_sw_thread : bool := %s." % coq_bool(thread))
    out.append("Definition fuse_sw_pred : bool := %s." % coq_bool(pred))
    out.append("Definition fuse_sw_guard : bool := %s." % coq_bool(guard))
    out.append("Definition fuse_sw_loopv : bool := %s." % coq_bool(loopv))
    out.append("(* pytools.UNIQUE_NAME_GEN_COUNTER_RE (mirrored by Fuse.counter_match) *)")
    out.append("Definition ung_counter_re : string := %s." % coq_string(COUNTER_RE))
    return "\n".join(out) + "\n"
