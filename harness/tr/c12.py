"""Shape facts for C12 -> coq/gen/GenC12.v

The Coq model coq/model/Refcount.v mirrors the memory-management decisions of
dagrt/codegen/fortran.py (CodeGenerator) and dagrt/codegen/analysis.py.  Every function that
carries one of these decisions is matched against its exact expected text (ast.unparse of its
body, docstring aside; harness/tr/c12_shapes.json is the committed snapshot of the expected
texts); anything else is a ShapeError (fail-closed: the check then reports the broken tie and
searches for a failing input with the ASan oracle).  Four places have two recognised shapes:

  exit_deinit_all = false <-> lower_function, after label 999:
                                for identifier, sym_kind in sorted(sym_table.items()):
                                    if (identifier, self.current_function) not in self.last_used_stmt_table:
                                        self.emit_variable_deinit(identifier, sym_kind)
                    true  <-> the same loop without the `if`     (fixes/C12_exit_deinit_all.patch)

  loop_skip_deinit = false <-> emit_deinit_for_last_usage_of_vars emits wherever it is called
                     true  <-> it starts with `if self.for_loop_depth: return`, emit_for_begin /
                               emit_for_end count the depth, __init__ sets it to 0
                                                                  (fixes/C12_loop_last_use.patch)

  stmt_cond_wrapped = false <-> lower_inst: "! {{{", super().lower_inst(inst), "! }}}" (statement.condition ignored)
                      true  <-> the call is bracketed by `if inst.condition is not True:
                                self.emit_if_begin(inst.condition)` / `...: self.emit_if_end()`
                                                                  (repair of C03, commit 9d87c11)
                      The theorems hold for both shapes; the switch keeps the correspondence exact.

  deinit_order_sorted (harness only; the model takes the order as part of its input):
                     false <-> `for variable in read_and_written:`          (set iteration order)
                     true  <-> `for variable in sorted(read_and_written):`

Regenerate the snapshot from an UNFIXED tree only:  python -m harness.tr.c12 --snapshot <repo>
"""
import ast
import json
import os

from harness.tr import HEADER, ShapeError, _find_class, _find_def, _parse, _src, coq_bool

SNAPSHOT = os.path.join(os.path.dirname(os.path.abspath(__file__)), "c12_shapes.json")

CG_WHOLE = ["emit_user_type_move", "emit_assign_expr", "emit_inst_Assign", "emit_return",
            "emit_inst_FailStep", "emit_inst_SwitchPhase", "emit_inst_YieldState", "emit_variable_init",
            "emit_variable_deinit", "emit_allocation_check", "emit_allocate_refcount",
            "emit_refcounted_allocation", "emit_shutdown", "lower_inst", "emit_if_begin", "emit_if_end"]

LOOP_GUARD = "if self.for_loop_depth:\n    return"
EXIT_LOOP_OLD = ("for identifier, sym_kind in sorted(sym_table.items()):\n"
                 "    if (identifier, self.current_function) not in self.last_used_stmt_table:\n"
                 "        self.emit_variable_deinit(identifier, sym_kind)")
EXIT_LOOP_NEW = ("for identifier, sym_kind in sorted(sym_table.items()):\n"
                 "    self.emit_variable_deinit(identifier, sym_kind)")
ENTRY_INIT_LOOP = ("for identifier, sym_kind in sorted(sym_table.items()):\n"
                   "    self.emit_variable_init(identifier, sym_kind)")
GLOBAL_INIT_LOOP = ("for sym, sym_kind in sorted(self.sym_kind_table.global_table.items()):\n"
                    "    self.emit_variable_init(sym, sym_kind)")
INIT_SYMBOLS = ("init_symbols = sorted((sym for sym in self.sym_kind_table.global_table "
                "if not sym.startswith('<ret')))")


def _body_src(fn):
    body = list(fn.body)
    if body and isinstance(body[0], ast.Expr) and isinstance(getattr(body[0], "value", None), ast.Constant) \
            and isinstance(body[0].value.value, str):
        body = body[1:]
    return [_src(s) for s in body]


def extract(repo):
    f = _parse(repo, "dagrt/codegen/fortran.py")
    cg = _find_class(f, "CodeGenerator")
    out = {}
    for name in CG_WHOLE + ["emit_deinit_for_last_usage_of_vars", "emit_for_begin", "emit_for_end"]:
        out["CodeGenerator." + name] = _body_src(_find_def(cg, name))
    out["DeallocationEmitter.visit_PointerType"] = _body_src(
        _find_def(_find_class(f, "DeallocationEmitter"), "visit_PointerType"))
    out["InitializationEmitter.visit_PointerType"] = _body_src(
        _find_def(_find_class(f, "InitializationEmitter"), "visit_PointerType"))
    out["analysis.var_to_last_dependent_statement_mapping"] = _body_src(
        _find_def(_parse(repo, "dagrt/codegen/analysis.py"), "var_to_last_dependent_statement_mapping"))
    out["StructuredCodeGenerator.lower_ast"] = _body_src(
        _find_def(_find_class(_parse(repo, "dagrt/codegen/codegen_base.py"), "StructuredCodeGenerator"),
                  "lower_ast"))
    out["utils.is_state_variable"] = _body_src(_find_def(_parse(repo, "dagrt/utils.py"), "is_state_variable"))
    out["dag_ast.get_statements_in_ast"] = _body_src(
        _find_def(_parse(repo, "dagrt/codegen/dag_ast.py"), "get_statements_in_ast"))
    # the allocation-check and deinit routines
    be = _find_def(cg, "begin_emit")
    out["CodeGenerator.begin_emit[memory routines]"] = [
        _src(s) for s in be.body if isinstance(s, ast.For) and "utype_id" in _src(s.target)]
    # lower_function from the lowering of the tree to the exit-label loop
    lf = [_src(s) for s in _find_def(cg, "lower_function").body]
    if "self.lower_ast(ast)" not in lf:
        raise ShapeError("fortran.py lower_function: self.lower_ast(ast) not found")
    i = lf.index("self.lower_ast(ast)")
    out["CodeGenerator.lower_function[label 999]"] = lf[i:i + 4]
    # pieces of larger functions
    afc = _body_src(_find_def(cg, "emit_inst_AssignFunctionCall"))
    out["CodeGenerator.emit_inst_AssignFunctionCall[allocation checks, last statement]"] = \
        [s for s in afc if s.startswith("for assignee_sym in inst.assignees:")] + afc[-1:]
    db = _find_def(cg, "emit_def_begin")
    inits = [_src(s) for n in ast.walk(db) if isinstance(n, ast.If) and _src(n.test) == "phase_id is not None"
             for s in n.body if isinstance(s, ast.For)]
    out["CodeGenerator.emit_def_begin[loops under phase_id]"] = inits
    ei = _body_src(_find_def(cg, "emit_initialize"))
    out["CodeGenerator.emit_initialize[init_symbols, nullify]"] = \
        [s for s in ei if s.startswith("init_symbols =") or s == GLOBAL_INIT_LOOP]
    init = _find_def(cg, "__init__")
    out["CodeGenerator.__init__[for_loop_depth]"] = [_src(s) for s in init.body if "for_loop_depth" in _src(s)]
    return out


def partial_flags(repo):
    """(switches, errors): switches = dict(exit_deinit_all, loop_skip_deinit, deinit_order_sorted,
    stmt_cond_wrapped) with None for a switch whose source shape is not recognised; errors = texts of the
    shapes that were not recognised (empty <=> the tie holds).  Used by the check to keep comparing
    behaviour when the tie is broken (only the unknown switches are then tried both ways)."""
    want = json.load(open(SNAPSHOT))
    got = extract(repo)
    if set(got) != set(want):
        raise ShapeError("c12: key sets differ")
    errors = []

    def expect(key, w=None):
        if got[key] != (want[key] if w is None else w):
            errors.append("%s: unrecognised shape\n got: %r\nwant: %r"
                          % (key, got[key], want[key] if w is None else w))
            return False
        return True

    variant = {"CodeGenerator.emit_deinit_for_last_usage_of_vars", "CodeGenerator.emit_for_begin",
               "CodeGenerator.emit_for_end", "CodeGenerator.lower_function[label 999]",
               "CodeGenerator.__init__[for_loop_depth]", "CodeGenerator.lower_inst"}
    for key in want:
        if key not in variant:
            expect(key)
    # lower_inst: since the repair of C03 (9d87c11) a statement that carries its own condition (made by
    # expand_IfThenElse from `a if c else b`) is wrapped in `if (condition)`: the memory operations of the
    # statement and its last-use releases (both emitted by emit_inst_<T>, reached through
    # super().lower_inst) sit inside that `if`, the markers outside.  Model switch sw_stmt_cond.
    k = "CodeGenerator.lower_inst"
    cond_wrapped = [want[k][0], want[k][1], "if inst.condition is not True:\n    self.emit_if_begin(inst.condition)",
                    want[k][2], "if inst.condition is not True:\n    self.emit_if_end()"] + want[k][3:]
    stmt_cond = None
    if got[k] == cond_wrapped and cond_wrapped != want[k]:
        stmt_cond = True
    elif got[k] == want[k]:
        stmt_cond = False
    else:
        expect(k)
    # exit label
    k = "CodeGenerator.lower_function[label 999]"
    exit_all = None
    if got[k] == want[k]:
        exit_all = False
    elif got[k] == [EXIT_LOOP_NEW if s == EXIT_LOOP_OLD else s for s in want[k]]:
        exit_all = True
    else:
        expect(k)
    if EXIT_LOOP_OLD not in want[k]:
        raise ShapeError("c12_shapes.json was not taken from an unfixed tree")
    # last-use deinit: loop guard and iteration order
    k = "CodeGenerator.emit_deinit_for_last_usage_of_vars"
    body = list(got[k])
    loop_skip = bool(body) and body[0] == LOOP_GUARD
    if loop_skip:
        body = body[1:]
    plain = list(want[k])
    srt = [s.replace("for variable in read_and_written:", "for variable in sorted(read_and_written):")
           for s in plain]
    order_sorted = None
    if body == plain:
        order_sorted = False
    elif body == srt and srt != plain:
        order_sorted = True
    else:
        expect(k)
        loop_skip = None
        # best effort for the comparison of behaviour only (the tie is reported as broken)
        order_sorted = any("for variable in sorted(read_and_written):" in s for s in body)
    fb, fe, ini = ("CodeGenerator.emit_for_begin", "CodeGenerator.emit_for_end",
                   "CodeGenerator.__init__[for_loop_depth]")
    if loop_skip:
        ok = [expect(fb, want[fb] + ["self.for_loop_depth += 1"]),
              expect(fe, ["self.for_loop_depth -= 1"] + want[fe]),
              expect(ini, ["self.for_loop_depth = 0"])]
    else:
        ok = [expect(fb), expect(fe), expect(ini)]
    if not all(ok):
        loop_skip = None
    return ({"exit_deinit_all": exit_all, "loop_skip_deinit": loop_skip, "deinit_order_sorted": order_sorted,
             "stmt_cond_wrapped": stmt_cond}, errors)


def flags(repo):
    """(exit_deinit_all, loop_skip_deinit, deinit_order_sorted, stmt_cond_wrapped); raises ShapeError."""
    sw, errors = partial_flags(repo)
    if errors:
        raise ShapeError("\n".join(errors))
    return (sw["exit_deinit_all"], sw["loop_skip_deinit"], sw["deinit_order_sorted"], sw["stmt_cond_wrapped"])


def generate(repo):
    exit_all, loop_skip, order_sorted, stmt_cond = flags(repo)
    out = [HEADER % "c12"]
    out.append("(* dagrt/codegen/fortran.py CodeGenerator.lower_function, loop after label 999 *)")
    out.append("Definition exit_deinit_all : bool := %s." % coq_bool(exit_all))
    out.append("(* CodeGenerator.emit_deinit_for_last_usage_of_vars / emit_for_begin / emit_for_end *)")
    out.append("Definition loop_skip_deinit : bool := %s." % coq_bool(loop_skip))
    out.append("(* CodeGenerator.lower_inst: a statement with a condition of its own is wrapped in `if (condition)` *)")
    out.append("Definition stmt_cond_wrapped : bool := %s." % coq_bool(stmt_cond))
    out.append("(* iteration order of the last-use deinits (used by the harness only) *)")
    out.append("Definition deinit_order_sorted : bool := %s." % coq_bool(order_sorted))
    return "\n".join(out) + "\n"


if __name__ == "__main__":
    import sys
    if len(sys.argv) == 3 and sys.argv[1] == "--snapshot":
        snap = extract(sys.argv[2])
        if EXIT_LOOP_OLD not in snap["CodeGenerator.lower_function[label 999]"] or \
                snap["CodeGenerator.__init__[for_loop_depth]"]:
            raise SystemExit("the snapshot must be taken from an unfixed tree")
        with open(SNAPSHOT, "w") as fh:
            json.dump(snap, fh, indent=1, sort_keys=True)
            fh.write("\n")
        print("wrote", SNAPSHOT)
    else:
        print(generate(sys.argv[1] if len(sys.argv) > 1 else "/repo"))
