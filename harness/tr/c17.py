"""Facts for C17 (dagrt/expression.py _ExtendedUnifier, match; pymbolic's unifier) -> coq/gen/GenC17.v

Extracted: the identity elements dagrt's map_sum / map_product hand to map_modulo_identity.
Fail-closed: the remaining text of _ExtendedUnifier.{map_call, map_modulo_identity, map_sum, map_product}
and of match(), and the pinned third-party functions the model mirrors (pymbolic's UnificationRecord,
unify_map, unify_many, UnifierBase.map_variable/map_constant/map_quotient/map_power/
unification_record_from_equation, UnidirectionalUnifier.map_commut_assoc, flattened_sum,
flattened_product, FlattenMapper), must be exactly the shapes the model was written against
(compared by a hash of the docstring-free ast dump).
"""
import ast
import hashlib
import os

from harness.tr import HEADER, ShapeError, _find_class, _find_def, _parse

# sha256[:16] of ast.dump of the docstring-free function, identity constants replaced by a placeholder
EXPECTED = {
    "dagrt:_ExtendedUnifier.map_call": "1980c4b14fb16da4",
    "dagrt:_ExtendedUnifier.map_modulo_identity": "d31269732198b78d",
    "dagrt:_ExtendedUnifier.map_sum": "1030d265ffed9768",
    "dagrt:_ExtendedUnifier.map_product": "84b8989d93f3aa75",
    "dagrt:match": "ad350464d0dbb4dc",
    "pymbolic:unify_map": "983e3e201875c2f0",
    "pymbolic:UnificationRecord.__init__": "f2f5c97849886f21",
    "pymbolic:UnificationRecord.unify": "94e949c56af7e215",
    "pymbolic:unify_many": "985cea7c2622636c",
    "pymbolic:UnifierBase.unification_record_from_equation": "cca4664ec1e555bf",
    "pymbolic:UnifierBase.map_constant": "734adf0dcbd56c23",
    "pymbolic:UnifierBase.map_variable": "31b6efcc2a77375e",
    "pymbolic:UnifierBase.map_quotient": "4fd071eb8ca10fca",
    "pymbolic:UnifierBase.map_power": "aaa102ec62c987b6",
    "pymbolic:UnifierBase.__call__": "51ff0ad7eea212f9",
    "pymbolic:UnidirectionalUnifier.map_commut_assoc": "271403486f426ee9",
    "pymbolic:UnidirectionalUnifier.map_sum": "7aa2875b369e7e66",
    "pymbolic:UnidirectionalUnifier.map_product": "d2469539d1b2caab",
    "pymbolic:flattened_sum": "f7359d1bdc3969a1",
    "pymbolic:flattened_product": "667d136efc6bb8d0",
    "pymbolic:FlattenMapper.map_sum": "697d741b6525b938",
    "pymbolic:FlattenMapper.map_product": "ea413f5b5e81af5b",
    "pymbolic:FlattenMapper.map_quotient": "ad5d1749c32817ae",
    "pymbolic:FlattenMapper.map_power": "62521c59529e2bcc",
}


def _strip_doc(fn):
    fn = ast.parse(ast.unparse(fn)).body[0]
    if fn.body and isinstance(fn.body[0], ast.Expr) and isinstance(fn.body[0].value, ast.Constant) \
            and isinstance(fn.body[0].value.value, str):
        fn.body = fn.body[1:] or [ast.Pass()]
    fn.decorator_list = []
    fn.returns = None
    for a in ast.walk(fn):
        if isinstance(a, ast.arg):
            a.annotation = None
    return fn


def _digest(fn):
    return hashlib.sha256(ast.dump(_strip_doc(fn)).encode()).hexdigest()[:16]


def _lookup(tree, dotted):
    node = tree
    parts = dotted.split(".")
    for i, p in enumerate(parts):
        if i < len(parts) - 1:
            node = _find_class(node, p)
        else:
            node = _find_def(node, p)
    return node


def _pymbolic_tree(rel):
    import pymbolic
    path = os.path.join(os.path.dirname(pymbolic.__file__), rel)
    with open(path) as f:
        return ast.parse(f.read(), filename=path)


def _id_element(fn, which):
    """map_sum/map_product: `mapper = super().map_X; return self.map_modulo_identity(expr, other, urecs, mapper, <int>)`.
    Returns the int and replaces it by a placeholder (so the rest of the text is hashed)."""
    ret = fn.body[-1]
    if not (isinstance(ret, ast.Return) and isinstance(ret.value, ast.Call) and len(ret.value.args) == 5):
        raise ShapeError("expression.py _ExtendedUnifier.%s: expected return self.map_modulo_identity(.., id)" % which)
    c = ret.value.args[4]
    if not (isinstance(c, ast.Constant) and type(c.value) is int):
        raise ShapeError("expression.py _ExtendedUnifier.%s: identity element is not an int literal" % which)
    val = c.value
    ret.value.args[4] = ast.Name(id="ID_ELEMENT", ctx=ast.Load())
    return val


def digests(repo):
    out = {}
    tree = _parse(repo, "dagrt/expression.py")
    ids = {}
    for name in ("map_call", "map_modulo_identity", "map_sum", "map_product"):
        fn = _lookup(tree, "_ExtendedUnifier." + name)
        fn = ast.parse(ast.unparse(fn)).body[0]
        if name in ("map_sum", "map_product"):
            ids[name] = _id_element(fn, name)
        out["dagrt:_ExtendedUnifier." + name] = _digest(fn)
    cls = _find_class(tree, "_ExtendedUnifier")
    alias = [n for n in cls.body if isinstance(n, ast.Assign) and ast.unparse(n) == "map_call_with_kwargs = map_call"]
    if len(alias) != 1:
        raise ShapeError("expression.py _ExtendedUnifier: expected map_call_with_kwargs = map_call")
    defs = sorted(n.name for n in cls.body if isinstance(n, ast.FunctionDef))
    if defs != ["map_call", "map_modulo_identity", "map_product", "map_sum"]:
        raise ShapeError("expression.py _ExtendedUnifier: unexpected set of methods %r" % defs)
    if [ast.unparse(b) for b in cls.bases] != ["UnidirectionalUnifier"]:
        raise ShapeError("expression.py _ExtendedUnifier: unexpected base classes")
    out["dagrt:match"] = _digest(_lookup(tree, "match"))
    uni = _pymbolic_tree("mapper/unifier.py")
    for dotted in ("unify_map", "UnificationRecord.__init__", "UnificationRecord.unify", "unify_many",
                   "UnifierBase.unification_record_from_equation", "UnifierBase.map_constant",
                   "UnifierBase.map_variable", "UnifierBase.map_quotient", "UnifierBase.map_power",
                   "UnifierBase.__call__", "UnidirectionalUnifier.map_commut_assoc",
                   "UnidirectionalUnifier.map_sum", "UnidirectionalUnifier.map_product"):
        out["pymbolic:" + dotted] = _digest(_lookup(uni, dotted))
    prim = _pymbolic_tree("primitives.py")
    for dotted in ("flattened_sum", "flattened_product"):
        out["pymbolic:" + dotted] = _digest(_lookup(prim, dotted))
    flat = _pymbolic_tree("mapper/flattener.py")
    for dotted in ("FlattenMapper.map_sum", "FlattenMapper.map_product", "FlattenMapper.map_quotient",
                   "FlattenMapper.map_power"):
        out["pymbolic:" + dotted] = _digest(_lookup(flat, dotted))
    return out, ids


def generate(repo):
    got, ids = digests(repo)
    for k in sorted(EXPECTED):
        if got.get(k) != EXPECTED[k]:
            raise ShapeError("%s: source shape is not the one the model Match.v mirrors (digest %s, expected %s)"
                             % (k, got.get(k), EXPECTED[k]))
    out = [HEADER % "c17"]
    out.append("(* dagrt/expression.py _ExtendedUnifier.map_sum / map_product: id_element *)")
    out.append("Definition c17_sum_id : Z := (%d)%%Z." % ids["map_sum"])
    out.append("Definition c17_prod_id : Z := (%d)%%Z." % ids["map_product"])
    return "\n".join(out) + "\n"


if __name__ == "__main__":
    import sys
    d, ids = digests(sys.argv[1] if len(sys.argv) > 1 else "/repo")
    for k in EXPECTED:
        print('    "%s": "%s",' % (k, d[k]))
    print(ids)
