"""Facts and the case-folding shape switch for C13 -> coq/gen/GenC13.v

Read off the working tree (fail-closed, exact shapes):
  dagrt/codegen/utils.py   _ident_chars, make_identifier_from_name, KeyToUniqueNameMap and its wrapper
  dagrt/codegen/python.py  PythonNameManager (prefixes, start map), identifier tokens the generator emits
  dagrt/codegen/fortran.py FortranNameManager (prefixes, start map, which unique-name generator), entry points,
                           identifiers in the generator's own "dagrt_" name space
  dagrt/utils.py           is_state_variable
  pytools (pinned in /venv) UniqueNameGenerator.__call__/add_name/is_name_conflicting,
                           generate_numbered_unique_names, UNIQUE_NAME_GEN_COUNTER_RE  (recorded: the model
                           hard-codes their semantics; a silent upgrade is noticed here)
  keyword.kwlist           Python's reserved words (a fact about the target language)

Method: every string constant of a matched function is replaced by a placeholder S<i>; the remaining text
(ast.unparse, docstring dropped) must equal the expected template exactly; the constants are the facts.
"""
import ast
import importlib.util
import keyword
import re
import string

from harness.tr import HEADER, ShapeError, _find_class, _find_def, _parse, coq_bool, coq_string, coq_string_list


# ------------------------------------------------------------------ helpers

def _body(fn):
    body = fn.body
    if body and isinstance(body[0], ast.Expr) and isinstance(body[0].value, ast.Constant) \
            and isinstance(body[0].value.value, str):
        body = body[1:]
    return body


class _Abstract(ast.NodeTransformer):
    def __init__(self):
        self.consts = []

    def visit_Constant(self, node):
        if isinstance(node.value, str):
            self.consts.append(node.value)
            return ast.copy_location(ast.Name(id="S%d" % (len(self.consts) - 1), ctx=ast.Load()), node)
        return node

    def visit_JoinedStr(self, node):  # f-strings are kept verbatim
        return node


def _match(fn, template, what, args=None):
    """Return the string constants of fn's body if its shape is `template`."""
    import copy
    ab = _Abstract()
    text = "\n".join(ast.unparse(ab.visit(copy.deepcopy(s))) for s in _body(fn))
    if text != template:
        raise ShapeError("%s: unrecognised body\n--- found\n%s\n--- expected\n%s" % (what, text, template))
    if args is not None:
        got = ast.unparse(fn.args)
        if got != args:
            raise ShapeError("%s: unrecognised signature %r (expected %r)" % (what, got, args))
    return ab.consts


def _exact(fn, expected, what, args=None):
    text = "\n".join(ast.unparse(s) for s in _body(fn))
    if text != expected:
        raise ShapeError("%s: unrecognised body\n--- found\n%s\n--- expected\n%s" % (what, text, expected))
    if args is not None and ast.unparse(fn.args) != args:
        raise ShapeError("%s: unrecognised signature %r" % (what, ast.unparse(fn.args)))


def _module_def(tree, name):
    for n in tree.body:
        if isinstance(n, ast.FunctionDef) and n.name == name:
            return n
    raise ShapeError("def %s not found" % name)


def _imports(tree, module, names, where):
    got = set()
    for n in where:
        if isinstance(n, ast.ImportFrom) and n.module == module and n.level == 0:
            got |= {a.name for a in n.names if a.asname is None}
    missing = [x for x in names if x not in got]
    if missing:
        raise ShapeError("expected `from %s import %s`" % (module, ", ".join(missing)))


# ------------------------------------------------------------------ dagrt/codegen/utils.py

MAKE_IDENT = ("result = S0.join([c if c in _ident_chars else S1 for c in name])\n"
              "result = result.lstrip(S2)\n"
              "if not result:\n    result = default_identifier\n"
              "return result")
K2U_INIT = ("if start is None:\n    start = {}\n"
            "self._dict = dict(start)\n"
            "if name_generator is None:\n    name_generator = UniqueNameGenerator(forced_prefix=forced_prefix)\n"
            "elif forced_prefix:\n    raise TypeError(S0)\n"
            "for existing_name in start.values():\n"
            "    if existing_name.startswith(name_generator.forced_prefix):\n"
            "        name_generator.add_name(existing_name)\n"
            "self._generator = _KeyTranslatingUniqueNameGeneratorWrapper(name_generator, key_translate_func)")
K2U_GET = ("try:\n    return self._dict[key]\nexcept KeyError:\n    seed = key\n"
           "    if prefix is not None:\n        seed = prefix + seed\n"
           "    new_name = self._generator(seed)\n    self._dict[key] = new_name\n    return new_name")


def utils_facts(repo):
    tree = _parse(repo, "dagrt/codegen/utils.py")
    _imports(tree, "string", ["ascii_letters", "digits"], tree.body)
    _imports(tree, "pytools", ["UniqueNameGenerator"], tree.body)
    ic = [n for n in tree.body if isinstance(n, ast.Assign) and len(n.targets) == 1
          and ast.unparse(n.targets[0]) == "_ident_chars"]
    if len(ic) != 1 or ast.unparse(ic[0].value) != "set('_' + ascii_letters + digits)":
        raise ShapeError("utils.py: expected _ident_chars = set('_' + ascii_letters + digits)")
    ident_chars = "_" + string.ascii_letters + string.digits
    fn = _module_def(tree, "make_identifier_from_name")
    c = _match(fn, MAKE_IDENT, "utils.py make_identifier_from_name")
    if c != ["", "_", "_"]:
        raise ShapeError("utils.py make_identifier_from_name: unexpected constants %r" % (c,))
    if [a.arg for a in fn.args.args] != ["name", "default_identifier"] or len(fn.args.defaults) != 1 \
            or not isinstance(fn.args.defaults[0], ast.Constant) or not isinstance(fn.args.defaults[0].value, str):
        raise ShapeError("utils.py make_identifier_from_name: unexpected signature")
    default = fn.args.defaults[0].value
    w = _find_class(tree, "_KeyTranslatingUniqueNameGeneratorWrapper")
    _exact(_find_def(w, "__init__"), "self._generator = generator\nself._translate = translate", "wrapper.__init__")
    _exact(_find_def(w, "add_name"), "return self._generator.add_name(name)", "wrapper.add_name")
    _exact(_find_def(w, "__call__"), "return self._generator(self._translate(key))", "wrapper.__call__")
    k = _find_class(tree, "KeyToUniqueNameMap")
    _match(_find_def(k, "__init__"), K2U_INIT, "KeyToUniqueNameMap.__init__",
           args="self, start=None, forced_prefix='', key_translate_func=make_identifier_from_name, "
                "name_generator=None")
    _exact(_find_def(k, "get_or_make_name_for_key"), K2U_GET, "KeyToUniqueNameMap.get_or_make_name_for_key",
           args="self, key, prefix=None")
    _exact(_find_def(k, "get_mapped_identifier_without_key"), "return self._generator(name)",
           "KeyToUniqueNameMap.get_mapped_identifier_without_key")
    return ident_chars, default


# ------------------------------------------------------------------ dagrt/utils.py

def state_facts(repo):
    tree = _parse(repo, "dagrt/utils.py")
    fn = _module_def(tree, "is_state_variable")
    body = _body(fn)
    if len(body) != 1 or not isinstance(body[0], ast.If):
        raise ShapeError("utils.py is_state_variable: expected one if/elif/else")
    top = body[0]

    def ret(stmts, val):
        return len(stmts) == 1 and isinstance(stmts[0], ast.Return) and isinstance(stmts[0].value, ast.Constant) \
            and stmts[0].value.value is val

    t = top.test
    if not (isinstance(t, ast.Compare) and len(t.ops) == 1 and isinstance(t.ops[0], ast.In)
            and ast.unparse(t.left) == "var" and isinstance(t.comparators[0], ast.Tuple)
            and all(isinstance(e, ast.Constant) and isinstance(e.value, str) for e in t.comparators[0].elts)
            and ret(top.body, True)):
        raise ShapeError("utils.py is_state_variable: first test is not `var in (<strings>)`")
    exact = [e.value for e in t.comparators[0].elts]
    if not (len(top.orelse) == 1 and isinstance(top.orelse[0], ast.If)):
        raise ShapeError("utils.py is_state_variable: expected elif")
    el = top.orelse[0]
    if not (ret(el.body, True) and ret(el.orelse, False)):
        raise ShapeError("utils.py is_state_variable: unexpected branches")
    tests = el.test.values if isinstance(el.test, ast.BoolOp) and isinstance(el.test.op, ast.Or) else [el.test]
    prefixes = []
    for c in tests:
        if not (isinstance(c, ast.Call) and ast.unparse(c.func) == "var.startswith" and len(c.args) == 1
                and not c.keywords and isinstance(c.args[0], ast.Constant) and isinstance(c.args[0].value, str)):
            raise ShapeError("utils.py is_state_variable: disjunct is not var.startswith(<string>)")
        prefixes.append(c.args[0].value)
    return exact, prefixes


# ------------------------------------------------------------------ tokens the generators emit on their own

def _own_tokens(tree, skip_class):
    doc, skip = set(), set()
    for n in ast.walk(tree):
        if isinstance(n, (ast.Module, ast.ClassDef, ast.FunctionDef)) and n.body and isinstance(n.body[0], ast.Expr) \
                and isinstance(n.body[0].value, ast.Constant) and isinstance(n.body[0].value.value, str):
            doc.add(id(n.body[0].value))
        if isinstance(n, ast.ClassDef) and n.name == skip_class:
            skip |= {id(m) for m in ast.walk(n)}
    out = set()
    for n in ast.walk(tree):
        if isinstance(n, ast.Constant) and isinstance(n.value, str) and id(n) not in doc and id(n) not in skip:
            out.update(re.findall(r"[A-Za-z_][A-Za-z0-9_]*", n.value))
    return sorted(out)


# ------------------------------------------------------------------ dagrt/codegen/python.py

PY_INIT = ("self._local_map = KeyToUniqueNameMap(forced_prefix=S0)\n"
           "self._global_map = KeyToUniqueNameMap(forced_prefix=S1, start={S2: S4, S3: S5})\n"
           "self.function_map = KeyToUniqueNameMap(forced_prefix=S6)")


def python_facts(repo):
    tree = _parse(repo, "dagrt/codegen/python.py")
    _imports(tree, "dagrt.codegen.utils", ["KeyToUniqueNameMap"], tree.body)
    _imports(tree, "dagrt.utils", ["is_state_variable"], tree.body)
    m = _find_class(tree, "PythonNameManager")
    c = _match(_find_def(m, "__init__"), PY_INIT, "PythonNameManager.__init__", args="self")
    c2 = _match(_find_def(m, "clear_locals"),
                "del self._local_map\nself._local_map = KeyToUniqueNameMap(forced_prefix=S0)",
                "PythonNameManager.clear_locals", args="self")
    if c2 != [c[0]]:
        raise ShapeError("PythonNameManager.clear_locals: prefix differs from __init__")
    _exact(_find_def(m, "name_global"), "return self._global_map.get_or_make_name_for_key(name)", "py name_global")
    _exact(_find_def(m, "name_local"), "return self._local_map.get_or_make_name_for_key(local)", "py name_local")
    _exact(_find_def(m, "name_function"), "return self.function_map.get_or_make_name_for_key(function)",
           "py name_function")
    _exact(_find_def(m, "__getitem__"),
           "if is_state_variable(name):\n    return self.name_global(name)\nelse:\n    return self.name_local(name)",
           "py __getitem__")
    return dict(local=c[0], glob=c[1], start=[(c[2], c[4]), (c[3], c[5])], func=c[6],
                tokens=_own_tokens(tree, "PythonNameManager"))


# ------------------------------------------------------------------ dagrt/codegen/fortran.py

F_INIT_PLAIN = ("from pytools import UniqueNameGenerator\n"
                "self.name_generator = UniqueNameGenerator()\n")
F_INIT_FOLD = "self.name_generator = _CaseInsensitiveUniqueNameGenerator()\n"
F_INIT_REST = ("self.local_map = KeyToUniqueNameMap(name_generator=self.name_generator)\n"
               "self.global_map = KeyToUniqueNameMap(start={S0: S2, S1: S3}, name_generator=self.name_generator)\n"
               "self.function_map = KeyToUniqueNameMap(name_generator=self.name_generator)")
F_FOLD_CONFLICT = ("name = name.lower()\n"
                   "return any((name == existing.lower() for existing in self.existing_names))")
F_LOCAL = ("if prefix is None:\n    if not var.startswith(S0):\n        prefix = S1\n"
           "return self.local_map.get_or_make_name_for_key(var, prefix=prefix)")
F_GETITEM = ("if is_state_variable(name):\n    return S0 + self.name_global(name)\n"
             "else:\n    return self.name_local(name)")
F_REFCOUNT = ("if is_state_variable(name):\n    if qualified_with_state:\n"
              "        return S0 + self.name_global(name)\n    else:\n        return S1 + self.name_global(name)\n"
              "else:\n    return self.name_local(S2 + name)")


def fortran_facts(repo):
    tree = _parse(repo, "dagrt/codegen/fortran.py")
    _imports(tree, "dagrt.codegen.utils", ["KeyToUniqueNameMap"], tree.body)
    _imports(tree, "dagrt.utils", ["is_state_variable"], tree.body)
    m = _find_class(tree, "FortranNameManager")
    init = _find_def(m, "__init__")
    import copy
    ab = _Abstract()
    text = "\n".join(ast.unparse(ab.visit(copy.deepcopy(s))) for s in _body(init))
    if text == F_INIT_PLAIN + F_INIT_REST:
        fold = False
    elif text == F_INIT_FOLD + F_INIT_REST:
        fold = True
        _imports(tree, "pytools", ["UniqueNameGenerator"], tree.body)
        g = _find_class(tree, "_CaseInsensitiveUniqueNameGenerator")
        if [ast.unparse(b) for b in g.bases] != ["UniqueNameGenerator"] or g.keywords or g.decorator_list:
            raise ShapeError("fortran.py _CaseInsensitiveUniqueNameGenerator: unexpected bases")
        members = [n for n in _body(g)]
        if len(members) != 1 or not isinstance(members[0], ast.FunctionDef) \
                or members[0].name != "is_name_conflicting":
            raise ShapeError("fortran.py _CaseInsensitiveUniqueNameGenerator: expected exactly is_name_conflicting")
        _exact(members[0], F_FOLD_CONFLICT, "_CaseInsensitiveUniqueNameGenerator.is_name_conflicting",
               args="self, name")
    else:
        raise ShapeError("FortranNameManager.__init__: unrecognised body\n%s" % text)
    if ast.unparse(init.args) != "self":
        raise ShapeError("FortranNameManager.__init__: unexpected signature")
    start = [(ab.consts[0], ab.consts[2]), (ab.consts[1], ab.consts[3])]
    _exact(_find_def(m, "name_global"), "return self.global_map.get_or_make_name_for_key(var)", "f name_global")
    internal, local = _match(_find_def(m, "name_local"), F_LOCAL, "f name_local", args="self, var, prefix=None")
    _exact(_find_def(m, "name_function"), "return self.function_map.get_or_make_name_for_key(var)", "f name_function")
    (uniq,) = _match(_find_def(m, "make_unique_fortran_name"),
                     "return self.local_map.get_mapped_identifier_without_key(S0 + prefix)",
                     "f make_unique_fortran_name", args="self, prefix")
    _exact(_find_def(m, "is_known_fortran_name"), "return self.name_generator.is_name_conflicting(name)",
           "f is_known_fortran_name")
    (qual,) = _match(_find_def(m, "__getitem__"), F_GETITEM, "f __getitem__", args="self, name")
    q_ref, ref, ref2 = _match(_find_def(m, "name_refcount"), F_REFCOUNT, "f name_refcount",
                              args="self, name, qualified_with_state=True")
    if ref2 != ref or q_ref != qual + ref:
        raise ShapeError("f name_refcount: inconsistent prefixes %r %r %r (qualifier %r)" % (q_ref, ref, ref2, qual))
    # entry points of the generated module: `function_name = "<literal>"` in CodeGenerator
    cg = _find_class(tree, "CodeGenerator")
    entry = sorted({n.value.value for n in ast.walk(cg) if isinstance(n, ast.Assign) and len(n.targets) == 1
                    and ast.unparse(n.targets[0]) == "function_name" and isinstance(n.value, ast.Constant)
                    and isinstance(n.value.value, str)})
    if not entry:
        raise ShapeError("fortran.py CodeGenerator: no `function_name = <literal>` entry points found")
    own = [t for t in _own_tokens(tree, "FortranNameManager") if t.lower().startswith(internal.lower())]
    return dict(fold=fold, start=start, internal=internal, local=local, uniq=uniq, qual=qual, ref=ref,
                entry=entry, own=own)


# ------------------------------------------------------------------ pytools (pinned third party)

PT_CONFLICT = "return name in self.existing_names"
PT_ADD = ("if not conflicting_ok and self.is_name_conflicting(name):\n"
          "    raise ValueError(f\"name '{name}' conflicts with existing names\")\n"
          "if not name.startswith(self.forced_prefix):\n"
          "    raise ValueError(f\"name '{name}' does not start with required prefix '{self.forced_prefix}'\")\n"
          "self.existing_names.add(name)\nself._name_added(name)")
PT_CALL = ("based_on = self.forced_prefix + based_on\n"
           "counter = self.prefix_to_counter.get(based_on, None)\n"
           "if counter is None:\n"
           "    counter_match = UNIQUE_NAME_GEN_COUNTER_RE.match(based_on)\n"
           "    if counter_match:\n"
           "        based_on = counter_match.groupdict()['based_on']\n"
           "        counter = int(counter_match.groupdict()['counter'])\n"
           "var_name = None\n"
           "for try_counter, try_var_name in generate_numbered_unique_names(based_on, counter, "
           "self.forced_suffix):\n"
           "    if not self.is_name_conflicting(try_var_name):\n"
           "        counter = try_counter\n        var_name = try_var_name\n        break\n"
           "if counter is None or var_name is None:\n"
           "    raise ValueError('could not find a non-conflicting name')\n"
           "self.prefix_to_counter[based_on] = counter\n"
           "var_name = intern(var_name)\n"
           "self.existing_names.add(var_name)\nself._name_added(var_name)\nreturn var_name")
PT_NUMBERED = ("if num is None:\n    yield (0, prefix + suffix)\n    num = 0\n"
               "while True:\n    name = f'{prefix}_{num}{suffix}'\n    num += 1\n    yield (num, name)")
PT_INIT = ("if existing_names is None:\n    existing_names = set()\n"
           "self.existing_names = set(existing_names)\nself.forced_prefix = forced_prefix\n"
           "self.forced_suffix = forced_suffix\nself.prefix_to_counter = {}")
PT_RE = "re.compile('^(?P<based_on>\\\\w+)_(?P<counter>\\\\d+)$')"


def pytools_facts():
    spec = importlib.util.find_spec("pytools")
    if spec is None or not spec.origin:
        raise ShapeError("pytools not importable")
    with open(spec.origin) as f:
        tree = ast.parse(f.read())
    g = _find_class(tree, "UniqueNameGenerator")
    _exact(_find_def(g, "__init__"), PT_INIT, "pytools UniqueNameGenerator.__init__")
    _exact(_find_def(g, "is_name_conflicting"), PT_CONFLICT, "pytools is_name_conflicting")
    _exact(_find_def(g, "add_name"), PT_ADD, "pytools add_name")
    _exact(_find_def(g, "__call__"), PT_CALL, "pytools UniqueNameGenerator.__call__")
    _exact(_module_def(tree, "generate_numbered_unique_names"), PT_NUMBERED, "pytools generate_numbered_unique_names")
    res = [n for n in tree.body if isinstance(n, ast.Assign) and len(n.targets) == 1
           and ast.unparse(n.targets[0]) == "UNIQUE_NAME_GEN_COUNTER_RE"]
    if len(res) != 1 or ast.unparse(res[0].value) != PT_RE:
        raise ShapeError("pytools UNIQUE_NAME_GEN_COUNTER_RE: unexpected pattern")
    return "^(?P<based_on>\\w+)_(?P<counter>\\d+)$"


# ------------------------------------------------------------------ output

def _pairs(l):
    return "[" + "; ".join("(%s, %s)" % (coq_string(a), coq_string(b)) for a, b in l) + "]"


def _ascii_only(*strs):
    for s in strs:
        if any(ord(ch) > 126 or ord(ch) < 32 for ch in s):
            raise ShapeError("non-printable or non-ASCII character in extracted constant %r" % s)


def generate(repo):
    ident_chars, default = utils_facts(repo)
    exact, prefixes = state_facts(repo)
    py = python_facts(repo)
    ft = fortran_facts(repo)
    pattern = pytools_facts()
    _ascii_only(ident_chars, default, py["local"], py["glob"], py["func"], ft["internal"], ft["local"], ft["uniq"],
                ft["qual"], ft["ref"], *exact, *prefixes, *py["tokens"], *ft["own"], *ft["entry"],
                *[x for p in py["start"] + ft["start"] for x in p])
    out = [HEADER % "c13"]
    o = out.append
    o("(* dagrt/codegen/utils.py *)")
    o("Definition ident_chars : string := %s." % coq_string(ident_chars))
    o("Definition default_identifier : string := %s." % coq_string(default))
    o("(* dagrt/utils.py is_state_variable *)")
    o("Definition state_exact : list string := %s." % coq_string_list(exact))
    o("Definition state_prefixes : list string := %s." % coq_string_list(prefixes))
    o("(* dagrt/codegen/python.py PythonNameManager *)")
    o("Definition py_local_prefix : string := %s." % coq_string(py["local"]))
    o("Definition py_global_prefix : string := %s." % coq_string(py["glob"]))
    o("Definition py_function_prefix : string := %s." % coq_string(py["func"]))
    o("Definition py_global_start : list (string * string) := %s." % _pairs(py["start"]))
    o("(* identifier tokens in the string constants of python.py outside PythonNameManager (docstrings excluded):")
    o("   an over-approximation of the names the Python generator emits on its own *)")
    o("Definition py_own_tokens : list string := %s." % coq_string_list(py["tokens"]))
    o("(* keyword.kwlist of the interpreter running the generated code *)")
    o("Definition py_keywords : list string := %s." % coq_string_list(list(keyword.kwlist)))
    o("(* dagrt/codegen/fortran.py FortranNameManager *)")
    o("Definition f_global_start : list (string * string) := %s." % _pairs(ft["start"]))
    o("Definition f_internal_prefix : string := %s." % coq_string(ft["internal"]))
    o("Definition f_local_prefix : string := %s." % coq_string(ft["local"]))
    o("Definition f_unique_prefix : string := %s." % coq_string(ft["uniq"]))
    o("Definition f_state_qualifier : string := %s." % coq_string(ft["qual"]))
    o("Definition f_refcnt_prefix : string := %s." % coq_string(ft["ref"]))
    o("(* shape switch: true iff the Fortran manager's generator compares names case-insensitively *)")
    o("Definition fortran_casefold : bool := %s." % coq_bool(ft["fold"]))
    o("(* `function_name = <literal>` entry points in fortran.py CodeGenerator *)")
    o("Definition f_entry_points : list string := %s." % coq_string_list(ft["entry"]))
    o("(* tokens of fortran.py's string constants in the generator's own name space (start with the internal prefix) *)")
    o("Definition f_own_tokens : list string := %s." % coq_string_list(ft["own"]))
    o("(* pytools (pinned): the model hard-codes this pattern's meaning *)")
    o("Definition pytools_counter_re : string := %s." % coq_string(pattern))
    return "\n".join(out) + "\n"
