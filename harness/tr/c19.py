"""Facts for C19 (print/parse round trip) -> coq/gen/GenC19.v

Read off the working tree (dagrt/expression.py) and the pinned third-party sources the
property is anchored in (pymbolic/mapper/stringifier.py, pymbolic/parser.py, pytools/lex.py):

* the printer's precedence constants PREC_* and the parser's _PREC_* (numbers);
* the table of pymbolic's parse_postfix: for every binary operator token the constant the
  enclosing min_precedence is compared with and the constant the right operand is parsed at
  (this is where `*` parses its right operand at _PREC_PLUS and `**` at _PREC_TIMES);
* the alphabet of the back-tick identifier regexp in dagrt.expression._hack_lex_table;
* everything else the model mirrors by hand is pinned by the hash of its `ast.dump`
  (fail-closed: any edit of a mirrored function raises ShapeError, the check then reports the
  broken tie).  The pins were taken from pymbolic 2025.1 / pytools as installed in /venv and
  from dagrt at the commit the model was written against.
"""
import ast
import hashlib
import importlib.util
import os

from harness.tr import HEADER, ShapeError, _find_class, _find_def, coq_string

PRINTER_CONSTS = ["PREC_CALL", "PREC_POWER", "PREC_UNARY", "PREC_PRODUCT", "PREC_SUM", "PREC_COMPARISON",
                  "PREC_LOGICAL_AND", "PREC_LOGICAL_OR", "PREC_IF", "PREC_NONE"]
PARSER_CONSTS = ["_PREC_COMMA", "_PREC_IF", "_PREC_LOGICAL_OR", "_PREC_LOGICAL_AND", "_PREC_COMPARISON",
                 "_PREC_PLUS", "_PREC_TIMES", "_PREC_UNARY", "_PREC_POWER", "_PREC_CALL"]

# token tag in parse_postfix -> name used in GenC19.v
POSTFIX_TAGS = {"_plus": "plus", "_minus": "minus", "_times": "times", "_floordiv": "floordiv", "_over": "over",
                "_modulo": "modulo", "_power": "power", "_and": "and", "_or": "or", "_COMP_TABLE": "cmp"}

# ---- pins (sha256 of ast.dump, 16 hex digits) -------------------------------------------
PINS = {
    "stringifier.py": {
        "StringifyMapper.format": "615bf9dd3b516f59",
        "StringifyMapper.join_rec": "3528318bac0d0e3b",
        "StringifyMapper.rec_with_parens_around_types": "462a8469745068f1",
        "StringifyMapper.join_rec_with_parens_around_types": "50f85a2d9a775b11",
        "StringifyMapper.parenthesize": "a5d043e7893db81d",
        "StringifyMapper.parenthesize_if_needed": "9b47199355562394",
        "StringifyMapper.map_constant": "38e2d3fb247dc4b4",
        "StringifyMapper.map_variable": "a35900934c4a333a",
        "StringifyMapper.map_call": "783aed840c806b8f",
        "StringifyMapper.map_call_with_kwargs": "feecf6b2beccb779",
        "StringifyMapper.map_subscript": "abe23f18f4869732",
        "StringifyMapper.map_sum": "f09e1067ee85494b",
        "StringifyMapper.map_product": "6d7a6078a5bc53e8",
        "StringifyMapper.map_quotient": "523e4e048041111a",
        "StringifyMapper.map_floor_div": "2ee45a8ae8d69ebb",
        "StringifyMapper.map_remainder": "b7107270be33f6c7",
        "StringifyMapper.map_power": "c7d574da93a13dcf",
        "StringifyMapper.map_comparison": "811a88f7c621a936",
        "StringifyMapper.map_logical_not": "f9de4fbda8d2b82e",
        "StringifyMapper.map_logical_or": "a987b857abb636f9",
        "StringifyMapper.map_logical_and": "f412b08299c3c0be",
        "StringifyMapper.map_if": "5bcb6eb72b4d9083",
        "StringifyMapper.map_tuple": "ea83436e8d349c93",
        "StringifyMapper.multiplicative_primitives": "b07ed4180c85a455"
    },
    "parser.py": {
        "Parser.lex_table": "cbbfb2c669a7bf73",
        "Parser._COMP_TABLE": "e9791f0fb5f63abf",
        "Parser.parse_terminal": "a28fbdc856118cae",
        "Parser.parse_prefix": "b54291e2a9bb4c57",
        "Parser.parse_expression": "9aa6a98e9466e0ab",
        "Parser.parse_arith_expression": "3918f4ad839458da",
        "Parser.parse_postfix": "53081a92a1f23167",
        "Parser.parse_arglist": "90c36efbfffad1da",
        "Parser.__call__": "dc66162c89eccbe0"
    },
    "primitives.py": {
        "ExpressionNode.__neg__": "253504d54b95300a",
        "ExpressionNode.__rmul__": "57f4d48b5aee0827",
        "is_arithmetic_expression": "02c89d1d4e51fba7",
        "is_valid_operand": "547c553a63f7ff7f"
    },
    "lex.py": {
        "_matches_rule": "dfc593059cb356c8",
        "lex": "309f994fd51a3d5a",
        "LexIterator": "8bda583541ae8614"
    },
    "expression.py": {
        "_hack_lex_table": "4a5be7641ed36519",
        "_ExtendedParser": "7ed5659428c66e45",
        "parse": None
    }
}


def _dump_hash(node):
    return hashlib.sha256(ast.dump(node).encode()).hexdigest()[:16]


def _module_path(modname):
    spec = importlib.util.find_spec(modname)
    if spec is None or not spec.origin:
        raise ShapeError("module %s not found" % modname)
    return spec.origin


def _parse_file(path):
    with open(path) as f:
        return ast.parse(f.read(), filename=path)


def _lookup(tree, dotted):
    parts = dotted.split(".")
    node = tree
    for i, part in enumerate(parts):
        found = None
        for n in node.body:
            if isinstance(n, (ast.FunctionDef, ast.ClassDef)) and n.name == part:
                found = n
            elif isinstance(n, ast.Assign) and len(n.targets) == 1 and isinstance(n.targets[0], ast.Name) \
                    and n.targets[0].id == part:
                found = n
            elif isinstance(n, ast.AnnAssign) and isinstance(n.target, ast.Name) and n.target.id == part:
                found = n
        if found is None:
            raise ShapeError("%s not found" % dotted)
        node = found
    return node


def _int_consts(tree, names, where):
    out = {}
    for n in tree.body:
        if isinstance(n, ast.Assign) and len(n.targets) == 1 and isinstance(n.targets[0], ast.Name) \
                and n.targets[0].id in names:
            if not (isinstance(n.value, ast.Constant) and type(n.value.value) is int and n.value.value >= 0):
                raise ShapeError("%s: %s is not a non-negative int literal" % (where, n.targets[0].id))
            if n.targets[0].id in out:
                raise ShapeError("%s: %s assigned twice" % (where, n.targets[0].id))
            out[n.targets[0].id] = n.value.value
    missing = [x for x in names if x not in out]
    if missing:
        raise ShapeError("%s: constants %r not found" % (where, missing))
    return out


def files(repo):
    pym = os.path.dirname(_module_path("pymbolic"))
    return {
        "stringifier.py": os.path.join(pym, "mapper", "stringifier.py"),
        "parser.py": os.path.join(pym, "parser.py"),
        "primitives.py": os.path.join(pym, "primitives.py"),
        "lex.py": os.path.join(os.path.dirname(_module_path("pytools")), "lex.py"),
        "expression.py": os.path.join(repo, "dagrt", "expression.py"),
    }


def current_pins(repo):
    out = {}
    for fn, path in files(repo).items():
        tree = _parse_file(path)
        out[fn] = {name: _dump_hash(_lookup(tree, name)) for name in PINS[fn]}
    return out


def postfix_table(tree):
    """(tag, threshold constant, right-operand constant) for the binary operators of parse_postfix."""
    fn = _find_def(_find_class(tree, "Parser"), "parse_postfix")
    chain = [n for n in fn.body if isinstance(n, ast.If)]
    if len(chain) != 1:
        raise ShapeError("parse_postfix: expected exactly one if/elif chain")
    node = chain[0]
    table = {}
    while True:
        test = node.test
        if not (isinstance(test, ast.BoolOp) and isinstance(test.op, ast.And) and len(test.values) == 2):
            raise ShapeError("parse_postfix: branch test is not `tag-test and min_precedence < C`")
        tagtest, cmp_ = test.values
        if isinstance(tagtest, ast.Compare) and len(tagtest.ops) == 1 and isinstance(tagtest.ops[0], ast.Is) \
                and isinstance(tagtest.comparators[0], ast.Name):
            tag = tagtest.comparators[0].id
        elif isinstance(tagtest, ast.Compare) and len(tagtest.ops) == 1 and isinstance(tagtest.ops[0], ast.In) \
                and ast.unparse(tagtest.comparators[0]) == "self._COMP_TABLE":
            tag = "_COMP_TABLE"
        else:
            raise ShapeError("parse_postfix: unrecognised tag test %s" % ast.unparse(tagtest))
        if not (isinstance(cmp_, ast.Compare) and isinstance(cmp_.left, ast.Name) and cmp_.left.id == "min_precedence"
                and len(cmp_.ops) == 1 and isinstance(cmp_.comparators[0], ast.Name)):
            raise ShapeError("parse_postfix: unrecognised precedence test %s" % ast.unparse(cmp_))
        strict = isinstance(cmp_.ops[0], ast.Lt)
        if not strict and not (tag == "_colon" and isinstance(cmp_.ops[0], ast.LtE)):
            raise ShapeError("parse_postfix: non-strict precedence test for %s" % tag)
        thr = cmp_.comparators[0].id
        if tag in POSTFIX_TAGS:
            rhs = [c for c in ast.walk(ast.Module(body=node.body, type_ignores=[]))
                   if isinstance(c, ast.Call) and isinstance(c.func, ast.Attribute)
                   and c.func.attr in ("parse_expression", "parse_arith_expression")]
            if len(rhs) != 1 or len(rhs[0].args) != 2 or not isinstance(rhs[0].args[1], ast.Name):
                raise ShapeError("parse_postfix: branch %s does not parse exactly one right operand" % tag)
            arith = rhs[0].func.attr == "parse_arith_expression"
            expected_arith = tag in ("_plus", "_minus", "_times", "_floordiv", "_over", "_modulo", "_power")
            if arith != expected_arith:
                raise ShapeError("parse_postfix: branch %s arithmetic assertion changed" % tag)
            if tag in table:
                raise ShapeError("parse_postfix: two branches for %s" % tag)
            table[tag] = (thr, rhs[0].args[1].id)
        if len(node.orelse) == 1 and isinstance(node.orelse[0], ast.If):
            node = node.orelse[0]
        elif not node.orelse:
            break
        else:
            raise ShapeError("parse_postfix: chain ends in an else branch")
    missing = [t for t in POSTFIX_TAGS if t not in table]
    if missing:
        raise ShapeError("parse_postfix: no branch for %r" % missing)
    return table


def backtick_alphabet(tree):
    fn = _lookup(tree, "_hack_lex_table")
    res = [n for n in ast.walk(fn) if isinstance(n, ast.Call) and ast.unparse(n.func) == "pytools.lex.RE"]
    if len(res) != 1 or len(res[0].args) != 1 or not isinstance(res[0].args[0], ast.Constant):
        raise ShapeError("_hack_lex_table: expected exactly one pytools.lex.RE(<literal>)")
    rx = res[0].args[0].value
    if not (isinstance(rx, str) and rx.startswith("`[") and rx.endswith("]*`")):
        raise ShapeError("_hack_lex_table: regexp %r is not `[class]*`" % (rx,))
    cls = rx[2:-3]
    chars = []
    i = 0
    while i < len(cls):
        c = cls[i]
        if c in "\\^]-[":
            raise ShapeError("_hack_lex_table: unsupported character class %r" % cls)
        if i + 2 < len(cls) and cls[i + 1] == "-":
            lo, hi = ord(c), ord(cls[i + 2])
            if hi < lo or hi > 126:
                raise ShapeError("_hack_lex_table: bad range in %r" % cls)
            chars.extend(chr(k) for k in range(lo, hi + 1))
            i += 3
        else:
            chars.append(c)
            i += 1
    if any(ord(c) < 33 or ord(c) > 126 or c in '`"' for c in chars):
        raise ShapeError("_hack_lex_table: alphabet outside printable ASCII")
    return "".join(sorted(set(chars)))


# dagrt.expression.parse, two recognised shapes of remove_backticks:
#   "if not isinstance(expr, var): return expr"  -> SubstitutionMapper does not descend into subscripts
#   "if not isinstance(expr, var): return None"  -> it does (fixes/C19_backticks_in_subscript.patch)
PARSE_SHAPES = {"ad68d7211e215248": False, "6fc2299886dcdce3": True}


def generate(repo):
    fs = files(repo)
    trees = {fn: _parse_file(path) for fn, path in fs.items()}
    got_parse = _dump_hash(_lookup(trees["expression.py"], "parse"))
    if got_parse not in PARSE_SHAPES:
        raise ShapeError("expression.py: parse is in neither recognised shape (hash %s)" % got_parse)
    for fn in PINS:
        for name, pin in PINS[fn].items():
            if fn == "expression.py" and name == "parse":
                continue
            got = _dump_hash(_lookup(trees[fn], name))
            if pin is None or got != pin:
                raise ShapeError("%s: %s differs from the shape the model mirrors (hash %s, expected %s)"
                                 % (fn, name, got, pin))
    pr = _int_consts(trees["stringifier.py"], PRINTER_CONSTS, "stringifier.py")
    pa = _int_consts(trees["parser.py"], PARSER_CONSTS, "parser.py")
    if max(list(pr.values()) + list(pa.values())) > 900:
        raise ShapeError("precedence constant above 900 (the model uses 1000 as 'no operator')")
    table = postfix_table(trees["parser.py"])
    out = [HEADER % "c19"]
    out.append("(* pymbolic/mapper/stringifier.py *)")
    for k in PRINTER_CONSTS:
        out.append("Definition PR_%s : nat := %d." % (k[len("PREC_"):], pr[k]))
    out.append("\n(* pymbolic/parser.py *)")
    for k in PARSER_CONSTS:
        out.append("Definition PA_%s : nat := %d." % (k[len("_PREC_"):], pa[k]))
    out.append("\n(* pymbolic/parser.py parse_postfix: threshold (min_precedence < thr_x) and level of the right operand *)")
    for tag, nm in POSTFIX_TAGS.items():
        thr, rhs = table[tag]
        out.append("Definition thr_%s : nat := PA_%s." % (nm, thr[len("_PREC_"):]))
        out.append("Definition rhs_%s : nat := PA_%s." % (nm, rhs[len("_PREC_"):]))
    out.append("\n(* dagrt/expression.py _hack_lex_table: characters allowed between back-ticks *)")
    out.append("Definition backtick_alphabet : string := %s." % coq_string(backtick_alphabet(trees["expression.py"])))
    out.append("\n(* dagrt/expression.py parse: does remove_backticks let the SubstitutionMapper descend into subscripts *)")
    out.append("Definition unbt_descends_subscript : bool := %s." % ("true" if PARSE_SHAPES[got_parse] else "false"))
    return "\n".join(out) + "\n"
