"""Facts and shape switch for C18 (dagrt/expression.py _ConstantFindingMapper on top of
pymbolic's CombineMapper) -> coq/gen/GenC18.v

Facts read off the sources (fail-closed):
  * pymbolic CombineMapper.map_call_with_kwargs hands combine() ONE tuple: the function symbol, the
    positional parameters, then the values of kw_parameters (in the order of the mapping);
    IdentityMapper.map_call_with_kwargs visits function, parameters and keyword values in that order and
    rebuilds the node with the same keys; neither dagrt mapper overrides either method
    (`callkw_visits`, `collapser_inherits_calls`);
  * pymbolic CombineMapper: which map_* methods pass their single child through
    (`return self.rec(expr.<attr>, *args, **kwargs)`) WITHOUT calling combine();
    whether map_sum/map_product hand combine() a lazy generator (the model pops the
    node stack before visiting the children in that case);
  * dagrt _ConstantFindingMapper: the bookkeeping methods have the modelled shape
    (node_stack push in rec, pop in combine/map_constant/map_variable);
  * shape switch `finder_unary_combines`: true iff every pass-through method of
    CombineMapper is overridden in _ConstantFindingMapper by one that calls combine()
    (so that the node pushed by rec is popped and classified); false iff none is.
"""
import ast
import importlib.util
import os

from harness.tr import HEADER, ShapeError, _find_class, _find_def, _parse, _src, coq_bool, coq_string_list


def _pymbolic_mapper_tree():
    spec = importlib.util.find_spec("pymbolic")
    if spec is None or not spec.submodule_search_locations:
        raise ShapeError("pymbolic not importable")
    path = os.path.join(list(spec.submodule_search_locations)[0], "mapper", "__init__.py")
    with open(path) as f:
        return ast.parse(f.read(), filename=path)


def _single_return(fn):
    body = [s for s in fn.body if not (isinstance(s, ast.Expr) and isinstance(s.value, ast.Constant))]
    if len(body) == 1 and isinstance(body[0], ast.Return) and body[0].value is not None:
        return body[0].value
    return None


def combine_mapper_facts():
    tree = _pymbolic_mapper_tree()
    cm = _find_class(tree, "CombineMapper")
    passthrough = []
    for fn in cm.body:
        if not (isinstance(fn, ast.FunctionDef) and fn.name.startswith("map_")):
            continue
        rv = _single_return(fn)
        if rv is None:
            raise ShapeError("CombineMapper.%s: not a single return" % fn.name)
        src = _src(rv)
        if src.startswith("self.combine("):
            continue
        if src.startswith("self.rec(expr.") and src.endswith(", *args, **kwargs)") and src.count("self.rec(") == 1:
            passthrough.append(fn.name)
            continue
        raise ShapeError("CombineMapper.%s: unrecognised body %r" % (fn.name, src))
    lazy = {}
    for name in ("map_sum", "map_product"):
        rv = _single_return(_find_def(cm, name))
        if not (isinstance(rv, ast.Call) and _src(rv.func) == "self.combine" and len(rv.args) == 1):
            raise ShapeError("CombineMapper.%s: expected self.combine(<one argument>)" % name)
        arg = rv.args[0]
        if isinstance(arg, ast.GeneratorExp):
            lazy[name] = True
        elif isinstance(arg, (ast.ListComp, ast.Tuple, ast.List)):
            lazy[name] = False
        else:
            raise ShapeError("CombineMapper.%s: unrecognised combine argument %r" % (name, _src(arg)))
        gen = arg.generators[0] if hasattr(arg, "generators") else None
        if gen is None or _src(gen.iter) != "expr.children" or _src(arg.elt) != "self.rec(child, *args, **kwargs)":
            raise ShapeError("CombineMapper.%s: unrecognised comprehension %r" % (name, _src(arg)))
    if lazy["map_sum"] != lazy["map_product"]:
        raise ShapeError("CombineMapper.map_sum / map_product differ in laziness")
    for name, want in (("map_call", "self.combine((self.rec(expr.function, *args, **kwargs), "
                                    "*[self.rec(child, *args, **kwargs) for child in expr.parameters]))"),
                       ("map_call_with_kwargs",
                        "self.combine((self.rec(expr.function, *args, **kwargs), "
                        "*[self.rec(child, *args, **kwargs) for child in expr.parameters], "
                        "*[self.rec(child, *args, **kwargs) for child in expr.kw_parameters.values()]))"),
                       ("map_quotient", "self.combine((self.rec(expr.numerator, *args, **kwargs), "
                                        "self.rec(expr.denominator, *args, **kwargs)))"),
                       ("map_power", "self.combine((self.rec(expr.base, *args, **kwargs), "
                                     "self.rec(expr.exponent, *args, **kwargs)))")):
        got = _src(_single_return(_find_def(cm, name)))
        if got != want:
            raise ShapeError("CombineMapper.%s: unrecognised body %r" % (name, got))
    return sorted(passthrough), lazy["map_sum"]


# IdentityMapper (base of _ExpressionCollapsingMapper): exact bodies of the two call methods
IDENTITY_CALL_SHAPES = {
    "map_call": "function = self.rec(expr.function, *args, **kwargs)\n"
                "parameters = tuple([self.rec(child, *args, **kwargs) for child in expr.parameters])\n"
                "if function is expr.function and all((child is orig_child for child, orig_child in "
                "zip(expr.parameters, parameters, strict=True))):\n    return expr\n"
                "return type(expr)(function, parameters)",
    "map_call_with_kwargs":
        "function = self.rec(expr.function, *args, **kwargs)\n"
        "parameters = tuple([self.rec(child, *args, **kwargs) for child in expr.parameters])\n"
        "kw_parameters: Mapping[str, Expression] = constantdict({key: self.rec(val, *args, **kwargs) "
        "for key, val in expr.kw_parameters.items()})\n"
        "if function is expr.function and all((child is orig_child for child, orig_child in "
        "zip(parameters, expr.parameters, strict=True))) and all((kw_parameters[k] is v for k, v in "
        "expr.kw_parameters.items())):\n    return expr\n"
        "return type(expr)(function, parameters, kw_parameters)",
}

# methods of _ExpressionCollapsingMapper (anything else, e.g. an override of a call method, is unmodelled)
COLLAPSER_METHODS = {"__init__", "__call__", "rec", "map_commut_assoc", "map_product", "map_sum"}


def identity_mapper_facts(repo):
    tree = _pymbolic_mapper_tree()
    im = _find_class(tree, "IdentityMapper")
    for name, want in IDENTITY_CALL_SHAPES.items():
        got = _body_src(_find_def(im, name))
        if got != want:
            raise ShapeError("IdentityMapper.%s: unrecognised body %r" % (name, got))
    cls = _find_class(_parse(repo, "dagrt/expression.py"), "_ExpressionCollapsingMapper")
    if [_src(b) for b in cls.bases] != ["IdentityMapper"]:
        raise ShapeError("_ExpressionCollapsingMapper: unexpected bases")
    for n in cls.body:
        if isinstance(n, ast.Expr) and isinstance(n.value, ast.Constant):
            continue
        if isinstance(n, ast.FunctionDef) and n.name in COLLAPSER_METHODS:
            continue
        raise ShapeError("_ExpressionCollapsingMapper: unmodelled class-level statement %r"
                         % (_src(n).splitlines()[0],))
    return True


FINDER_SHAPES = {
    "__init__": "self.free_variables = free_variables\nself.node_stack = []",
    "__call__": "self.is_constant = {}\nfor variable in self.free_variables:\n    self.is_constant[variable] = False\n"
                "self.node_stack.append(expr)\nCombineMapper.__call__(self, expr)\nreturn self.is_constant",
    "rec": "self.node_stack.append(expr)\nreturn CombineMapper.rec(self, expr)",
    "combine": "current_expr = self.node_stack.pop()\nresult = reduce(operator.and_, exprs)\n"
               "self.is_constant[current_expr] = result\nreturn result",
    "map_constant": "self.node_stack.pop()\nself.is_constant[expr] = True\nreturn True",
    "map_variable": "self.node_stack.pop()\nresult = expr not in self.free_variables\n"
                    "self.is_constant[expr] = result\nreturn result",
}

# recognised repaired shapes of the pass-through overrides: attribute visited per method
PASS_ATTR = {"map_logical_not": "child", "map_bitwise_not": "child",
             "map_common_subexpression": "child", "map_lookup": "aggregate"}


def _body_src(fn):
    body = [s for s in fn.body if not (isinstance(s, ast.Expr) and isinstance(s.value, ast.Constant))]
    return "\n".join(_src(s) for s in body)


def finder_flag(repo, passthrough):
    tree = _parse(repo, "dagrt/expression.py")
    cls = _find_class(tree, "_ConstantFindingMapper")
    if [_src(b) for b in cls.bases] != ["CombineMapper"]:
        raise ShapeError("_ConstantFindingMapper: unexpected bases")
    defs, aliases = {}, {}
    for n in cls.body:
        if isinstance(n, ast.FunctionDef):
            defs[n.name] = n
        elif isinstance(n, ast.Assign) and len(n.targets) == 1 and isinstance(n.targets[0], ast.Name) \
                and isinstance(n.value, ast.Name):
            aliases[n.targets[0].id] = n.value.id
        elif isinstance(n, ast.Expr) and isinstance(n.value, ast.Constant):
            continue
        else:
            raise ShapeError("_ConstantFindingMapper: unexpected class-level statement %r" % _src(n))
    for name, want in FINDER_SHAPES.items():
        if name not in defs:
            raise ShapeError("_ConstantFindingMapper.%s missing" % name)
        got = _body_src(defs[name])
        if got != want:
            raise ShapeError("_ConstantFindingMapper.%s: unrecognised body %r" % (name, got))
    if aliases.get("map_function_symbol") != "map_constant":
        raise ShapeError("_ConstantFindingMapper: expected map_function_symbol = map_constant")

    def resolves(name):
        seen = set()
        while name in aliases and name not in seen:
            seen.add(name)
            name = aliases[name]
        return defs.get(name)

    extra = (set(defs) | set(aliases)) - set(FINDER_SHAPES) - {"map_function_symbol"}
    unknown = extra - set(PASS_ATTR)
    if unknown:
        raise ShapeError("_ConstantFindingMapper: unmodelled overrides %r" % sorted(unknown))
    for p in passthrough:
        if p not in PASS_ATTR:
            raise ShapeError("pymbolic CombineMapper has an unmodelled pass-through method %s" % p)
    fixed = []
    for name in sorted(extra):
        fn = resolves(name)
        if fn is None:
            raise ShapeError("_ConstantFindingMapper.%s: alias does not resolve" % name)
        body = _body_src(fn)
        ok = [a for a in ("child", "aggregate") if body == "return self.combine((self.rec(expr.%s),))" % a]
        if not ok or ok[0] != PASS_ATTR[name]:
            raise ShapeError("_ConstantFindingMapper.%s: unrecognised body %r" % (name, body))
        fixed.append(name)
    if not fixed:
        return False
    if set(fixed) >= set(passthrough):
        return True
    raise ShapeError("_ConstantFindingMapper overrides only part of the pass-through methods: %r of %r"
                     % (fixed, passthrough))


def generate(repo):
    out = [HEADER % "c18"]
    passthrough, lazy = combine_mapper_facts()
    flag = finder_flag(repo, passthrough)
    inherits = identity_mapper_facts(repo)
    out.append("(* pymbolic/mapper/__init__.py CombineMapper: methods that recurse without combine() *)")
    out.append("Definition combine_passthrough : list string := %s." % coq_string_list(passthrough))
    out.append("(* CombineMapper.map_sum/map_product pass a generator to combine() *)")
    out.append("Definition combine_sum_lazy : bool := %s." % coq_bool(lazy))
    out.append("(* CombineMapper.map_call_with_kwargs: what is visited, in order, before combine() pops *)")
    out.append("Definition callkw_visits : list string := %s."
               % coq_string_list(["function", "parameters", "kw_parameters.values()"]))
    out.append("(* IdentityMapper.map_call / map_call_with_kwargs have the modelled bodies and "
               "_ExpressionCollapsingMapper defines nothing beyond rec/map_commut_assoc/map_sum/map_product *)")
    out.append("Definition collapser_inherits_calls : bool := %s." % coq_bool(inherits))
    out.append("(* dagrt/expression.py _ConstantFindingMapper overrides all of them with combine() *)")
    out.append("Definition finder_unary_combines : bool := %s." % coq_bool(flag))
    return "\n".join(out) + "\n"
