"""Shape facts for C05 -> coq/gen/GenC05.v

Read off dagrt/codegen/dag_ast.py (statement_to_ast, conditional_to_ast, loop_to_ast_node,
create_ast_from_phase), dagrt/language.py (ExecutionPhase.depends_on) and
dagrt/codegen/codegen_base.py (StructuredCodeGenerator.lower_node).

The Coq model coq/model/DagAst.v mirrors these functions line by line, so every one of them is
matched against its exact expected text (comments and docstrings aside); anything else is a
ShapeError (fail-closed: the check then reports the broken tie and searches for a failing input).
One defect has two recognised shapes, selected by a boolean the model takes as a parameter:

  lower_skip_false_guard = false  <->  main loop: `if isinstance(statement, Nop): continue`
  lower_skip_false_guard = true   <->  ... followed by `if statement.condition is False: continue`
                                       (fixes/C05_false_guard_loop.patch)
  lower_guard_outside = false     <->  conditional_to_ast + loop_to_ast_node: ForLoop(.., IfThenElse(c, s, Null))
  lower_guard_outside = true      <->  loops_to_ast + loop_to_ast_node: IfThenElse(c, ForLoop(.., s), Null)
                                       (fixes/C01_guard_outside_loops.patch)
"""
import ast

from harness.tr import HEADER, ShapeError, _find_class, _find_def, _parse, _src, coq_bool


def _body_src(fn):
    body = list(fn.body)
    if body and isinstance(body[0], ast.Expr) and isinstance(getattr(body[0], "value", None), ast.Constant) \
            and isinstance(body[0].value.value, str):
        body = body[1:]
    return [_src(s) for s in body]


def _expect(what, got, want):
    if got != want:
        raise ShapeError("%s: unrecognised shape\n got: %r\nwant: %r" % (what, got, want))


STATEMENT_TO_AST = ["return StatementWrapper(statement)"]

CONDITIONAL_TO_AST = [
    "if statement.condition is not True:\n"
    "    new_statement = statement.copy(condition=True)\n"
    "    return IfThenElse(statement.condition, statement_to_ast(new_statement), NullASTNode())\n"
    "else:\n"
    "    return statement_to_ast(statement)"]

LOOP_TO_AST_NODE = [
    "if isinstance(statement, Assign) and statement.loops:\n"
    "    loop_var_name, lower, upper = statement.loops[0]\n"
    "    new_statement = statement.copy(loops=statement.loops[1:])\n"
    "    return ForLoop(loop_var_name=loop_var_name, lbound=lower, ubound=upper, "
    "body=loop_to_ast_node(new_statement))\n"
    "else:\n"
    "    return conditional_to_ast(statement)"]

# the other shape of the wrapping (fixes/C01_guard_outside_loops.patch): no conditional_to_ast;
# loops_to_ast builds the loop nest around the bare statement, loop_to_ast_node puts the guard around it
LOOPS_TO_AST_NEW = [
    "if isinstance(statement, Assign) and statement.loops:\n"
    "    loop_var_name, lower, upper = statement.loops[0]\n"
    "    new_statement = statement.copy(loops=statement.loops[1:])\n"
    "    return ForLoop(loop_var_name=loop_var_name, lbound=lower, ubound=upper, "
    "body=loops_to_ast(new_statement))\n"
    "else:\n"
    "    return statement_to_ast(statement)"]

LOOP_TO_AST_NODE_NEW = [
    "if statement.condition is not True:\n"
    "    new_statement = statement.copy(condition=True)\n"
    "    return IfThenElse(statement.condition, loops_to_ast(new_statement), NullASTNode())\n"
    "else:\n"
    "    return loops_to_ast(statement)"]

CREATE_HEAD = [
    "phase = code.phases[phase_name]",
    "stack = []",
    "statement_map = {inst.id: inst for inst in phase.statements}",
    "visiting = set()",
    "visited = set()",
    "topological_order = []",
    "stack.extend(sorted(phase.depends_on))",
    "while stack:\n"
    "    statement = stack[-1]\n"
    "    if statement in visited:\n"
    "        if statement in visiting:\n"
    "            visiting.remove(statement)\n"
    "            topological_order.append(statement)\n"
    "        stack.pop()\n"
    "    else:\n"
    "        visited.add(statement)\n"
    "        visiting.add(statement)\n"
    "        stack.extend(sorted(statement_map[statement].depends_on))",
    "main_block = []",
]
CREATE_TAIL = ["return simplify_ast(Block(*main_block))"]

MAIN_LOOP_A = ("for top_order_id in topological_order:\n"
               "    statement = statement_map[top_order_id]\n"
               "    if isinstance(statement, Nop):\n"
               "        continue\n"
               "    main_block.append(loop_to_ast_node(statement))")
MAIN_LOOP_B = ("for top_order_id in topological_order:\n"
               "    statement = statement_map[top_order_id]\n"
               "    if isinstance(statement, Nop):\n"
               "        continue\n"
               "    if statement.condition is False:\n"
               "        continue\n"
               "    main_block.append(loop_to_ast_node(statement))")

PHASE_DEPENDS_ON = [
    "result = {stmt.id for stmt in self.statements}",
    "for stmt in self.statements:\n"
    "    result -= set(stmt.depends_on)",
    "return result"]

LOWER_NODE = [
    "if isinstance(node, StatementWrapper):\n"
    "    self.lower_inst(node.statement)\n"
    "elif isinstance(node, IfThen):\n"
    "    self.emit_if_begin(node.condition)\n"
    "    self.lower_node(node.then)\n"
    "    self.emit_if_end()\n"
    "elif isinstance(node, IfThenElse):\n"
    "    self.emit_if_begin(node.condition)\n"
    "    self.lower_node(node.then)\n"
    "    self.emit_else_begin()\n"
    "    self.lower_node(node.else_)\n"
    "    self.emit_if_end()\n"
    "elif isinstance(node, ForLoop):\n"
    "    self.emit_for_begin(node.loop_var_name, node.lbound, node.ubound)\n"
    "    self.lower_node(node.body)\n"
    "    self.emit_for_end(node.loop_var_name)\n"
    "elif isinstance(node, Block):\n"
    "    for child in node.children:\n"
    "        self.lower_node(child)\n"
    "else:\n"
    "    raise ValueError('Unrecognized node type {type}'.format(type=type(node).__name__))"]


def lowering_flags(repo):
    tree = _parse(repo, "dagrt/codegen/dag_ast.py")
    _expect("dag_ast.py statement_to_ast", _body_src(_find_def(tree, "statement_to_ast")), STATEMENT_TO_AST)
    defs = {n.name for n in tree.body if isinstance(n, ast.FunctionDef)}
    has_old, has_new = "conditional_to_ast" in defs, "loops_to_ast" in defs
    if has_old and not has_new:
        guard_outside = False
        _expect("dag_ast.py conditional_to_ast", _body_src(_find_def(tree, "conditional_to_ast")),
                CONDITIONAL_TO_AST)
        _expect("dag_ast.py loop_to_ast_node", _body_src(_find_def(tree, "loop_to_ast_node")), LOOP_TO_AST_NODE)
    elif has_new and not has_old:
        guard_outside = True
        _expect("dag_ast.py loops_to_ast", _body_src(_find_def(tree, "loops_to_ast")), LOOPS_TO_AST_NEW)
        _expect("dag_ast.py loop_to_ast_node", _body_src(_find_def(tree, "loop_to_ast_node")),
                LOOP_TO_AST_NODE_NEW)
    else:
        raise ShapeError("dag_ast.py: expected exactly one of conditional_to_ast (guard inside the loops) and "
                         "loops_to_ast (guard outside the loops), found %r"
                         % sorted(defs & {"conditional_to_ast", "loops_to_ast"}))
    body = _body_src(_find_def(tree, "create_ast_from_phase"))
    n = len(CREATE_HEAD)
    if len(body) != n + 2:
        raise ShapeError("dag_ast.py create_ast_from_phase: expected %d statements, found %d" % (n + 2, len(body)))
    _expect("dag_ast.py create_ast_from_phase (toposort)", body[:n], CREATE_HEAD)
    _expect("dag_ast.py create_ast_from_phase (return)", body[n + 1:], CREATE_TAIL)
    if body[n] == MAIN_LOOP_A:
        skip_false = False
    elif body[n] == MAIN_LOOP_B:
        skip_false = True
    else:
        raise ShapeError("dag_ast.py create_ast_from_phase: unrecognised main loop %r" % body[n])

    lang = _parse(repo, "dagrt/language.py")
    dep = _find_def(_find_class(lang, "ExecutionPhase"), "depends_on")
    _expect("language.py ExecutionPhase.depends_on", [s for s in _body_src(dep)], PHASE_DEPENDS_ON)

    base = _parse(repo, "dagrt/codegen/codegen_base.py")
    ln = _find_def(_find_class(base, "StructuredCodeGenerator"), "lower_node")
    _expect("codegen_base.py lower_node", _body_src(ln), LOWER_NODE)
    return skip_false, guard_outside


def generate(repo):
    out = [HEADER % "c05"]
    skip_false, guard_outside = lowering_flags(repo)
    out.append("(* dagrt/codegen/dag_ast.py create_ast_from_phase, main loop *)")
    out.append("Definition lower_skip_false_guard : bool := %s." % coq_bool(skip_false))
    out.append("(* dagrt/codegen/dag_ast.py loop_to_ast_node: guard around the loop nest (true) or inside it *)")
    out.append("Definition lower_guard_outside : bool := %s." % coq_bool(guard_outside))
    return "\n".join(out) + "\n"
