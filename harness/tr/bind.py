"""Facts for the call-argument-binding part of C01 -> coq/gen/GenBind.v

Pinned (fail-closed; any other text is refused, the model coq/model/CallBind.v mirrors exactly this):
* dagrt/utils.py resolve_args, statement by statement (the message of the "both positionally and by
  keyword" branch may use the broken '%d' or a '%s' format: either way a TypeError is raised);
* how it is reached from generated code: Function.resolve_args, _PythonBuiltinFunctionCodeGenerator.__call__
  (dagrt/function_registry.py), the dict built by ExpressionMapper.map_generic_call
  (dagrt/codegen/expressions.py: positions 0.. first, then the keywords), the renaming
  builtin -> _builtin of the copied source (dagrt/codegen/python.py _emit_inner_classes);
* how the interpreter calls: `func(*parameters, **kw_parameters)` (dagrt/exec_numpy.py
  exec_AssignFunctionCall), `function(*evaluated_parameters, **evaluated_kw_parameters)`
  (dagrt/expression.py EvaluationMapper.map_generic_call), `self.functions = dict(builtins, **function_map)`.

Extracted, one row per (Function instance, pattern) pair of the list in _make_bfr:
identifier, arg_names (a str constant is turned into the list of its characters, which is what iterating
it gives), default_dict (values as source text), the Python pattern, the callee
builtins_python.builtins[identifier] with its parameter names and defaults (positional-or-keyword parameters
only, anything else is refused).
"""
import ast
import re

from harness.tr import HEADER, ShapeError, _find_class, _find_def, _parse, _src, coq_string, coq_string_list

RESOLVE_SRC = '''
def resolve_args(arg_names, default_dict, arg_dict):
    arg_dict = arg_dict.copy()
    args = []
    for i, name in enumerate(arg_names):
        if i in arg_dict:
            args.append(arg_dict.pop(i))
            if name in arg_dict:
                raise TypeError("argument '%s' specified both "
                        "positionally and by keyword" % arg_names[i])
        elif name in arg_dict:
            args.append(arg_dict.pop(name))
        else:
            if name in default_dict:
                args.append(default_dict[name])
            else:
                raise TypeError("argument '%s' not specified" % arg_names[i])

    if arg_dict:
        raise TypeError("leftover arguments after argument resolution: "
                + ", ".join(str(i) for i in arg_dict))

    return tuple(args)
'''


def _body(fn):
    body = list(fn.body)
    if body and isinstance(body[0], ast.Expr) and isinstance(body[0].value, ast.Constant) \
            and isinstance(body[0].value.value, str):
        body = body[1:]
    return body


def _same(fn, expected_variants, what):
    """the function (without docstring) is, statement by statement, one of the expected texts"""
    got = [ast.dump(s) for s in _body(fn)]
    sig = ast.dump(fn.args)
    for src in expected_variants:
        want_fn = ast.parse(src).body[0]
        want = [ast.dump(s) for s in _body(want_fn)]
        if sig == ast.dump(want_fn.args) and got == want:
            return
    want_fn = ast.parse(expected_variants[0]).body[0]
    want = [ast.dump(s) for s in _body(want_fn)]
    if sig != ast.dump(want_fn.args):
        raise ShapeError("%s: unexpected signature (%s)" % (what, _src(fn.args)))
    for k, (g, w) in enumerate(zip(got, want)):
        if g != w:
            raise ShapeError("%s: statement %d is not the expected one: %r" % (what, k + 1, _src(_body(fn)[k])[:300]))
    raise ShapeError("%s: %d statements, expected %d" % (what, len(got), len(want)))


def _has_stmt(fn, text, what):
    for n in ast.walk(fn):
        if isinstance(n, ast.stmt) and _src(n) == text:
            return
    raise ShapeError("%s: statement %r not found" % (what, text))


def pin_paths(repo):
    utils = _parse(repo, "dagrt/utils.py")
    _same(_find_def(utils, "resolve_args"),
          [RESOLVE_SRC.replace("argument '%s' specified both", "argument '%d' specified both"), RESOLVE_SRC],
          "dagrt/utils.py resolve_args")

    reg = _parse(repo, "dagrt/function_registry.py")
    _same(_find_def(_find_class(reg, "Function"), "resolve_args"),
          ["def resolve_args(self, arg_dict):\n"
           "    from dagrt.utils import resolve_args\n"
           "    return resolve_args(self.arg_names, self.default_dict, arg_dict)\n"],
          "function_registry.py Function.resolve_args")
    _same(_find_def(_find_class(reg, "_PythonBuiltinFunctionCodeGenerator"), "__call__"),
          ["def __call__(self, expr_mapper, arg_strs_dict):\n"
           "    args = self.function.resolve_args(arg_strs_dict)\n"
           "    return self.pattern.format(numpy=expr_mapper._numpy, args=', '.join(args))\n"],
          "function_registry.py _PythonBuiltinFunctionCodeGenerator.__call__")
    _same(_find_def(_find_class(reg, "_PythonBuiltinFunctionCodeGenerator"), "__init__"),
          ["def __init__(self, function, pattern):\n    self.function = function\n    self.pattern = pattern\n"],
          "function_registry.py _PythonBuiltinFunctionCodeGenerator.__init__")

    ex = _parse(repo, "dagrt/codegen/expressions.py")
    mgc = None
    for n in ast.walk(ex):
        if isinstance(n, ast.FunctionDef) and n.name == "map_generic_call":
            mgc = n
    if mgc is None:
        raise ShapeError("codegen/expressions.py: map_generic_call not found")
    head = [_src(s) for s in _body(mgc)[:3]]
    if head != ["arg_strs_dict = {}",
                "for i, arg in enumerate(args):\n    arg_strs_dict[i] = self.rec(arg, PREC_NONE)",
                "for name, arg in kwargs.items():\n    arg_strs_dict[name] = self.rec(arg, PREC_NONE)"]:
        raise ShapeError("codegen/expressions.py map_generic_call: the argument dict is not built as expected: %r"
                         % head)
    _has_stmt(mgc, "return codegen(self, arg_strs_dict)", "codegen/expressions.py map_generic_call")

    py = _parse(repo, "dagrt/codegen/python.py")
    eic = None
    for n in ast.walk(py):
        if isinstance(n, ast.FunctionDef) and n.name == "_emit_inner_classes":
            eic = n
    if eic is None:
        raise ShapeError("codegen/python.py: _emit_inner_classes not found")
    _has_stmt(eic, "import dagrt.builtins_python as builtins", "codegen/python.py _emit_inner_classes")
    _has_stmt(eic, "for line in builtins_source.split('\\n'):\n"
                   "    if line.startswith('def builtin'):\n"
                   "        emit('@staticmethod')\n"
                   "    emit(line.replace('builtin', '_builtin'))", "codegen/python.py _emit_inner_classes")

    interp = _parse(repo, "dagrt/exec_numpy.py")
    ni = _find_class(interp, "NumpyInterpreter")
    _has_stmt(_find_def(ni, "exec_AssignFunctionCall"), "results = func(*parameters, **kw_parameters)",
              "exec_numpy.py exec_AssignFunctionCall")
    _has_stmt(_find_def(ni, "exec_AssignFunctionCall"), "func = self.eval_mapper.functions[stmt.function_id]",
              "exec_numpy.py exec_AssignFunctionCall")
    _has_stmt(_find_def(ni, "__init__"), "from dagrt.builtins_python import builtins", "exec_numpy.py __init__")
    _has_stmt(_find_def(ni, "__init__"), "self.functions = dict(builtins, **function_map)", "exec_numpy.py __init__")
    em = _find_def(_find_class(_parse(repo, "dagrt/expression.py"), "EvaluationMapper"), "map_generic_call")
    _has_stmt(em, "return function(*evaluated_parameters, **evaluated_kw_parameters)",
              "expression.py EvaluationMapper.map_generic_call")
    _has_stmt(em, "evaluated_parameters = tuple((self.rec(param) for param in parameters))",
              "expression.py EvaluationMapper.map_generic_call")
    _has_stmt(em, "evaluated_kw_parameters = {param_id: self.rec(param) for param_id, param in "
                  "kw_parameters.items()}", "expression.py EvaluationMapper.map_generic_call")


# ------------------------------------------------------------------ the registry

def _class_attr(tree, cls_name, attr, depth=0):
    """the value node of `attr = ...` in the class or (single inheritance, same module) its bases"""
    if depth > 4:
        raise ShapeError("function_registry.py: inheritance chain of %s too deep" % cls_name)
    cls = _find_class(tree, cls_name)
    found = [s for s in cls.body if isinstance(s, ast.Assign) and len(s.targets) == 1
             and isinstance(s.targets[0], ast.Name) and s.targets[0].id == attr]
    if len(found) > 1:
        raise ShapeError("function_registry.py %s: %s assigned twice" % (cls_name, attr))
    if found:
        return found[0].value
    for s in cls.body:
        if isinstance(s, ast.FunctionDef) and s.name == attr:
            raise ShapeError("function_registry.py %s: %s is computed" % (cls_name, attr))
    if len(cls.bases) != 1 or not isinstance(cls.bases[0], ast.Name):
        raise ShapeError("function_registry.py %s: unexpected bases" % cls_name)
    base = cls.bases[0].id
    if base == "Function":
        raise ShapeError("function_registry.py %s: no %s" % (cls_name, attr))
    return _class_attr(tree, base, attr, depth + 1)


def _str_const(n, what):
    if not (isinstance(n, ast.Constant) and isinstance(n.value, str)):
        raise ShapeError("%s: expected a string literal, got %r" % (what, _src(n)))
    return n.value


def _arg_names(n, what):
    if isinstance(n, (ast.Tuple, ast.List)):
        return [_str_const(e, what) for e in n.elts]
    if isinstance(n, ast.Constant) and isinstance(n.value, str):
        return list(n.value)          # ("x") is the str "x": iterating it gives its characters
    raise ShapeError("%s: unrecognised arg_names %r" % (what, _src(n)))


def _default_dict(n, what):
    if not isinstance(n, ast.Dict):
        raise ShapeError("%s: default_dict is not a dict display: %r" % (what, _src(n)))
    out = []
    for k, v in zip(n.keys, n.values):
        if k is None:
            raise ShapeError("%s: ** in default_dict" % what)
        out.append((_str_const(k, what), _src(v)))
    if len({k for k, _ in out}) != len(out):
        raise ShapeError("%s: duplicate key in default_dict" % what)
    return out


def _impl_table(repo):
    """identifier -> (function name, parameter names, defaults) from dagrt/builtins_python.py"""
    tree = _parse(repo, "dagrt/builtins_python.py")
    defs = {}
    for s in tree.body:
        if isinstance(s, ast.FunctionDef):
            if s.name in defs:
                raise ShapeError("builtins_python.py: %s defined twice" % s.name)
            defs[s.name] = s
    tables = [s for s in tree.body if isinstance(s, ast.Assign) and len(s.targets) == 1
              and isinstance(s.targets[0], ast.Name) and s.targets[0].id == "builtins"]
    if len(tables) != 1 or not isinstance(tables[0].value, ast.Dict):
        raise ShapeError("builtins_python.py: expected exactly one `builtins = {...}`")
    # nothing after the table may rebind it or the functions
    out = {}
    for k, v in zip(tables[0].value.keys, tables[0].value.values):
        ident = _str_const(k, "builtins_python.py builtins")
        if not isinstance(v, ast.Name) or v.id not in defs:
            raise ShapeError("builtins_python.py builtins[%r] is not a function of the module" % ident)
        if ident in out:
            raise ShapeError("builtins_python.py builtins: duplicate key %r" % ident)
        fn = defs[v.id]
        a = fn.args
        if a.posonlyargs or a.kwonlyargs or a.vararg or a.kwarg or fn.decorator_list:
            raise ShapeError("builtins_python.py %s: only plain positional-or-keyword parameters are modelled"
                             % fn.name)
        names = [x.arg for x in a.args]
        nd = len(a.defaults)
        dfl = [(names[len(names) - nd + i], _src(d)) for i, d in enumerate(a.defaults)]
        out[ident] = (fn.name, names, dfl)
    for s in tree.body:
        if isinstance(s, (ast.Assign, ast.AugAssign, ast.AnnAssign)) and s is not tables[0]:
            tg = _src(s.targets[0]) if isinstance(s, ast.Assign) else _src(s.target)
            if not tg.startswith("__"):
                raise ShapeError("builtins_python.py: unexpected module-level assignment to %s" % tg)
    return out


PAT_SELF = re.compile(r"^self\._(builtin_\w+)\(\{args\}\)$")
PAT_POS = re.compile(r"^\{numpy\}\.\w+\(\{args\}\)(\.\w+\(\))?$")


def registry_rows(repo):
    tree = _parse(repo, "dagrt/function_registry.py")
    mk = _find_def(tree, "_make_bfr")
    loops = [s for s in mk.body if isinstance(s, ast.For)]
    if len(loops) != 1 or _src(loops[0].target) != "(func, py_pattern)" or not isinstance(loops[0].iter, ast.List):
        raise ShapeError("function_registry.py _make_bfr: expected one `for func, py_pattern in [...]`")
    body = [_src(s) for s in loops[0].body]
    if body != ["bfr = bfr.register(func)",
                "bfr = bfr.register_codegen(func.identifier, 'python', "
                "_PythonBuiltinFunctionCodeGenerator(func, py_pattern))"]:
        raise ShapeError("function_registry.py _make_bfr: unexpected loop body %r" % body)
    n_py = [n for n in ast.walk(mk) if isinstance(n, ast.Call) and isinstance(n.func, ast.Attribute)
            and n.func.attr == "register_codegen" and len(n.args) >= 2
            and not (isinstance(n.args[1], ast.Constant) and n.args[1].value == "fortran")]
    if len(n_py) != 1:
        raise ShapeError("function_registry.py _make_bfr: Python code generators are registered outside the loop too")
    impl = _impl_table(repo)
    rows, seen = [], set()
    for e in loops[0].iter.elts:
        if not (isinstance(e, ast.Tuple) and len(e.elts) == 2 and isinstance(e.elts[0], ast.Call)
                and isinstance(e.elts[0].func, ast.Name) and not e.elts[0].args and not e.elts[0].keywords):
            raise ShapeError("function_registry.py _make_bfr: unexpected entry %r" % _src(e))
        cls = e.elts[0].func.id
        pat = _str_const(e.elts[1], "_make_bfr pattern of %s" % cls)
        what = "function_registry.py %s" % cls
        ident = _str_const(_class_attr(tree, cls, "identifier"), what)
        names = _arg_names(_class_attr(tree, cls, "arg_names"), what)
        dfl = _default_dict(_class_attr(tree, cls, "default_dict"), what)
        if ident in seen:
            raise ShapeError("function_registry.py _make_bfr: %s registered twice" % ident)
        seen.add(ident)
        m = PAT_SELF.match(pat)
        if m:
            pattern = "PSelfBuiltin %s" % coq_string(m.group(1))
        elif PAT_POS.match(pat):
            pattern = "PPositionalOnly %s" % coq_string(pat)
        else:
            raise ShapeError("function_registry.py _make_bfr: unrecognised Python pattern %r for %s" % (pat, cls))
        if ident not in impl:
            raise ShapeError("builtins_python.py builtins has no entry for %s (the interpreter cannot call it)" % ident)
        rows.append((ident, cls, names, dfl, pattern) + impl[ident])
    extra = sorted(set(impl) - seen)
    if extra:
        raise ShapeError("builtins_python.py builtins has entries without a registry entry: %r" % extra)
    return rows


def coq_pairs(l):
    return "[" + "; ".join("(%s, %s)" % (coq_string(a), coq_string(b)) for a, b in l) + "]"


def generate(repo):
    pin_paths(repo)
    rows = registry_rows(repo)
    out = [HEADER % "bind", "From Dagrt Require Import CallBind.\n"]
    out.append("(* dagrt/function_registry.py _make_bfr x dagrt/builtins_python.py builtins: %d built-ins *)" % len(rows))
    out.append("Definition builtin_table : list builtin_row := [")
    items = []
    for ident, cls, names, dfl, pattern, fname, params, pdfl in rows:
        items.append("  Build_builtin_row %s %s %s %s\n    (%s) %s %s %s" % (
            coq_string(ident), coq_string(cls), coq_string_list(names), coq_pairs(dfl), pattern,
            coq_string(fname), coq_string_list(params), coq_pairs(pdfl)))
    out.append(";\n".join(items))
    out.append("].")
    return "\n".join(out) + "\n"
