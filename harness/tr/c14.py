"""Facts and shape switches for C14 -> coq/gen/GenC14.v

dagrt/data.py: unify, SymbolKindTable, KindInferenceMapper (the methods the model mirrors),
SymbolKindFinder.__call__, infer_kinds; dagrt/utils.py: is_state_variable, resolve_args;
dagrt/function_registry.py: every get_result_kinds, Function.resolve_args, the registrations of
_make_bfr.

Two kinds of ties:
  * shape switches (a boolean the model takes as a parameter, two recognised source shapes each):
      unify_usertype_accepts_int, unify_array_accepts_int      (unify)
      set_insert_marks_changed, set_reraises                   (SymbolKindTable.set)
      loop_variables_prepass, finder_restarts_after_change     (SymbolKindFinder.__call__)
      builtins_require_arrays                                  (MatMul/Transpose/LinearSolve/SVD)
  * pinned text: every other function the model mirrors line by line must have exactly the
    expected text (docstrings and comments aside; compared through a hash of ast.unparse).
    SymbolKindFinder.__call__ is pinned after the two optional fragments have been cut out.
Anything else is a ShapeError (fail-closed).
"""
import ast
import copy
import hashlib

from harness.tr import (HEADER, ShapeError, _find_class, _find_def, _parse, _src, coq_bool, coq_string,
                        coq_string_list)


def _if_on(fn, test_src):
    hits = [n for n in fn.body if isinstance(n, ast.If) and _src(n.test) == test_src]
    if len(hits) != 1:
        raise ShapeError("data.py unify: expected exactly one top-level `if %s:`" % test_src)
    return hits[0]


def unify_flags(tree):
    fn = _find_def(tree, "unify")
    if [a.arg for a in fn.args.args] != ["kind_a", "kind_b"]:
        raise ShapeError("data.py unify: unexpected signature")
    # the two None tests and the two Boolean tests come first, in this order
    head = [_src(n.test) for n in fn.body[:4] if isinstance(n, ast.If)]
    if head != ["kind_a is None", "kind_b is None", "isinstance(kind_a, Boolean)",
                "isinstance(kind_b, Boolean)"]:
        raise ShapeError("data.py unify: unexpected leading tests %r" % head)
    # UserType branch
    ub = [_src(s) for s in _if_on(fn, "isinstance(kind_a, UserType)").body]
    tail_u = ["if isinstance(kind_b, UserType):\n"
              "    if kind_a.identifier != kind_b.identifier:\n"
              "        raise ValueError('encountered arithmetic with mismatched user types')",
              "return kind_a"]
    if ub == ["assert isinstance(kind_b, (UserType, Scalar))"] + tail_u:
        ut_int = False
    elif ub == ["assert isinstance(kind_b, (UserType, Scalar, Integer))"] + tail_u:
        ut_int = True
    else:
        raise ShapeError("data.py unify: unrecognised UserType branch %r" % ub)
    # Array branch
    ab = [_src(s) for s in _if_on(fn, "isinstance(kind_a, Array)").body]
    ret = "return Array(not (not kind_a.is_real_valued or not kind_b.is_real_valued))"
    if ab == ["assert isinstance(kind_b, (Array, Scalar))", ret]:
        arr_int = False
    elif ab == ["assert isinstance(kind_b, (Array, Scalar, Integer))",
                "if isinstance(kind_b, Integer):\n    return kind_a", ret]:
        arr_int = True
    else:
        raise ShapeError("data.py unify: unrecognised Array branch %r" % ab)
    return ut_int, arr_int


def set_flags(tree):
    cls = _find_class(tree, "SymbolKindTable")
    fn = _find_def(cls, "set")
    outer = [n for n in fn.body if isinstance(n, ast.If) and _src(n.test) == "name in tbl"]
    if len(outer) != 1:
        raise ShapeError("data.py SymbolKindTable.set: expected one `if name in tbl:`")
    outer = outer[0]
    orelse = [_src(s) for s in outer.orelse]
    if orelse == ["tbl[name] = kind"]:
        ins_changed = False
    elif orelse == ["self._changed = True", "tbl[name] = kind"]:
        ins_changed = True
    else:
        raise ShapeError("data.py SymbolKindTable.set: unrecognised insertion branch %r" % orelse)
    if len(outer.body) != 1 or not isinstance(outer.body[0], ast.If) \
            or _src(outer.body[0].test) != "tbl[name] != kind" or outer.body[0].orelse:
        raise ShapeError("data.py SymbolKindTable.set: expected `if tbl[name] != kind:`")
    tries = outer.body[0].body
    if len(tries) != 1 or not isinstance(tries[0], ast.Try):
        raise ShapeError("data.py SymbolKindTable.set: expected a try statement")
    tr = tries[0]
    if [_src(s) for s in tr.body] != ["kind = unify(kind, tbl[name])"]:
        raise ShapeError("data.py SymbolKindTable.set: unexpected try body")
    if [_src(s) for s in tr.orelse] != ["if tbl[name] != kind:\n    self._changed = True\n    tbl[name] = kind"]:
        raise ShapeError("data.py SymbolKindTable.set: unexpected try/else body")
    if len(tr.handlers) != 1 or tr.finalbody or _src(tr.handlers[0].type) != "Exception":
        raise ShapeError("data.py SymbolKindTable.set: unexpected handlers")
    hb = tr.handlers[0].body
    is_print = (len(hb) >= 1 and isinstance(hb[0], ast.Expr) and isinstance(hb[0].value, ast.Call)
                and _src(hb[0].value.func) == "print")
    if is_print and len(hb) == 1:
        raises = False
    elif is_print and len(hb) == 2 and isinstance(hb[1], ast.Raise) and hb[1].exc is None:
        raises = True
    else:
        raise ShapeError("data.py SymbolKindTable.set: unrecognised except body %r" % [_src(s) for s in hb])
    # the preset global table
    init = _find_def(cls, "__init__")
    names = None
    for s in init.body:
        if isinstance(s, ast.Assign) and _src(s.targets[0]) == "self.global_table":
            d = s.value
            if not isinstance(d, ast.Dict):
                raise ShapeError("data.py SymbolKindTable.__init__: global_table is not a dict literal")
            for k, v in zip(d.keys, d.values):
                if not (isinstance(k, ast.Constant) and isinstance(k.value, str)
                        and _src(v) == "Scalar(is_real_valued=True)"):
                    raise ShapeError("data.py SymbolKindTable.__init__: unexpected global_table entry")
            names = [k.value for k in d.keys]
    if names is None:
        raise ShapeError("data.py SymbolKindTable.__init__: global_table not found")
    return ins_changed, raises, names


def state_variable_lists(repo):
    tree = _parse(repo, "dagrt/utils.py")
    fn = _find_def(tree, "is_state_variable")
    ifs = [n for n in fn.body if isinstance(n, ast.If)]
    if len(ifs) != 1 or [a.arg for a in fn.args.args] != ["var"]:
        raise ShapeError("utils.py is_state_variable: unexpected structure")
    top = ifs[0]
    t = top.test
    if not (isinstance(t, ast.Compare) and _src(t.left) == "var" and len(t.ops) == 1
            and isinstance(t.ops[0], ast.In) and isinstance(t.comparators[0], ast.Tuple)
            and all(isinstance(e, ast.Constant) and isinstance(e.value, str) for e in t.comparators[0].elts)
            and _src(top.body[0]) == "return True" and len(top.body) == 1):
        raise ShapeError("utils.py is_state_variable: unexpected first test")
    exact = [e.value for e in t.comparators[0].elts]
    if len(top.orelse) != 1 or not isinstance(top.orelse[0], ast.If):
        raise ShapeError("utils.py is_state_variable: unexpected elif")
    el = top.orelse[0]
    if not (isinstance(el.test, ast.BoolOp) and isinstance(el.test.op, ast.Or)
            and [_src(s) for s in el.body] == ["return True"]
            and [_src(s) for s in el.orelse] == ["return False"]):
        raise ShapeError("utils.py is_state_variable: unexpected elif shape")
    prefixes = []
    for v in el.test.values:
        if not (isinstance(v, ast.Call) and _src(v.func) == "var.startswith" and len(v.args) == 1
                and isinstance(v.args[0], ast.Constant) and isinstance(v.args[0].value, str)):
            raise ShapeError("utils.py is_state_variable: unexpected prefix test %r" % _src(v))
        prefixes.append(v.args[0].value)
    return exact, prefixes


# ------------------------------------------------------------------ SymbolKindFinder.__call__

PREPASS = ("for (phase_name, phase) in zip(names, phases):\n"
           "    for stmt in phase:\n"
           "        if isinstance(stmt, lang.Assign):\n"
           "            for (ident, _, _) in stmt.loops:\n"
           "                result.set(phase_name, ident, kind=Integer())")

RESTART = "if result.is_changed():\n    break"

# hash of the body of SymbolKindFinder.__call__ once the two optional fragments are cut out
FINDER_CORE = "d67924ea277ef93e"


def _strip_doc(fn):
    body = list(fn.body)
    if body and isinstance(body[0], ast.Expr) and isinstance(getattr(body[0], "value", None), ast.Constant) \
            and isinstance(body[0].value.value, str):
        body = body[1:]
    return body


def _body_src(fn):
    return "\n".join(_src(s) for s in _strip_doc(fn))


def _h(text):
    return hashlib.sha256(text.encode()).hexdigest()[:16]


def _norm(src):
    return ast.unparse(ast.parse(src))


def finder_shape(tree):
    """(loop_variables_prepass, finder_restarts_after_change, hash of the remaining text).

    prepass: the `for` over zip(names, phases) that registers loop variables, placed between the
    forced kinds and make_kim.  restart: `if result.is_changed(): break` as the first statement
    of the `if not made_progress:` block of the work-list loop."""
    cls = _find_class(tree, "SymbolKindFinder")
    fn = copy.deepcopy(_find_def(cls, "__call__"))
    kinds = []
    for n in fn.body:
        if isinstance(n, ast.If) and _src(n.test) == "forced_kinds is not None":
            kinds.append("forced")
        elif isinstance(n, ast.FunctionDef) and n.name == "make_kim":
            kinds.append("make_kim")
        elif isinstance(n, ast.While):
            kinds.append("while")
        elif isinstance(n, ast.For) and _src(n.iter) == "zip(names, phases)":
            kinds.append("prepass" if ast.unparse(n) == _norm(PREPASS) else "for")
    if kinds == ["forced", "make_kim", "while", "for"]:
        prepass = False
    elif kinds == ["forced", "prepass", "make_kim", "while", "for"]:
        prepass = True
        fn.body = [n for n in fn.body
                   if not (isinstance(n, ast.For) and ast.unparse(n) == _norm(PREPASS))]
    else:
        raise ShapeError("data.py SymbolKindFinder.__call__: unexpected statement sequence %r" % kinds)
    # while True: ... while stmt_queue or stmt_queue_push_buffer: if not stmt_queue: if not made_progress:
    try:
        outer = [n for n in fn.body if isinstance(n, ast.While)][0]
        inner = [n for n in outer.body if isinstance(n, ast.While)][0]
        refill = inner.body[0]
        stuck = refill.body[0]
        ok = (_src(outer.test) == "True" and _src(inner.test) == "stmt_queue or stmt_queue_push_buffer"
              and isinstance(refill, ast.If) and _src(refill.test) == "not stmt_queue"
              and isinstance(stuck, ast.If) and _src(stuck.test) == "not made_progress")
    except (IndexError, AttributeError):
        ok = False
    if not ok:
        raise ShapeError("data.py SymbolKindFinder.__call__: work-list loop not found")
    restart = ast.unparse(stuck.body[0]) == _norm(RESTART)
    if restart:
        stuck.body = stuck.body[1:]
    return prepass, restart, _h(_body_src(fn))


def finder_facts(tree):
    prepass, restart, h = finder_shape(tree)
    if h != FINDER_CORE:
        raise ShapeError("data.py SymbolKindFinder.__call__: text changed (got %s want %s)" % (h, FINDER_CORE))
    return prepass, restart


# ------------------------------------------------------------------ pinned functions

# (file, class or None, function) -> accepted hashes of the body text
EXPECT = {
    ('dagrt/data.py', 'KindInferenceMapper', '__init__'): ['920bbf745d3f9353'],
    ('dagrt/data.py', 'KindInferenceMapper', 'map_constant'): ['124d6f80696249c9'],
    ('dagrt/data.py', 'KindInferenceMapper', 'map_variable'): ['58636ea46ce8b293'],
    ('dagrt/data.py', 'KindInferenceMapper', 'map_sum'): ['fd496905173f0f3a'],
    ('dagrt/data.py', 'KindInferenceMapper', 'map_product_like'): ['a94d2bf2498db865'],
    ('dagrt/data.py', 'KindInferenceMapper', 'map_product'): ['d887953015724d61'],
    ('dagrt/data.py', 'KindInferenceMapper', 'map_quotient'): ['b5ef549b6382a04f'],
    ('dagrt/data.py', 'KindInferenceMapper', 'map_comparison'): ['47f599b229b7c045'],
    ('dagrt/data.py', 'KindInferenceMapper', 'map_generic_call'): ['a05c1d1c198fad29'],
    ('dagrt/data.py', 'KindInferenceMapper', 'map_call'): ['fb7e42e32938f067'],
    ('dagrt/data.py', 'KindInferenceMapper', 'map_call_with_kwargs'): ['2f6ad7ae3054d1e8'],
    ('dagrt/data.py', None, '_get_arg_dict_from_call_stmt'): ['37b52e19252e3566'],
    ('dagrt/data.py', None, 'infer_kinds'): ['b83a75233bf01c15'],
    ('dagrt/function_registry.py', 'FunctionRegistry', '__getitem__'): ['932b8a9ea7745891'],
    ('dagrt/function_registry.py', 'Function', 'resolve_args'): ['f019774a5bd39afb'],
    ('dagrt/function_registry.py', '_NormBase', 'get_result_kinds'): ['8582ca56c9f3c803'],
    ('dagrt/function_registry.py', 'ElementwiseAbs', 'get_result_kinds'): ['ab3c4b799fde8254'],
    ('dagrt/function_registry.py', 'DotProduct', 'get_result_kinds'): ['54f572879cf6e102'],
    ('dagrt/function_registry.py', 'Len', 'get_result_kinds'): ['5ae8a313c465fca6'],
    ('dagrt/function_registry.py', 'IsNaN', 'get_result_kinds'): ['11d9cea37c9904c7'],
    ('dagrt/function_registry.py', 'Array_', 'get_result_kinds'): ['33f91c21d348965e'],
    ('dagrt/function_registry.py', 'Print', 'get_result_kinds'): ['350145e90b12ecf5'],
    ('dagrt/function_registry.py', 'FixedResultKindsFunction', 'get_result_kinds'): ['9015951a40e245ba'],
    ('dagrt/function_registry.py', '_ODERightHandSide', 'arg_names'): ['3515c78f74a41367'],
    ('dagrt/function_registry.py', '_ODERightHandSide', 'get_result_kinds'): ['210659b3d94f08b2'],
    ('dagrt/utils.py', None, 'resolve_args'): ['412db2d02833a2c1'],
}

# the matrix built-ins: [hash of the shape reading `.is_real_valued` of any kind,
#                        hash of the shape that is unable unless the matrix arguments are arrays]
MATRIX = {
    'MatMul': ['0c934d440daffc27', 'a22c73f0a2a514d4'],
    'Transpose': ['a5cce528efbdb09b', '6bb26d3354abeafb'],
    'LinearSolve': ['9465138fb62114e3', '37cc76c2d142e6e3'],
    'SVD': ['86b4f7bf36975e1c', 'ce5d9aace5e7dc8c'],
}


def _get(trees, repo, rel, cls, name):
    if rel not in trees:
        trees[rel] = _parse(repo, rel)
    node = trees[rel] if cls is None else _find_class(trees[rel], cls)
    return _find_def(node, name)


def function_hashes(repo):
    trees = {}
    out = {k: _h(_body_src(_get(trees, repo, *k))) for k in EXPECT}
    for cls in MATRIX:
        k = ('dagrt/function_registry.py', cls, 'get_result_kinds')
        out[k] = _h(_body_src(_get(trees, repo, *k)))
    return out


def pinned(repo):
    """Checks the pinned texts; returns builtins_require_arrays."""
    got = function_hashes(repo)
    bad = ["%s %s.%s: got %s want %s" % (k[0], k[1] or "", k[2], got[k], "/".join(EXPECT[k]))
           for k in sorted(EXPECT, key=str) if got[k] not in EXPECT[k]]
    shapes = set()
    for cls, (old, new) in sorted(MATRIX.items()):
        g = got[('dagrt/function_registry.py', cls, 'get_result_kinds')]
        if g == old:
            shapes.add(False)
        elif g == new:
            shapes.add(True)
        else:
            bad.append("dagrt/function_registry.py %s.get_result_kinds: got %s want %s or %s" % (cls, g, old, new))
    if bad:
        raise ShapeError("source of modelled functions changed:\n  " + "\n  ".join(bad))
    if len(shapes) != 1:
        raise ShapeError("function_registry.py: MatMul/Transpose/LinearSolve/SVD.get_result_kinds are not "
                         "all of the same shape")
    return shapes.pop()


# ------------------------------------------------------------------ the base function registry

def _class_attr(cls, name):
    for n in cls.body:
        if isinstance(n, ast.Assign) and len(n.targets) == 1 and _src(n.targets[0]) == name:
            return ast.literal_eval(n.value)
    return None


# class that provides get_result_kinds -> constructor of KindInfer.rkind (coq/model/KindInferCfg.v)
RK_CLASSES = ["_NormBase", "ElementwiseAbs", "DotProduct", "Len", "IsNaN", "Array_", "MatMul", "Transpose",
              "LinearSolve", "SVD", "Print"]


def builtin_facts(repo):
    """[(identifier, arg_names, len(result_names), class providing get_result_kinds)] of the
    functions registered by _make_bfr, in order."""
    tree = _parse(repo, "dagrt/function_registry.py")
    classes = {c.name: c for c in tree.body if isinstance(c, ast.ClassDef)}
    mk = _find_def(tree, "_make_bfr")
    fors = [n for n in mk.body if isinstance(n, ast.For)]
    if len(fors) != 1 or not isinstance(fors[0].iter, ast.List):
        raise ShapeError("function_registry.py _make_bfr: expected one `for func, py_pattern in [...]`")
    if not any(_src(s) == "bfr = bfr.register(func)" for s in fors[0].body):
        raise ShapeError("function_registry.py _make_bfr: expected `bfr = bfr.register(func)`")
    facts = []
    for elt in fors[0].iter.elts:
        if not (isinstance(elt, ast.Tuple) and len(elt.elts) == 2 and isinstance(elt.elts[0], ast.Call)
                and isinstance(elt.elts[0].func, ast.Name) and not elt.elts[0].args
                and not elt.elts[0].keywords):
            raise ShapeError("function_registry.py _make_bfr: unexpected entry %s" % _src(elt))
        cname = elt.elts[0].func.id
        attrs = {}
        c = classes.get(cname)
        chain = []
        while c is not None:
            chain.append(c)
            bases = [b.id for b in c.bases if isinstance(b, ast.Name)]
            c = classes.get(bases[0]) if bases and bases[0] != "Function" else None
        if not chain:
            raise ShapeError("function_registry.py: class %s not found" % cname)
        for key in ("identifier", "arg_names", "result_names", "default_dict"):
            for c in chain:
                v = _class_attr(c, key)
                if v is not None:
                    attrs[key] = v
                    break
            else:
                raise ShapeError("function_registry.py: class %s has no literal %s" % (cname, key))
        if attrs["default_dict"] != {}:
            raise ShapeError("function_registry.py: class %s has defaults (not modelled)" % cname)
        gr = [c.name for c in chain if any(isinstance(n, ast.FunctionDef) and n.name == "get_result_kinds"
                                           for n in c.body)]
        if not gr or gr[0] not in RK_CLASSES:
            raise ShapeError("function_registry.py: built-in %s gets its result kinds from %r (not modelled)"
                             % (attrs["identifier"], gr[:1]))
        # iterating arg_names is what resolve_args does (ElementwiseAbs.arg_names is the string "x")
        facts.append((attrs["identifier"], [str(a) for a in attrs["arg_names"]], len(attrs["result_names"]),
                      gr[0]))
    if len({f[0] for f in facts}) != len(facts):
        raise ShapeError("function_registry.py _make_bfr: duplicate identifiers")
    return facts


def generate(repo):
    tree = _parse(repo, "dagrt/data.py")
    ut_int, arr_int = unify_flags(tree)
    ins_changed, raises, names = set_flags(tree)
    prepass, restart = finder_facts(tree)
    exact, prefixes = state_variable_lists(repo)
    arr_only = pinned(repo)
    facts = builtin_facts(repo)
    out = [HEADER % "c14"]
    out.append("(* dagrt/data.py unify *)")
    out.append("Definition unify_usertype_accepts_int : bool := %s." % coq_bool(ut_int))
    out.append("Definition unify_array_accepts_int : bool := %s." % coq_bool(arr_int))
    out.append("(* dagrt/data.py SymbolKindTable.set *)")
    out.append("Definition set_insert_marks_changed : bool := %s." % coq_bool(ins_changed))
    out.append("Definition set_reraises : bool := %s." % coq_bool(raises))
    out.append("(* dagrt/data.py SymbolKindFinder.__call__ *)")
    out.append("Definition loop_variables_prepass : bool := %s." % coq_bool(prepass))
    out.append("Definition finder_restarts_after_change : bool := %s." % coq_bool(restart))
    out.append("(* dagrt/function_registry.py MatMul / Transpose / LinearSolve / SVD .get_result_kinds *)")
    out.append("Definition builtins_require_arrays : bool := %s." % coq_bool(arr_only))
    out.append("(* dagrt/data.py infer_kinds: `names = list(dag.phases)`, `phases = [phase.statements for phase "
               "in dag.phases.values()]`,\n   `kind_finder(names, phases)` (text pinned; any other text is a "
               "ShapeError) *)")
    out.append("Definition infer_kinds_zips_dict_order : bool := true.")
    out.append("(* dagrt/data.py SymbolKindTable.__init__: names preset to Scalar(is_real_valued=True) *)")
    out.append("Definition init_global_names : list string := %s." % coq_string_list(names))
    out.append("(* dagrt/utils.py is_state_variable *)")
    out.append("Definition state_exact : list string := %s." % coq_string_list(exact))
    out.append("Definition state_prefixes : list string := %s." % coq_string_list(prefixes))
    out.append("(* dagrt/function_registry.py _make_bfr: (identifier, (arg_names, len(result_names)), class whose\n"
               "   get_result_kinds is used) of the registered built-ins, in order *)")
    rows = ["(%s, (%s, %d), %s)" % (coq_string(i), coq_string_list(a), n, coq_string(c)) for i, a, n, c in facts]
    out.append("Definition builtin_facts : list (string * (list string * nat) * string) :=\n  [%s]."
               % ";\n   ".join(rows))
    return "\n".join(out) + "\n"


if __name__ == "__main__":   # development aid: print the current hashes
    import sys
    repo = sys.argv[1] if len(sys.argv) > 1 else "/repo"
    for k, v in sorted(function_hashes(repo).items(), key=str):
        print("    %r: %r," % (k, v))
    print("finder", finder_shape(_parse(repo, "dagrt/data.py")))
