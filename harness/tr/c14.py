"""Facts and shape switches for C14 (dagrt/data.py unify, SymbolKindTable; dagrt/utils.py
is_state_variable) -> coq/gen/GenC14.v"""
import ast

from harness.tr import (HEADER, ShapeError, _find_class, _find_def, _parse, _src, coq_bool,
                        coq_string_list)


def _if_on(fn, test_src):
    hits = [n for n in fn.body if isinstance(n, ast.If) and _src(n.test) == test_src]
    if len(hits) != 1:
        raise ShapeError("data.py unify: expected exactly one top-level `if %s:`" % test_src)
    return hits[0]


def unify_flags(tree):
    fn = _find_def(tree, "unify")
    if [a.arg for a in fn.args.args] != ["kind_a", "kind_b"]:
        raise ShapeError("data.py unify: unexpected signature")
    # the two None tests and the two Boolean tests come first, in this order
    head = [_src(n.test) for n in fn.body[:4] if isinstance(n, ast.If)]
    if head != ["kind_a is None", "kind_b is None", "isinstance(kind_a, Boolean)",
                "isinstance(kind_b, Boolean)"]:
        raise ShapeError("data.py unify: unexpected leading tests %r" % head)
    # UserType branch
    ub = [_src(s) for s in _if_on(fn, "isinstance(kind_a, UserType)").body]
    tail_u = ["if isinstance(kind_b, UserType):\n"
              "    if kind_a.identifier != kind_b.identifier:\n"
              "        raise ValueError('encountered arithmetic with mismatched user types')",
              "return kind_a"]
    if ub == ["assert isinstance(kind_b, (UserType, Scalar))"] + tail_u:
        ut_int = False
    elif ub == ["assert isinstance(kind_b, (UserType, Scalar, Integer))"] + tail_u:
        ut_int = True
    else:
        raise ShapeError("data.py unify: unrecognised UserType branch %r" % ub)
    # Array branch
    ab = [_src(s) for s in _if_on(fn, "isinstance(kind_a, Array)").body]
    ret = "return Array(not (not kind_a.is_real_valued or not kind_b.is_real_valued))"
    if ab == ["assert isinstance(kind_b, (Array, Scalar))", ret]:
        arr_int = False
    elif ab == ["assert isinstance(kind_b, (Array, Scalar, Integer))",
                "if isinstance(kind_b, Integer):\n    return kind_a", ret]:
        arr_int = True
    else:
        raise ShapeError("data.py unify: unrecognised Array branch %r" % ab)
    return ut_int, arr_int


def set_flags(tree):
    cls = _find_class(tree, "SymbolKindTable")
    fn = _find_def(cls, "set")
    outer = [n for n in fn.body if isinstance(n, ast.If) and _src(n.test) == "name in tbl"]
    if len(outer) != 1:
        raise ShapeError("data.py SymbolKindTable.set: expected one `if name in tbl:`")
    outer = outer[0]
    orelse = [_src(s) for s in outer.orelse]
    if orelse == ["tbl[name] = kind"]:
        ins_changed = False
    elif orelse == ["self._changed = True", "tbl[name] = kind"]:
        ins_changed = True
    else:
        raise ShapeError("data.py SymbolKindTable.set: unrecognised insertion branch %r" % orelse)
    if len(outer.body) != 1 or not isinstance(outer.body[0], ast.If) \
            or _src(outer.body[0].test) != "tbl[name] != kind" or outer.body[0].orelse:
        raise ShapeError("data.py SymbolKindTable.set: expected `if tbl[name] != kind:`")
    tries = outer.body[0].body
    if len(tries) != 1 or not isinstance(tries[0], ast.Try):
        raise ShapeError("data.py SymbolKindTable.set: expected a try statement")
    tr = tries[0]
    if [_src(s) for s in tr.body] != ["kind = unify(kind, tbl[name])"]:
        raise ShapeError("data.py SymbolKindTable.set: unexpected try body")
    if [_src(s) for s in tr.orelse] != ["if tbl[name] != kind:\n    self._changed = True\n    tbl[name] = kind"]:
        raise ShapeError("data.py SymbolKindTable.set: unexpected try/else body")
    if len(tr.handlers) != 1 or tr.finalbody or _src(tr.handlers[0].type) != "Exception":
        raise ShapeError("data.py SymbolKindTable.set: unexpected handlers")
    hb = tr.handlers[0].body
    is_print = (len(hb) >= 1 and isinstance(hb[0], ast.Expr) and isinstance(hb[0].value, ast.Call)
                and _src(hb[0].value.func) == "print")
    if is_print and len(hb) == 1:
        raises = False
    elif is_print and len(hb) == 2 and isinstance(hb[1], ast.Raise) and hb[1].exc is None:
        raises = True
    else:
        raise ShapeError("data.py SymbolKindTable.set: unrecognised except body %r" % [_src(s) for s in hb])
    # the preset global table
    init = _find_def(cls, "__init__")
    names = None
    for s in init.body:
        if isinstance(s, ast.Assign) and _src(s.targets[0]) == "self.global_table":
            d = s.value
            if not isinstance(d, ast.Dict):
                raise ShapeError("data.py SymbolKindTable.__init__: global_table is not a dict literal")
            for k, v in zip(d.keys, d.values):
                if not (isinstance(k, ast.Constant) and isinstance(k.value, str)
                        and _src(v) == "Scalar(is_real_valued=True)"):
                    raise ShapeError("data.py SymbolKindTable.__init__: unexpected global_table entry")
            names = [k.value for k in d.keys]
    if names is None:
        raise ShapeError("data.py SymbolKindTable.__init__: global_table not found")
    return ins_changed, raises, names


def state_variable_lists(repo):
    tree = _parse(repo, "dagrt/utils.py")
    fn = _find_def(tree, "is_state_variable")
    ifs = [n for n in fn.body if isinstance(n, ast.If)]
    if len(ifs) != 1 or [a.arg for a in fn.args.args] != ["var"]:
        raise ShapeError("utils.py is_state_variable: unexpected structure")
    top = ifs[0]
    t = top.test
    if not (isinstance(t, ast.Compare) and _src(t.left) == "var" and len(t.ops) == 1
            and isinstance(t.ops[0], ast.In) and isinstance(t.comparators[0], ast.Tuple)
            and all(isinstance(e, ast.Constant) and isinstance(e.value, str) for e in t.comparators[0].elts)
            and _src(top.body[0]) == "return True" and len(top.body) == 1):
        raise ShapeError("utils.py is_state_variable: unexpected first test")
    exact = [e.value for e in t.comparators[0].elts]
    if len(top.orelse) != 1 or not isinstance(top.orelse[0], ast.If):
        raise ShapeError("utils.py is_state_variable: unexpected elif")
    el = top.orelse[0]
    if not (isinstance(el.test, ast.BoolOp) and isinstance(el.test.op, ast.Or)
            and [_src(s) for s in el.body] == ["return True"]
            and [_src(s) for s in el.orelse] == ["return False"]):
        raise ShapeError("utils.py is_state_variable: unexpected elif shape")
    prefixes = []
    for v in el.test.values:
        if not (isinstance(v, ast.Call) and _src(v.func) == "var.startswith" and len(v.args) == 1
                and isinstance(v.args[0], ast.Constant) and isinstance(v.args[0].value, str)):
            raise ShapeError("utils.py is_state_variable: unexpected prefix test %r" % _src(v))
        prefixes.append(v.args[0].value)
    return exact, prefixes


PREPASS = ("for (phase_name, phase) in zip(names, phases):\n"
           "    for stmt in phase:\n"
           "        if isinstance(stmt, lang.Assign):\n"
           "            for (ident, _, _) in stmt.loops:\n"
           "                result.set(phase_name, ident, kind=Integer())")


def finder_facts(tree):
    """Structural facts of SymbolKindFinder.__call__ the model relies on, and the switch for the
    up-front registration of loop variables (a `for` over zip(names, phases) placed between the
    forced kinds and make_kim)."""
    cls = _find_class(tree, "SymbolKindFinder")
    fn = _find_def(cls, "__call__")
    src = _src(fn)
    kinds = []
    for n in fn.body:
        if isinstance(n, ast.If) and _src(n.test) == "forced_kinds is not None":
            kinds.append("forced")
        elif isinstance(n, ast.FunctionDef) and n.name == "make_kim":
            kinds.append("make_kim")
        elif isinstance(n, ast.While):
            kinds.append("while")
        elif isinstance(n, ast.For) and _src(n.iter) == "zip(names, phases)":
            kinds.append("prepass" if ast.unparse(n) == ast.unparse(ast.parse(PREPASS).body[0]) else "for")
    if kinds == ["forced", "make_kim", "while", "for"]:
        prepass = False
    elif kinds == ["forced", "prepass", "make_kim", "while", "for"]:
        prepass = True
    else:
        raise ShapeError("data.py SymbolKindFinder.__call__: unexpected statement sequence %r" % kinds)
    _finder_needles(src)
    return prepass


def _finder_needles(src):
    for needle in ("phase_name, stmt = stmt_queue.pop()",
                   "stmt_queue = stmt_queue_push_buffer",
                   "stmt_queue_push_buffer.append((phase_name, stmt))",
                   "kind = kim(flatten(stmt.expression))",
                   "if not result.is_changed():\n            break",
                   "result.reset_change_flag()",
                   "result.per_phase_table.get(phase_name, {})",
                   "raise RuntimeError('failed to infer kinds')"):
        if needle not in src:
            raise ShapeError("data.py SymbolKindFinder.__call__: expected %r" % needle)


def generate(repo):
    tree = _parse(repo, "dagrt/data.py")
    ut_int, arr_int = unify_flags(tree)
    ins_changed, raises, names = set_flags(tree)
    prepass = finder_facts(tree)
    exact, prefixes = state_variable_lists(repo)
    out = [HEADER % "c14"]
    out.append("(* dagrt/data.py unify *)")
    out.append("Definition unify_usertype_accepts_int : bool := %s." % coq_bool(ut_int))
    out.append("Definition unify_array_accepts_int : bool := %s." % coq_bool(arr_int))
    out.append("(* dagrt/data.py SymbolKindTable.set *)")
    out.append("Definition set_insert_marks_changed : bool := %s." % coq_bool(ins_changed))
    out.append("Definition set_reraises : bool := %s." % coq_bool(raises))
    out.append("(* dagrt/data.py SymbolKindFinder.__call__ *)")
    out.append("Definition loop_variables_prepass : bool := %s." % coq_bool(prepass))
    out.append("(* dagrt/data.py SymbolKindTable.__init__: names preset to Scalar(is_real_valued=True) *)")
    out.append("Definition init_global_names : list string := %s." % coq_string_list(names))
    out.append("(* dagrt/utils.py is_state_variable *)")
    out.append("Definition state_exact : list string := %s." % coq_string_list(exact))
    out.append("Definition state_prefixes : list string := %s." % coq_string_list(prefixes))
    return "\n".join(out) + "\n"
