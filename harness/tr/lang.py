"""Shape switches and declarative facts for the core language model -> coq/gen/GenLang.v

 * lang_lhs_sub_reads    : AssignBase.get_read_variables covers the variables of the lhs subscript
 * lang_loop_bound_reads : Assign.get_read_variables covers the variables of the loop bounds
 * lang_del_guarded      : NumpyInterpreter.exec_Assign removes loop counters without raising when
                           the loop never ran
 * state-variable prefixes (dagrt/utils.py is_state_variable), interpreter-persistent prefixes
   (exec_numpy.run_single_step finally clause), the execution-state token of the builder.
"""
import ast

from harness.tr import (HEADER, ShapeError, _find_class, _find_def, _parse, _src, coq_bool, coq_string,
                        coq_string_list)


def _norm(fn):
    return "\n".join(_src(s) for s in fn.body if not (isinstance(s, ast.Expr) and isinstance(s.value, ast.Constant)))


ASSIGNBASE_OLD = """result = super().get_read_variables()
get_deps = self.get_dependency_mapper()
def get_vars(expr):
    return frozenset((dep.name for dep in get_deps(self.rhs)))
result = get_vars(self.rhs) | get_vars(self.lhs)
return result"""

ASSIGNBASE_NEW = """result = super().get_read_variables()
get_deps = self.get_dependency_mapper()
def get_vars(expr):
    return frozenset((dep.name for dep in get_deps(expr)))
result = get_vars(self.rhs)
from pymbolic.primitives import Subscript
if isinstance(self.lhs, Subscript):
    result = result | get_vars(self.lhs.index)
return result"""

ASSIGN_LOOPS_NEW = """result = super().get_read_variables()
for _ident, start, end in self.loops:
    result = result | get_variables(start) | get_variables(end)
return result"""


def generate(repo):
    out = [HEADER % "lang"]
    lang = _parse(repo, "dagrt/language.py")
    body = _norm(_find_def(_find_class(lang, "AssignBase"), "get_read_variables"))
    if body == ASSIGNBASE_OLD:
        lhs = False
    elif body == ASSIGNBASE_NEW:
        lhs = True
    else:
        raise ShapeError("language.py AssignBase.get_read_variables: unrecognised body:\n" + body)
    assign = _find_class(lang, "Assign")
    defs = [n for n in assign.body if isinstance(n, ast.FunctionDef) and n.name == "get_read_variables"]
    if not defs:
        loops = False
    elif _norm(defs[0]) == ASSIGN_LOOPS_NEW:
        loops = True
    else:
        raise ShapeError("language.py Assign.get_read_variables: unrecognised body:\n" + _norm(defs[0]))
    # MRO facts the model relies on
    bases = {c.name: [_src(b) for b in c.bases] for c in lang.body if isinstance(c, ast.ClassDef)}
    expect = {"Assign": ["Statement", "AssignBase"], "Statement": ["ConditionalStatementBase"],
              "ConditionalStatementBase": ["StatementBase"], "AssignBase": ["StatementBase"],
              "AssignFunctionCall": ["AssignmentBase"], "AssignmentBase": ["Statement"],
              "YieldState": ["Statement"], "Raise": ["Statement"], "SwitchPhase": ["Statement"],
              "FailStep": ["Statement"], "Nop": ["NopBase"]}
    for k, v in expect.items():
        if bases.get(k) != v:
            raise ShapeError("language.py: class %s has bases %r, expected %r" % (k, bases.get(k), v))

    ex = _parse(repo, "dagrt/exec_numpy.py")
    fn = _find_def(_find_class(ex, "NumpyInterpreter"), "exec_Assign")
    fors = [n for n in ast.walk(fn) if isinstance(n, ast.For) and _src(n.target) == "(ident, _, _)"
            and _src(n.iter) == "stmt.loops"]
    if len(fors) != 1 or len(fors[0].body) != 1:
        raise ShapeError("exec_numpy.py exec_Assign: loop-counter removal loop not found")
    rm = _src(fors[0].body[0])
    if rm == "del self.context[ident]":
        guarded = False
    elif rm == "self.context.pop(ident, None)":
        guarded = True
    else:
        raise ShapeError("exec_numpy.py exec_Assign: unrecognised loop-counter removal %r" % rm)

    out.append("Definition lang_lhs_sub_reads : bool := %s." % coq_bool(lhs))
    out.append("Definition lang_loop_bound_reads : bool := %s." % coq_bool(loops))
    out.append("Definition lang_del_guarded : bool := %s." % coq_bool(guarded))

    # is_state_variable: literal tuple + startswith prefixes
    ut = _parse(repo, "dagrt/utils.py")
    isv = _find_def(ut, "is_state_variable")
    exact, prefixes = [], []
    for n in ast.walk(isv):
        if isinstance(n, ast.Compare) and len(n.ops) == 1 and isinstance(n.ops[0], ast.In) \
                and isinstance(n.comparators[0], ast.Tuple):
            exact += [c.value for c in n.comparators[0].elts]
        if isinstance(n, ast.Call) and isinstance(n.func, ast.Attribute) and n.func.attr == "startswith":
            prefixes.append(n.args[0].value)
    rets = [_src(n) for n in ast.walk(isv) if isinstance(n, ast.Return)]
    if sorted(rets) != ["return False", "return True", "return True"] or not exact or not prefixes:
        raise ShapeError("utils.py is_state_variable: unexpected shape")
    out.append("Definition state_exact : list string := %s." % coq_string_list(exact))
    out.append("Definition state_prefixes : list string := %s." % coq_string_list(prefixes))

    # interpreter's own persistence test in run_single_step's finally clause
    rss = _find_def(_find_class(ex, "NumpyInterpreter"), "run_single_step")
    ip, ie = [], []
    for n in ast.walk(rss):
        if isinstance(n, ast.Call) and isinstance(n.func, ast.Attribute) and n.func.attr == "startswith":
            ip.append(n.args[0].value)
        if isinstance(n, ast.Compare) and isinstance(n.ops[0], ast.NotIn) and isinstance(n.comparators[0], ast.List):
            ie += [c.value for c in n.comparators[0].elts]
    if not ip or not ie:
        raise ShapeError("exec_numpy.py run_single_step: persistence test not found")
    out.append("Definition interp_keep_exact : list string := %s." % coq_string_list(ie))
    out.append("Definition interp_keep_prefixes : list string := %s." % coq_string_list(ip))

    cb = _find_class(lang, "CodeBuilder")
    tok = [n.value.value for n in cb.body if isinstance(n, ast.Assign) and _src(n.targets[0]) == "_EXECUTION_STATE"]
    if len(tok) != 1:
        raise ShapeError("language.py CodeBuilder._EXECUTION_STATE not found")
    out.append("Definition exec_state_token : string := %s." % coq_string(tok[0]))
    return "\n".join(out) + "\n"
