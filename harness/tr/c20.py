"""Facts and shape switches for C20 (dagrt/codegen/utils.py wrap_line_base, the padders and the
wrap_line partials of dagrt/codegen/python.py and fortran.py) -> coq/gen/GenC20.v.

Fail-closed: the loop of wrap_line_base, the two padders and (when present) the repaired
tokenizer split_outside_quotes are compared statement by statement with the text the Coq
model (coq/model/Wrap.v) was transcribed from; constants (default width, indentation strings,
continuation markers) are read from the source; the tokenizer each wrap_line partial uses is
one of two recognised shapes (shlex.split(posix=False) | split_outside_quotes).

Emission sites: the loop of the Fortran CodeGenerator.get_code (which lines are exempt from
wrapping -- the comment test and its character are read from the `if` --, the level and
indentation passed to wrap_line, the prefix put back), FortranEmitter.incorporate, the
Python CodeGenerator._emit / emit_def_begin / emit_def_end / get_code,
PythonClassEmitter.__init__ / incorporate and the emitter they all append to
(pytools.codegen.CodeGenerator.__call__, indent_amount) are compared statement by statement
with the text coq/model/WrapEmit.v was transcribed from."""
import ast

from harness.tr import HEADER, ShapeError, _find_class, _find_def, _parse, _src, coq_string

WRAP_BODY = [
    "if lex_func is None:\n    lex_func = functools.partial(shlex.split, posix=False)",
    "tokens = lex_func(line)",
    "resulting_lines = []",
    "at_line_start = True",
    "indentation_len = len(level * indentation)",
    "current_line = ''",
    "padding_width = width - indentation_len",
    "for index, word in enumerate(tokens):\n"
    "    has_next_word = index < len(tokens) - 1\n"
    "    word_len = len(word)\n"
    "    if not at_line_start:\n"
    "        next_len = indentation_len + len(current_line) + 1 + word_len\n"
    "        if next_len < width or (not has_next_word and next_len == width):\n"
    "            current_line += ' ' + word\n"
    "        else:\n"
    "            resulting_lines.append(pad_func(current_line, padding_width))\n"
    "            at_line_start = True\n"
    "            current_line = indentation\n"
    "    if at_line_start:\n"
    "        current_line += word\n"
    "        at_line_start = False",
    "resulting_lines.append(current_line)",
    "return resulting_lines",
]

SPLIT_BODY = [
    "words = []",
    "word = ''",
    "quote = None",
    "escaped = False",
    "for char in line:\n"
    "    if quote is None:\n"
    "        if char in ' \\t\\r\\n':\n"
    "            if word:\n"
    "                words.append(word)\n"
    "                word = ''\n"
    "            continue\n"
    "        if char in '\\'\"':\n"
    "            quote = char\n"
    "    elif escaped:\n"
    "        escaped = False\n"
    "    elif char in escape:\n"
    "        escaped = True\n"
    "    elif char == quote:\n"
    "        quote = None\n"
    "    word += char",
    "if quote is not None:\n    raise ValueError('No closing quotation')",
    "if word:\n    words.append(word)",
    "return words",
]


GET_CODE_BODY = [
    "assert not self.module_emitter.preamble",
    "indent_spaces = @SPACES@",
    "indentation = indent_spaces * ' '",
    "wrapped_lines = []",
    "for line in self.module_emitter.code:\n"
    "    line_leading_spaces = len(line) - len(line.lstrip(' '))\n"
    "    level = line_leading_spaces // indent_spaces\n"
    "    line_ind = level * indentation\n"
    "    if line[line_leading_spaces:].startswith(@CMT@):\n"
    "        wrapped_lines.append(line)\n"
    "    else:\n"
    "        for wrapped_line in wrap_line(line[line_leading_spaces:], level, indentation=indentation):\n"
    "            wrapped_lines.append(line_ind + wrapped_line)",
    "return '\\n'.join(wrapped_lines)",
]

INCORPORATE = "for line in sub_generator.code:\n    self(line)"

# pytools.codegen.CodeGenerator (the emitter both generators append to)
EMITTER_CALL = [
    "if not s.strip():\n"
    "    self.code.append('')\n"
    "else:\n"
    "    if '\\n' in s:\n"
    "        s = remove_common_indentation(s)\n"
    "    for line in s.split('\\n'):\n"
    "        self.code.append(' ' * (self.indent_amount * self.level) + line)"]
EMITTER_GET = ["result = '\\n'.join(self.code)",
               "if self.preamble:\n    result = '\\n'.join(self.preamble) + '\\n' + result",
               "return result"]


def _body(fn):
    body = list(fn.body)
    if body and isinstance(body[0], ast.Expr) and isinstance(body[0].value, ast.Constant) \
            and isinstance(body[0].value.value, str):
        body = body[1:]
    return [_src(s) for s in body]


def _expect(cls, name, args, body, where):
    fn = _find_def(cls, name)
    if _src(fn.args) != args:
        raise ShapeError("%s.%s: unexpected signature (%s)" % (where, name, _src(fn.args)))
    got = _body(fn)
    if got != body:
        raise ShapeError("%s.%s: body differs from the modelled text: %r" % (where, name, got))
    return fn


def emitter_facts():
    """indent_amount and the line-appending method of pytools.codegen.CodeGenerator, read from the
    installed source without importing it."""
    import importlib.util
    spec = importlib.util.find_spec("pytools.codegen")
    if spec is None or not spec.origin or not spec.origin.endswith(".py"):
        raise ShapeError("pytools.codegen: source not found")
    with open(spec.origin) as f:
        tree = ast.parse(f.read(), filename=spec.origin)
    cg = _find_class(tree, "CodeGenerator")
    if cg.bases:
        raise ShapeError("pytools.codegen.CodeGenerator: unexpected base classes")
    init = _find_def(cg, "__init__")
    body = _body(init)
    amount = None
    for st in init.body:
        if isinstance(st, ast.Assign) and len(st.targets) == 1 and _src(st.targets[0]) == "self.indent_amount":
            amount = _const(st.value, int, "pytools.codegen.CodeGenerator indent_amount")
    if amount is None or amount < 1 or body != ["self.preamble = []", "self.code = []", "self.level = 0",
                                                "self.indent_amount = %d" % amount]:
        raise ShapeError("pytools.codegen.CodeGenerator.__init__: unexpected body %r" % body)
    _expect(cg, "__call__", "self, s: str", EMITTER_CALL, "pytools.codegen.CodeGenerator")
    _expect(cg, "get", "self", EMITTER_GET, "pytools.codegen.CodeGenerator")
    _expect(cg, "indent", "self", ["self.level += 1"], "pytools.codegen.CodeGenerator")
    # py_codegen's emitters add nothing to __call__ / __init__ state
    spec2 = importlib.util.find_spec("pytools.py_codegen")
    with open(spec2.origin) as f:
        tree2 = ast.parse(f.read(), filename=spec2.origin)
    pcg = _find_class(tree2, "PythonCodeGenerator")
    if [_src(b) for b in pcg.bases] != ["CodeGeneratorBase"] or any(
            isinstance(n, ast.FunctionDef) and n.name in ("__call__", "__init__", "get", "indent", "dedent")
            for n in pcg.body):
        raise ShapeError("pytools.py_codegen.PythonCodeGenerator: overrides the emitter")
    pfg = _find_class(tree2, "PythonFunctionGenerator")
    if [_src(b) for b in pfg.bases] != ["PythonCodeGenerator"]:
        raise ShapeError("pytools.py_codegen.PythonFunctionGenerator: unexpected base classes")
    fi = _find_def(pfg, "__init__")
    if _body(fi) != ["super().__init__()", "self.name = name",
                     "for decorator in decorators:\n    self(decorator)",
                     "self('def {}({}):'.format(name, ', '.join(args)))", "self.indent()"]:
        raise ShapeError("pytools.py_codegen.PythonFunctionGenerator.__init__: unexpected body")
    return amount


def _const(node, typ, what):
    if not isinstance(node, ast.Constant) or type(node.value) is not typ:
        raise ShapeError("%s: expected a %s literal, found %s" % (what, typ.__name__, _src(node)))
    return node.value


def wrap_base_facts(repo):
    tree = _parse(repo, "dagrt/codegen/utils.py")
    fn = _find_def(tree, "wrap_line_base")
    a = fn.args
    names = [x.arg for x in a.args]
    if names != ["line", "level", "width", "indentation", "pad_func", "lex_func"] or a.vararg or a.kwarg \
            or a.kwonlyargs or len(a.defaults) != 5:
        raise ShapeError("utils.py wrap_line_base: unexpected signature (%s)" % _src(a))
    level0 = _const(a.defaults[0], int, "wrap_line_base level default")
    width = _const(a.defaults[1], int, "wrap_line_base width default")
    indentation = _const(a.defaults[2], str, "wrap_line_base indentation default")
    if level0 != 0:
        raise ShapeError("utils.py wrap_line_base: default level is not 0")
    if _src(a.defaults[3]) != "lambda string, amount: string" or _src(a.defaults[4]) != "None":
        raise ShapeError("utils.py wrap_line_base: unexpected pad_func/lex_func defaults")
    body = _body(fn)
    if body != WRAP_BODY:
        for i, (x, y) in enumerate(zip(body, WRAP_BODY)):
            if x != y:
                raise ShapeError("utils.py wrap_line_base: statement %d differs from the modelled text: %r" % (i, x))
        raise ShapeError("utils.py wrap_line_base: number of statements differs from the modelled text")
    has_split = any(isinstance(n, ast.FunctionDef) and n.name == "split_outside_quotes" for n in tree.body)
    if has_split:
        sp = _find_def(tree, "split_outside_quotes")
        if _src(sp.args) != "line, escape=''":
            raise ShapeError("utils.py split_outside_quotes: unexpected signature (%s)" % _src(sp.args))
        if _body(sp) != SPLIT_BODY:
            raise ShapeError("utils.py split_outside_quotes: body differs from the modelled text")
    return width, indentation, has_split


def _padder(tree, name, fname):
    fn = _find_def(tree, name)
    if _src(fn.args) != "line, width":
        raise ShapeError("%s %s: unexpected signature" % (fname, name))
    if len(fn.body) != 3:
        raise ShapeError("%s %s: expected three statements" % (fname, name))
    s0, s1, s2 = fn.body
    if _src(s0) != "line += ' ' * (width - 1 - len(line))" or _src(s2) != "return line":
        raise ShapeError("%s %s: padding differs from the modelled text" % (fname, name))
    if not (isinstance(s1, ast.AugAssign) and isinstance(s1.op, ast.Add) and _src(s1.target) == "line"):
        raise ShapeError("%s %s: marker statement not recognised" % (fname, name))
    marker = _const(s1.value, str, "%s %s marker" % (fname, name))
    if len(marker) != 1 or ord(marker) > 126 or ord(marker) < 33:
        raise ShapeError("%s %s: marker is not one printable ASCII character" % (fname, name))
    return marker


def _partial(tree, fname, padname, has_split, esc_expected):
    assigns = [n for n in tree.body if isinstance(n, ast.Assign) and len(n.targets) == 1
               and _src(n.targets[0]) == "wrap_line"]
    if len(assigns) != 1:
        raise ShapeError("%s: expected exactly one module-level wrap_line = ..." % fname)
    text = _src(assigns[0].value)
    plain = "partial(wrap_line_base, pad_func=%s)" % padname
    if esc_expected:
        fixed = "partial(wrap_line_base, pad_func=%s, lex_func=partial(split_outside_quotes, escape='\\\\'))" % padname
    else:
        fixed = "partial(wrap_line_base, pad_func=%s, lex_func=split_outside_quotes)" % padname
    if text == plain:
        return "LexShlex"
    if text == fixed:
        if not has_split:
            raise ShapeError("%s: wrap_line uses split_outside_quotes but utils.py does not define it" % fname)
        return "(LexQuoted %s)" % ("true" if esc_expected else "false")
    raise ShapeError("%s: wrap_line = %s is neither of the two recognised shapes" % (fname, text))


def python_facts(repo, has_split):
    tree = _parse(repo, "dagrt/codegen/python.py")
    marker = _padder(tree, "pad_python", "python.py")
    lex = _partial(tree, "python.py", "pad_python", has_split, True)
    emit = _find_def(_find_class(tree, "CodeGenerator"), "_emit")
    if [_src(s) for s in emit.body] != [
            "level = self._class_emitter.level + self._emitter.level",
            "for wrapped_line in wrap_line(line, level):\n    self._emitter(wrapped_line)"]:
        raise ShapeError("python.py CodeGenerator._emit: unexpected body")
    cg = _find_class(tree, "CodeGenerator")
    _expect(cg, "emit_def_begin", "self, name",
            ["self._emitter = PythonFunctionEmitter('phase_' + name, ('self',))",
             "self._name_manager.clear_locals()"], "python.py CodeGenerator")
    _expect(cg, "emit_def_end", "self",
            ["self._emit('')", "self._class_emitter.incorporate(self._emitter)", "del self._emitter"],
            "python.py CodeGenerator")
    _expect(cg, "get_code", "self", ["return self._class_emitter.get()"], "python.py CodeGenerator")
    ce = _find_class(tree, "PythonClassEmitter")
    if [_src(b) for b in ce.bases] != ["PythonEmitter"]:
        raise ShapeError("python.py PythonClassEmitter: unexpected base classes")
    _expect(ce, "__init__", "self, class_name, superclass='object'",
            ["super().__init__()", "self('from __future__ import division, print_function')",
             "self('class {cls}({superclass}):'.format(cls=class_name, superclass=superclass))",
             "self.indent()"], "python.py PythonClassEmitter")
    _expect(ce, "incorporate", "self, sub_generator", [INCORPORATE], "python.py PythonClassEmitter")
    imports = [_src(n) for n in tree.body if isinstance(n, ast.ImportFrom) and n.module == "pytools.py_codegen"]
    if imports != ["from pytools.py_codegen import PythonCodeGenerator as PythonEmitter, "
                   "PythonFunctionGenerator as PythonFunctionEmitter"]:
        raise ShapeError("python.py: the emitters are not pytools.py_codegen's (%r)" % imports)
    return marker, lex


def fortran_facts(repo, has_split):
    tree = _parse(repo, "dagrt/codegen/fortran.py")
    marker = _padder(tree, "pad_fortran", "fortran.py")
    lex = _partial(tree, "fortran.py", "pad_fortran", has_split, False)
    cg = _find_class(tree, "CodeGenerator")
    gc = _find_def(cg, "get_code")
    if _src(gc.args) != "self":
        raise ShapeError("fortran.py get_code: unexpected signature")
    body = _body(gc)
    if len(body) != len(GET_CODE_BODY):
        raise ShapeError("fortran.py get_code: number of statements differs from the modelled text")
    stmts = [n for n in gc.body if not (isinstance(n, ast.Expr) and isinstance(n.value, ast.Constant))]
    # indent_spaces = <positive int>
    s1 = stmts[1]
    if not (isinstance(s1, ast.Assign) and len(s1.targets) == 1 and _src(s1.targets[0]) == "indent_spaces"):
        raise ShapeError("fortran.py get_code: indent_spaces = <int> not found")
    spaces = _const(s1.value, int, "fortran.py get_code indent_spaces")
    if spaces < 1:
        raise ShapeError("fortran.py get_code: indent_spaces is not positive")
    # the comment test: if line[line_leading_spaces:].startswith(<one character>):
    loop = stmts[4]
    cmt, test = None, "loop body not recognised"
    if isinstance(loop, ast.For) and len(loop.body) == 4 and isinstance(loop.body[3], ast.If):
        t = loop.body[3].test
        test = _src(t)
        if (isinstance(t, ast.Call) and isinstance(t.func, ast.Attribute) and t.func.attr == "startswith"
                and _src(t.func.value) == "line[line_leading_spaces:]" and len(t.args) == 1 and not t.keywords):
            cmt = _const(t.args[0], str, "fortran.py get_code comment test")
    if cmt is None:
        raise ShapeError("fortran.py get_code: the test that exempts lines from wrapping is not "
                         "`line[line_leading_spaces:].startswith(<character>)`: %s" % test)
    if len(cmt) != 1 or not (33 <= ord(cmt) <= 126) or cmt in "'\"&":
        raise ShapeError("fortran.py get_code: comment character %r is not one printable ASCII character" % cmt)
    want = [x.replace("@SPACES@", str(spaces)).replace("@CMT@", repr(cmt)) for x in GET_CODE_BODY]
    for i, (x, y) in enumerate(zip(body, want)):
        if x != y:
            raise ShapeError("fortran.py get_code: statement %d differs from the modelled text: %r" % (i, x))
    _expect(cg, "emit", "self, line", ["self.emitter(line)"], "fortran.py CodeGenerator")
    fe = _find_class(tree, "FortranEmitter")
    if [_src(b) for b in fe.bases] != ["FortranEmitterBase"]:
        raise ShapeError("fortran.py FortranEmitter: unexpected base classes")
    _expect(fe, "incorporate", "self, sub_generator", [INCORPORATE], "fortran.py FortranEmitter")
    imports = [_src(n) for n in tree.body if isinstance(n, ast.ImportFrom) and n.module == "pytools.py_codegen"]
    if imports != ["from pytools.py_codegen import PythonCodeGenerator as FortranEmitterBase"]:
        raise ShapeError("fortran.py: the emitter base is not pytools.py_codegen's (%r)" % imports)
    return marker, lex, spaces, cmt


def facts(repo):
    width, indentation, has_split = wrap_base_facts(repo)
    pm, pl = python_facts(repo, has_split)
    fm, fl, spaces, cmt = fortran_facts(repo, has_split)
    amount = emitter_facts()
    return dict(width=width, indentation=indentation, python_marker=pm, python_lex=pl,
                fortran_marker=fm, fortran_lex=fl, fortran_indentation=" " * spaces,
                fortran_indent_spaces=spaces, fortran_comment=cmt, emitter_indent_amount=amount)


def generate(repo):
    f = facts(repo)
    out = [HEADER % "c20"]
    out.append("From Coq Require Import Ascii.\nFrom Dagrt Require Import Wrap.\n")
    out.append("(* dagrt/codegen/utils.py wrap_line_base (loop compared with the modelled text) *)")
    out.append("Definition default_width : Z := %d." % f["width"])
    out.append("Definition default_indentation : string := %s." % coq_string(f["indentation"]))
    out.append("(* dagrt/codegen/python.py pad_python, wrap_line *)")
    out.append('Definition python_marker : ascii := "%03d"%%char.' % ord(f["python_marker"]))
    out.append("Definition python_lex : lexkind := %s." % f["python_lex"])
    out.append("(* dagrt/codegen/fortran.py pad_fortran, wrap_line, CodeGenerator.get_code *)")
    out.append('Definition fortran_marker : ascii := "%03d"%%char.' % ord(f["fortran_marker"]))
    out.append("Definition fortran_lex : lexkind := %s." % f["fortran_lex"])
    out.append("Definition fortran_indentation : string := %s." % coq_string(f["fortran_indentation"]))
    out.append("Definition fortran_indent_spaces : nat := %d." % f["fortran_indent_spaces"])
    out.append('Definition fortran_comment : ascii := "%03d"%%char.' % ord(f["fortran_comment"]))
    out.append("(* pytools.codegen.CodeGenerator (the emitter of both generators) *)")
    out.append("Definition emitter_indent_amount : nat := %d." % f["emitter_indent_amount"])
    return "\n".join(out) + "\n"
