"""Facts and shape switches for C20 (dagrt/codegen/utils.py wrap_line_base, the padders and the
wrap_line partials of dagrt/codegen/python.py and fortran.py) -> coq/gen/GenC20.v.

Fail-closed: the loop of wrap_line_base, the two padders and (when present) the repaired
tokenizer split_outside_quotes are compared statement by statement with the text the Coq
model (coq/model/Wrap.v) was transcribed from; constants (default width, indentation strings,
continuation markers) are read from the source; the tokenizer each wrap_line partial uses is
one of two recognised shapes (shlex.split(posix=False) | split_outside_quotes)."""
import ast

from harness.tr import HEADER, ShapeError, _find_class, _find_def, _parse, _src, coq_string

WRAP_BODY = [
    "if lex_func is None:\n    lex_func = functools.partial(shlex.split, posix=False)",
    "tokens = lex_func(line)",
    "resulting_lines = []",
    "at_line_start = True",
    "indentation_len = len(level * indentation)",
    "current_line = ''",
    "padding_width = width - indentation_len",
    "for index, word in enumerate(tokens):\n"
    "    has_next_word = index < len(tokens) - 1\n"
    "    word_len = len(word)\n"
    "    if not at_line_start:\n"
    "        next_len = indentation_len + len(current_line) + 1 + word_len\n"
    "        if next_len < width or (not has_next_word and next_len == width):\n"
    "            current_line += ' ' + word\n"
    "        else:\n"
    "            resulting_lines.append(pad_func(current_line, padding_width))\n"
    "            at_line_start = True\n"
    "            current_line = indentation\n"
    "    if at_line_start:\n"
    "        current_line += word\n"
    "        at_line_start = False",
    "resulting_lines.append(current_line)",
    "return resulting_lines",
]

SPLIT_BODY = [
    "words = []",
    "word = ''",
    "quote = None",
    "escaped = False",
    "for char in line:\n"
    "    if quote is None:\n"
    "        if char in ' \\t\\r\\n':\n"
    "            if word:\n"
    "                words.append(word)\n"
    "                word = ''\n"
    "            continue\n"
    "        if char in '\\'\"':\n"
    "            quote = char\n"
    "    elif escaped:\n"
    "        escaped = False\n"
    "    elif char in escape:\n"
    "        escaped = True\n"
    "    elif char == quote:\n"
    "        quote = None\n"
    "    word += char",
    "if quote is not None:\n    raise ValueError('No closing quotation')",
    "if word:\n    words.append(word)",
    "return words",
]


def _body(fn):
    body = list(fn.body)
    if body and isinstance(body[0], ast.Expr) and isinstance(body[0].value, ast.Constant) \
            and isinstance(body[0].value.value, str):
        body = body[1:]
    return [_src(s) for s in body]


def _const(node, typ, what):
    if not isinstance(node, ast.Constant) or type(node.value) is not typ:
        raise ShapeError("%s: expected a %s literal, found %s" % (what, typ.__name__, _src(node)))
    return node.value


def wrap_base_facts(repo):
    tree = _parse(repo, "dagrt/codegen/utils.py")
    fn = _find_def(tree, "wrap_line_base")
    a = fn.args
    names = [x.arg for x in a.args]
    if names != ["line", "level", "width", "indentation", "pad_func", "lex_func"] or a.vararg or a.kwarg \
            or a.kwonlyargs or len(a.defaults) != 5:
        raise ShapeError("utils.py wrap_line_base: unexpected signature (%s)" % _src(a))
    level0 = _const(a.defaults[0], int, "wrap_line_base level default")
    width = _const(a.defaults[1], int, "wrap_line_base width default")
    indentation = _const(a.defaults[2], str, "wrap_line_base indentation default")
    if level0 != 0:
        raise ShapeError("utils.py wrap_line_base: default level is not 0")
    if _src(a.defaults[3]) != "lambda string, amount: string" or _src(a.defaults[4]) != "None":
        raise ShapeError("utils.py wrap_line_base: unexpected pad_func/lex_func defaults")
    body = _body(fn)
    if body != WRAP_BODY:
        for i, (x, y) in enumerate(zip(body, WRAP_BODY)):
            if x != y:
                raise ShapeError("utils.py wrap_line_base: statement %d differs from the modelled text: %r" % (i, x))
        raise ShapeError("utils.py wrap_line_base: number of statements differs from the modelled text")
    has_split = any(isinstance(n, ast.FunctionDef) and n.name == "split_outside_quotes" for n in tree.body)
    if has_split:
        sp = _find_def(tree, "split_outside_quotes")
        if _src(sp.args) != "line, escape=''":
            raise ShapeError("utils.py split_outside_quotes: unexpected signature (%s)" % _src(sp.args))
        if _body(sp) != SPLIT_BODY:
            raise ShapeError("utils.py split_outside_quotes: body differs from the modelled text")
    return width, indentation, has_split


def _padder(tree, name, fname):
    fn = _find_def(tree, name)
    if _src(fn.args) != "line, width":
        raise ShapeError("%s %s: unexpected signature" % (fname, name))
    if len(fn.body) != 3:
        raise ShapeError("%s %s: expected three statements" % (fname, name))
    s0, s1, s2 = fn.body
    if _src(s0) != "line += ' ' * (width - 1 - len(line))" or _src(s2) != "return line":
        raise ShapeError("%s %s: padding differs from the modelled text" % (fname, name))
    if not (isinstance(s1, ast.AugAssign) and isinstance(s1.op, ast.Add) and _src(s1.target) == "line"):
        raise ShapeError("%s %s: marker statement not recognised" % (fname, name))
    marker = _const(s1.value, str, "%s %s marker" % (fname, name))
    if len(marker) != 1 or ord(marker) > 126 or ord(marker) < 33:
        raise ShapeError("%s %s: marker is not one printable ASCII character" % (fname, name))
    return marker


def _partial(tree, fname, padname, has_split, esc_expected):
    assigns = [n for n in tree.body if isinstance(n, ast.Assign) and len(n.targets) == 1
               and _src(n.targets[0]) == "wrap_line"]
    if len(assigns) != 1:
        raise ShapeError("%s: expected exactly one module-level wrap_line = ..." % fname)
    text = _src(assigns[0].value)
    plain = "partial(wrap_line_base, pad_func=%s)" % padname
    if esc_expected:
        fixed = "partial(wrap_line_base, pad_func=%s, lex_func=partial(split_outside_quotes, escape='\\\\'))" % padname
    else:
        fixed = "partial(wrap_line_base, pad_func=%s, lex_func=split_outside_quotes)" % padname
    if text == plain:
        return "LexShlex"
    if text == fixed:
        if not has_split:
            raise ShapeError("%s: wrap_line uses split_outside_quotes but utils.py does not define it" % fname)
        return "(LexQuoted %s)" % ("true" if esc_expected else "false")
    raise ShapeError("%s: wrap_line = %s is neither of the two recognised shapes" % (fname, text))


def python_facts(repo, has_split):
    tree = _parse(repo, "dagrt/codegen/python.py")
    marker = _padder(tree, "pad_python", "python.py")
    lex = _partial(tree, "python.py", "pad_python", has_split, True)
    emit = _find_def(_find_class(tree, "CodeGenerator"), "_emit")
    if [_src(s) for s in emit.body] != [
            "level = self._class_emitter.level + self._emitter.level",
            "for wrapped_line in wrap_line(line, level):\n    self._emitter(wrapped_line)"]:
        raise ShapeError("python.py CodeGenerator._emit: unexpected body")
    return marker, lex


def fortran_facts(repo, has_split):
    tree = _parse(repo, "dagrt/codegen/fortran.py")
    marker = _padder(tree, "pad_fortran", "fortran.py")
    lex = _partial(tree, "fortran.py", "pad_fortran", has_split, False)
    gc = _find_def(_find_class(tree, "CodeGenerator"), "get_code")
    stmts = {_src(s) for s in ast.walk(gc) if isinstance(s, (ast.Assign, ast.Call))}
    spaces = None
    for s in ast.walk(gc):
        if isinstance(s, ast.Assign) and _src(s.targets[0]) == "indent_spaces":
            spaces = _const(s.value, int, "fortran.py get_code indent_spaces")
    if spaces is None or spaces < 1:
        raise ShapeError("fortran.py get_code: indent_spaces = <positive int> not found")
    for need in ("indentation = indent_spaces * ' '",
                 "wrap_line(line[line_leading_spaces:], level, indentation=indentation)"):
        if need not in stmts:
            raise ShapeError("fortran.py get_code: %r not found" % need)
    return marker, lex, " " * spaces


def facts(repo):
    width, indentation, has_split = wrap_base_facts(repo)
    pm, pl = python_facts(repo, has_split)
    fm, fl, find = fortran_facts(repo, has_split)
    return dict(width=width, indentation=indentation, python_marker=pm, python_lex=pl,
                fortran_marker=fm, fortran_lex=fl, fortran_indentation=find)


def generate(repo):
    f = facts(repo)
    out = [HEADER % "c20"]
    out.append("From Coq Require Import Ascii.\nFrom Dagrt Require Import Wrap.\n")
    out.append("(* dagrt/codegen/utils.py wrap_line_base (loop compared with the modelled text) *)")
    out.append("Definition default_width : Z := %d." % f["width"])
    out.append("Definition default_indentation : string := %s." % coq_string(f["indentation"]))
    out.append("(* dagrt/codegen/python.py pad_python, wrap_line *)")
    out.append('Definition python_marker : ascii := "%03d"%%char.' % ord(f["python_marker"]))
    out.append("Definition python_lex : lexkind := %s." % f["python_lex"])
    out.append("(* dagrt/codegen/fortran.py pad_fortran, wrap_line, CodeGenerator.get_code *)")
    out.append('Definition fortran_marker : ascii := "%03d"%%char.' % ord(f["fortran_marker"]))
    out.append("Definition fortran_lex : lexkind := %s." % f["fortran_lex"])
    out.append("Definition fortran_indentation : string := %s." % coq_string(f["fortran_indentation"]))
    return "\n".join(out) + "\n"
