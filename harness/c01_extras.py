"""C01, oracle-only stream outside the Coq model's universe: floating-point time stepping bounded by
t_end (round-off in <t>), and the built-in functions called positionally and by keyword.  Each program is
written with the real CodeBuilder, run by the real NumpyInterpreter and by the class the real
PythonCodeGenerator emits, and the two observation sequences (every event with all its fields, next_phase
and the persistent state after every step, how the run ends) must be identical, floats bit for bit.
"""
import itertools


def parse(s):
    from dagrt.expression import parse as p
    return p(s)


def xcanon(v):
    """value -> JSON-able, exact (floats as hex)"""
    import numpy as np
    if v is None or isinstance(v, (str, bool)):
        return v
    if isinstance(v, np.bool_):
        return bool(v)
    if isinstance(v, (int, np.integer)):
        return int(v)
    if isinstance(v, (float, np.floating)):
        return float(v).hex()
    if isinstance(v, (complex, np.complexfloating)):
        return ["c", float(v.real).hex(), float(v.imag).hex()]
    if isinstance(v, np.ndarray):
        return ["arr", list(v.shape), [xcanon(x) for x in v.ravel().tolist()]]
    if isinstance(v, (tuple, list)):
        return [xcanon(x) for x in v]
    return ["other", type(v).__name__]


# ------------------------------------------------------------------ programs

def p_float_time(cb_cls):
    """y' = -y by explicit Euler; <t> advanced by <dt>"""
    with cb_cls("main") as cb:
        cb.assign("<state>y", "<state>y + <dt> * (0 - <state>y)")
        cb.yield_state("<state>y", "y", parse("<t> + <dt>"), "final")
        cb.assign("<t>", "<t> + <dt>")
    return {"main": cb.as_execution_phase("main")}, "main"


def p_float_time_two_phase(cb_cls):
    with cb_cls("boot") as cb:
        cb.assign("<p>k", "<dt> * <state>y")
        cb.assign("<t>", "<t> + <dt>")
        cb.yield_state("<p>k", "k", parse("<t>"), "boot")
    with cb_cls("main") as cb2:
        cb2.assign("<state>y", "<state>y - <p>k / 2")
        cb2.assign("<p>k", "<dt> * <state>y")
        cb2.assign("<t>", "<t> + <dt>")
        cb2.yield_state("<state>y", "y", parse("<t>"), "final")
    return {"boot": cb.as_execution_phase("main"), "main": cb2.as_execution_phase("main")}, "boot"


def p_constants(cb_cls):
    """special floating-point constants, NumPy-typed constants and a NumPy object array of expressions in
    right-hand sides (how the generated code spells them)"""
    import numpy as np
    from pymbolic import var
    from pymbolic.primitives import Max, Min
    y, dt = var("<state>y"), var("<dt>")
    tbl = np.empty(3, dtype=object)
    tbl[0], tbl[1], tbl[2] = dt, 2 * dt + y, np.float64(0.5) * y
    with cb_cls("main") as cb:
        cb.assign("big", Min((y, float("inf"))))
        cb.assign("small", Max((y, float("-inf"))))
        cb.assign("nn", float("nan") + y)
        cb.assign("k", tbl)
        cb.assign("h", np.float32(0.1) * y + np.int64(3) + np.float64(-2.5) ** 2)
        cb.assign("<state>y", "big + small + h + <dt>")
        cb.assign("<t>", "<t> + <dt>")
        cb.yield_state("k", "k", parse("<t>"), "final")
        cb.yield_state("nn", "nn", parse("<t>"), "final")
        cb.yield_state("<state>y", "y", parse("<t>"), "final")
    return {"main": cb.as_execution_phase("main")}, "main"


def builtin_program(form):
    """every built-in once; `form` = 'pos' (positional) or 'kw' (by keyword)"""
    def call(f, names, args):
        if form == "pos":
            return "<builtin>%s(%s)" % (f, ", ".join(args))
        return "<builtin>%s(%s)" % (f, ", ".join("%s=%s" % (n, a) for n, a in zip(names, args)))

    def prog(cb_cls):
        with cb_cls("main") as cb:
            cb.assign("n", call("len", ["x"], ["<state>b"]))
            cb.assign("ab", call("elementwise_abs", ["x"], ["<state>b"]))
            cb.assign("nn", call("isnan", ["x"], ["<state>b"]))
            cb.assign("n1", call("norm_1", ["x"], ["<state>b"]))
            cb.assign("n2", call("norm_2", ["x"], ["<state>b"]))
            cb.assign("ni", call("norm_inf", ["x"], ["<state>b"]))
            cb.assign("dp", call("dot_product", ["x", "y"], ["<state>b", "ab"]))
            cb.assign("z", call("array", ["n"], ["n"]))
            cb.assign("mm", call("matmul", ["a", "b", "a_cols", "b_cols"], ["<state>m", "<state>m", "2", "2"]))
            cb.assign("mv", call("matmul", ["a", "b", "a_cols", "b_cols"], ["<state>m", "<state>v", "2", "1"]))
            cb.assign("tr", call("transpose", ["a", "a_cols"], ["<state>m", "2"]))
            cb.assign("ls", call("linear_solve", ["a", "b", "a_cols", "b_cols"], ["<state>m", "<state>v", "2", "1"]))
            cb.assign("<state>b", "ab + n1 + n2 + ni + dp + n")
            cb.assign("<state>v", "mv + ls")
            cb.assign("<state>m", "mm + tr")
            cb.assign("<t>", "<t> + <dt>")
            cb.yield_state("<state>b", "b", parse("<t>"), "final")
            cb.yield_state("<state>m", "m", parse("<t>"), "final")
            cb.yield_state("<state>v", "v", parse("<t>"), "final")
            cb.yield_state("nn", "nn", parse("<t>"), "final")
            cb.assign("zl", call("len", ["x"], ["z"]))        # array(n) is uninitialised storage: only its length
            cb.yield_state("zl", "zl", parse("<t>"), "final")
        return {"main": cb.as_execution_phase("main")}, "main"
    return prog


def extras():
    """[(name, program, init context, t_start, dt, run kwargs)]"""
    import numpy as np
    out = []
    for dt, t_end in itertools.product([0.1, 0.25, 0.3, 1.0 / 3, 0.7, 1e-3], [0.3, 0.7, 1.0, 2.1]):
        if t_end / dt > 60:
            continue
        out.append(("float_time dt=%r t_end=%r" % (dt, t_end), p_float_time, {"y": 1.0}, 0.0, dt, {"t_end": t_end}))
    for dt, t_end in [(0.1, 1.0), (0.1, 0.3), (0.25, 1.0), (0.2, 0.6)]:
        out.append(("float_time_two_phase dt=%r t_end=%r" % (dt, t_end), p_float_time_two_phase, {"y": 2.0}, 0.0, dt,
                    {"t_end": t_end}))
    out.append(("float_time max_steps", p_float_time, {"y": 1.0}, 0.5, 0.1, {"max_steps": 7}))
    out.append(("constants", p_constants, {"y": 1.25}, 0.0, 0.5, {"max_steps": 3}))
    for form in ("pos", "kw"):
        init = {"b": np.array([1.5, -2.0, 0.25]), "m": np.array([2.0, 1.0, 0.5, 3.0]), "v": np.array([1.0, -1.0])}
        out.append(("builtins %s" % form, builtin_program(form), init, 0, 1, {"max_steps": 2}))
    return out


# ------------------------------------------------------------------ running

def observe(stepper, kw, names, getter, classes, limit=200):
    sc, sf, st = classes
    evs, end = [], "stopped"
    try:
        for n, e in enumerate(stepper.run(**kw)):
            if n >= limit:
                end = "cut"
                break
            if isinstance(e, st):
                evs.append(["yield", e.component_id, e.time_id, xcanon(e.t), xcanon(e.state_component)])
            elif isinstance(e, sc):
                cur = getattr(e, "current_state", None) or getattr(e, "current_phase", None)
                evs.append(["completed", xcanon(e.dt), xcanon(e.t), cur, e.next_phase, [xcanon(getter(x)) for x in names]])
            elif isinstance(e, sf):
                evs.append(["failed", xcanon(e.t), [xcanon(getter(x)) for x in names]])
            else:
                evs.append(["other", type(e).__name__])
    except Exception as ex:  # noqa: BLE001
        end = "exception %s" % type(ex).__name__
    return {"events": evs, "end": end, "next": stepper.next_phase}


def run_extra(ex):
    from dagrt.codegen import PythonCodeGenerator
    from dagrt.exec_numpy import NumpyInterpreter, StateComputed, StepCompleted, StepFailed
    from dagrt.language import CodeBuilder, DAGCode
    name, prog, init, t0, dt, kw = ex
    import copy
    phases, first = prog(CodeBuilder)
    code = DAGCode(phases=phases, initial_phase=first)
    names = sorted({"<state>" + k for k in init} | {"<t>", "<dt>"})
    interp = NumpyInterpreter(code, {})
    interp.set_up(t_start=t0, dt_start=dt, context=copy.deepcopy(init))
    ri = observe(interp, kw, names, lambda n: interp.context.get(n), (StepCompleted, StepFailed, StateComputed))
    try:
        cg = PythonCodeGenerator(class_name="Method")
        cls = cg.get_class(code)
        m = cls({})
        m.set_up(t_start=t0, dt_start=dt, context=copy.deepcopy(init))
        nm = cg._name_manager
        rg = observe(m, kw, names, lambda n: getattr(m, nm.name_global(n)[5:], None),
                     (cls.StepCompleted, cls.StepFailed, cls.StateComputed))
    except Exception as ex2:  # noqa: BLE001
        rg = {"events": [], "end": "codegen failed: %s: %s" % (type(ex2).__name__, str(ex2)[:200]), "next": None}
    return ri, rg


def first_difference(ri, rg):
    for i, (a, b) in enumerate(itertools.zip_longest(ri["events"], rg["events"])):
        if a != b:
            return {"event_index": i, "interpreter": a, "generated": b}
    if (ri["end"], ri["next"]) != (rg["end"], rg["next"]):
        return {"interpreter": [ri["end"], ri["next"]], "generated": [rg["end"], rg["next"]]}
    return None


def check_all():
    """[(name, difference)] for the extras on which the two backends differ; number run"""
    bad = []
    exs = extras()
    for ex in exs:
        ri, rg = run_extra(ex)
        d = first_difference(ri, rg)
        if d is None and ri["end"].startswith("exception") and "builtins" in ex[0]:
            d = {"both_backends_raise": ri["end"]}      # the built-in programs are legal: nothing may raise
        if d is not None:
            bad.append((ex[0], d))
    return bad, len(exs)
