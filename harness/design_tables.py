"""Regenerates the tables of DESIGN.md sections 11.2 (fix commits, open findings) and 11.5 (per property)
from /repo's git log, known_findings.d/ and coq/props/."""
import json
import os
import re
import subprocess

V = os.path.dirname(os.path.dirname(os.path.abspath(__file__)))
REPO = os.environ.get("DAGRT_REPO", "/repo")


def findings():
    out = {}
    d = os.path.join(V, "known_findings.d")
    for f in sorted(os.listdir(d)):
        if f.endswith(".json"):
            out[f[:-5]] = json.load(open(os.path.join(d, f)))
    return out


def main():
    fs = findings()
    by_commit = {}
    for pid, es in fs.items():
        for e in es:
            if e.get("status") == "fixed" and e.get("commit"):
                by_commit.setdefault(e["commit"][:7], set()).add(pid)
    log = subprocess.run(["git", "-C", REPO, "log", "--reverse", "--format=%h %s"], capture_output=True,
                         text=True).stdout.splitlines()
    fixes = [(ln.split()[0][:7], ln.split(" ", 2)[2]) for ln in log if ln.split(" ", 2)[1] == "fix:"]
    t2 = ["(%d commits, oldest first; the failing input of each is in `known_findings.json` / `corpus/`)" % len(fixes), "",
          "| commit | property | what was wrong (commit subject) |", "|---|---|---|"]
    for h, subj in fixes:
        t2.append("| %s | %s | %s |" % (h, ", ".join(sorted(by_commit.get(h, ["?"]))), subj))
    opens = ["%s `%s`" % (pid, e["class"]) for pid, es in sorted(fs.items()) for e in es if e.get("status") == "open"]
    t2 += ["", "Open known findings (narrow matchers, printed as `KNOWN-FINDING:`; why each is not repaired is said in "
           "its entry of `known_findings.json`): " + "; ".join(opens) + "."]

    t5 = ["| id | theorems | repaired by | open findings | write-up |", "|---|---|---|---|---|"]
    for i in range(1, 21):
        pid = "C%02d" % i
        p = os.path.join(V, "coq", "props", pid + ".v")
        ths = re.findall(r"^Theorem\s+(\w+)", open(p).read(), flags=re.M) if os.path.exists(p) else []
        names = [t[len(pid) + 1:] if t.startswith(pid + "_") else t for t in ths]
        fixed = sorted({e["commit"][:7] for e in fs.get(pid, []) if e.get("status") == "fixed" and e.get("commit")})
        op = [e["class"] for e in fs.get(pid, []) if e.get("status") == "open"]
        wu = "design/%s.md" % pid if os.path.exists(os.path.join(V, "design", pid + ".md")) else "section 11.3"
        t5.append("| %s | %d: %s | %s | %s | %s |" % (pid, len(ths), ", ".join(names), ", ".join(fixed) or "-",
                                                     ", ".join(op) or "-", wu))
    path = os.path.join(V, "DESIGN.md")
    s = open(path).read()
    for tag, rows in (("11.2", t2), ("11.5", t5)):
        a, b = "<!-- table %s begin -->" % tag, "<!-- table %s end -->" % tag
        i, j = s.index(a) + len(a), s.index(b)
        s = s[:i] + "\n" + "\n".join(rows) + "\n" + s[j:]
    open(path, "w").write(s)
    print(len(fixes), "fix commits;", len(opens), "open findings")


if __name__ == "__main__":
    main()
