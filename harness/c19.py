"""C19: printing an expression and parsing it back returns the same expression.

Tie: real str(e) and dagrt.expression.parse(str(e)) vs coq/model/Print.v (printer) and
coq/model/Parse.v (lexer + precedence-climbing parser), evaluated by vm_compute, on all
expressions of depth <= 2 over the operator templates, a (sampled) depth-3 stream built for
nesting coverage, random deeper expressions, a name stream (every tag), back-tick strings and
hand-written / random token strings for the parser alone.

Oracle (independent of the model): e2 = parse(str(e)) must print identically, mention the same
variables (dagrt.utils.get_variables) and evaluate to the same value as e at random rational
points under dagrt's own EvaluationMapper with a random function table; "`n`" must parse to
Variable(n).
"""
import itertools
import json
import os
import random
import re
import warnings
import zlib
from fractions import Fraction

from harness import common

PID = "C19"

NARY = ("sum", "prod", "and", "or")
BIN = ("quot", "floordiv", "rem", "pow", "lt", "le", "gt", "ge", "eq", "ne")
CMP = {"lt": "<", "le": "<=", "gt": ">", "ge": ">=", "eq": "==", "ne": "!="}
CMP_INV = {v: k for k, v in CMP.items()}
TAGS = ["state", "p", "t", "dt", "cond", "func", "builtin", "ret_time_id", "ret_time", "ret_state"]

# expressions: ("int", z) ("bool", b) ("var", name) ("nary", op, [..]) ("bin", op, a, b) ("not", a)
#              ("if", c, t, e) ("call", f, [args], [[k, v], ..]) ("sub", a, i) ("tuple", [..])


def _tup(t):
    """JSON lists -> the tuple representation."""
    if isinstance(t, (list, tuple)):
        k = t[0]
        if k in ("int", "bool", "var"):
            return (k, t[1])
        if k == "nary":
            return ("nary", t[1], [_tup(c) for c in t[2]])
        if k == "bin":
            return ("bin", t[1], _tup(t[2]), _tup(t[3]))
        if k == "not":
            return ("not", _tup(t[1]))
        if k == "if":
            return ("if", _tup(t[1]), _tup(t[2]), _tup(t[3]))
        if k == "call":
            return ("call", _tup(t[1]), [_tup(c) for c in t[2]], [[kv[0], _tup(kv[1])] for kv in t[3]])
        if k == "sub":
            return ("sub", _tup(t[1]), _tup(t[2]))
        if k == "tuple":
            return ("tuple", [_tup(c) for c in t[1]])
        if k == "unrep":
            return ("unrep", t[1])
    raise ValueError(t)


def children(e):
    k = e[0]
    if k == "nary":
        return list(e[2])
    if k == "bin":
        return [e[2], e[3]]
    if k == "not":
        return [e[1]]
    if k == "if":
        return [e[1], e[2], e[3]]
    if k == "call":
        return [e[1]] + list(e[2]) + [kv[1] for kv in e[3]]
    if k == "sub":
        return [e[1], e[2]]
    if k == "tuple":
        return list(e[1])
    return []


def size(e):
    return 1 + sum(size(c) for c in children(e))


def depth(e):
    cs = children(e)
    return 0 if not cs else 1 + max(depth(c) for c in cs)


def subterms(e):
    yield e
    for c in children(e):
        yield from subterms(c)


def key(e):
    return json.dumps(e)


# ------------------------------------------------------------------ conversion to / from pymbolic

def to_real(e):
    from pymbolic import primitives as p
    k = e[0]
    if k == "int":
        return int(e[1])
    if k == "bool":
        return bool(e[1])
    if k == "var":
        return p.Variable(e[1])
    if k == "nary":
        cls = {"sum": p.Sum, "prod": p.Product, "and": p.LogicalAnd, "or": p.LogicalOr}[e[1]]
        return cls(tuple(to_real(c) for c in e[2]))
    if k == "bin":
        a, b = to_real(e[2]), to_real(e[3])
        if e[1] in CMP:
            return p.Comparison(a, CMP[e[1]], b)
        return {"quot": p.Quotient, "floordiv": p.FloorDiv, "rem": p.Remainder, "pow": p.Power}[e[1]](a, b)
    if k == "not":
        return p.LogicalNot(to_real(e[1]))
    if k == "if":
        return p.If(to_real(e[1]), to_real(e[2]), to_real(e[3]))
    if k == "call":
        f = to_real(e[1])
        args = tuple(to_real(c) for c in e[2])
        if e[3]:
            from constantdict import constantdict
            return p.CallWithKwargs(f, args, constantdict({kv[0]: to_real(kv[1]) for kv in e[3]}))
        return p.Call(f, args)
    if k == "sub":
        return p.Subscript(to_real(e[1]), to_real(e[2]))
    if k == "tuple":
        return tuple(to_real(c) for c in e[1])
    raise ValueError(e)


def from_real(o):
    from pymbolic import primitives as p
    if isinstance(o, bool):
        return ("bool", o)
    if isinstance(o, int):
        return ("int", o)
    if isinstance(o, tuple):
        return ("tuple", [from_real(c) for c in o])
    if isinstance(o, p.Variable):
        return ("var", o.name)
    for cls, op in ((p.Sum, "sum"), (p.Product, "prod"), (p.LogicalAnd, "and"), (p.LogicalOr, "or")):
        if type(o) is cls:
            return ("nary", op, [from_real(c) for c in o.children])
    if type(o) is p.Quotient:
        return ("bin", "quot", from_real(o.numerator), from_real(o.denominator))
    if type(o) is p.FloorDiv:
        return ("bin", "floordiv", from_real(o.numerator), from_real(o.denominator))
    if type(o) is p.Remainder:
        return ("bin", "rem", from_real(o.numerator), from_real(o.denominator))
    if type(o) is p.Power:
        return ("bin", "pow", from_real(o.base), from_real(o.exponent))
    if type(o) is p.Comparison:
        return ("bin", CMP_INV[o.operator], from_real(o.left), from_real(o.right))
    if type(o) is p.LogicalNot:
        return ("not", from_real(o.child))
    if type(o) is p.If:
        return ("if", from_real(o.condition), from_real(o.then), from_real(o.else_))
    if type(o) is p.Call:
        return ("call", from_real(o.function), [from_real(c) for c in o.parameters], [])
    if type(o) is p.CallWithKwargs:
        return ("call", from_real(o.function), [from_real(c) for c in o.parameters],
                [[k, from_real(v)] for k, v in o.kw_parameters.items()])
    if type(o) is p.Subscript:
        return ("sub", from_real(o.aggregate), from_real(o.index))
    return ("unrep", type(o).__name__)


def has_unrep(e):
    return any(s[0] == "unrep" for s in subterms(e))


def coq_str(s):
    return '"' + s.replace('"', '""') + '"'


def coq_z(z):
    return "%d" % z if z >= 0 else "(%d)" % z


def to_coq(e):
    k = e[0]
    if k == "int":
        return "(EInt %s)" % coq_z(e[1])
    if k == "bool":
        return "(EBool %s)" % ("true" if e[1] else "false")
    if k == "var":
        return "(EVar %s)" % coq_str(e[1])
    if k == "nary":
        return "(ENary %s [%s])" % ({"sum": "NSum", "prod": "NProd", "and": "NAnd", "or": "NOr"}[e[1]],
                                     "; ".join(to_coq(c) for c in e[2]))
    if k == "bin":
        op = {"quot": "BQuot", "floordiv": "BFloorDiv", "rem": "BRem", "pow": "BPow"}.get(e[1]) or \
            "(BCmp C%s)" % (e[1][0].upper() + e[1][1:])
        return "(EBin %s %s %s)" % (op, to_coq(e[2]), to_coq(e[3]))
    if k == "not":
        return "(ENot %s)" % to_coq(e[1])
    if k == "if":
        return "(EIf %s %s %s)" % (to_coq(e[1]), to_coq(e[2]), to_coq(e[3]))
    if k == "call":
        return "(ECall %s [%s] [%s])" % (to_coq(e[1]), "; ".join(to_coq(c) for c in e[2]),
                                         "; ".join("(%s, %s)" % (coq_str(kv[0]), to_coq(kv[1])) for kv in e[3]))
    if k == "sub":
        return "(ESub %s %s)" % (to_coq(e[1]), to_coq(e[2]))
    if k == "tuple":
        return "(ETuple [%s])" % "; ".join(to_coq(c) for c in e[1])
    raise ValueError(e)


def ascii_ok(s):
    return all(32 <= ord(ch) < 127 for ch in s)


# ------------------------------------------------------------------ the class of printable expressions
# (an independent Python rendering of Print.wf_expr / Print.no_defect / Parse.wf_names; the Coq
# versions are compared with these on every case)

IDENT_RE = re.compile(r"[@$a-zA-Z_][@$a-zA-Z_0-9]*\Z")
KEYWORDS = ("and", "or", "not", "if", "else")


def is_ident(s):
    if not IDENT_RE.match(s):
        return False
    for kw in KEYWORDS:
        if s.startswith(kw) and (len(s) == len(kw) or not re.match(r"[A-Za-z0-9_]", s[len(kw)])):
            return False
    return not (s.startswith("True") or s.startswith("False"))


def wf_name(x):
    if x.startswith("<"):
        i = x.find(">")
        if i < 0:
            return False
        t, u = x[1:i], x[i + 1:]
        return is_ident(t) and (u == "" or is_ident(u))
    return is_ident(x)


def wf_names(e):
    k = e[0]
    if k == "var":
        return wf_name(e[1])
    if k == "call" and not all(is_ident(kv[0]) for kv in e[3]):
        return False
    return all(wf_names(c) for c in children(e))


def is_tuple(e):
    return e[0] == "tuple"


def wf_expr(e):
    k = e[0]
    if k in ("int", "bool"):
        return True
    if k == "var":
        return not (e[1].startswith("`") and e[1].endswith("`"))
    if k == "tuple":
        return False
    if k == "nary" and len(e[2]) < 2:
        return False
    if k == "call" and len({kv[0] for kv in e[3]}) != len(e[3]):
        return False
    cs = children(e)
    if k == "sub":
        if is_tuple(e[1]) or not wf_expr(e[1]):
            return False
        if is_tuple(e[2]):
            return len(e[2][1]) >= 2 and all(wf_expr(c) and not is_tuple(c) for c in e[2][1])
        return wf_expr(e[2])
    return all(wf_expr(c) and not is_tuple(c) for c in cs)


def is_arith(e):
    return e[0] not in ("bool", "tuple")


def defect_shapes(e):
    """The known shapes whose text pymbolic's parser reads differently (classes of known findings)."""
    out = set()
    for s in subterms(e):
        k = s[0]
        if k == "bin" and s[1] == "pow" and s[2][0] == "bin" and s[2][1] == "pow":
            out.add("nested_power_base")
        if k == "bin" and s[1] in CMP and s[3][0] == "bin" and s[3][1] in CMP:
            out.add("nested_comparison_right")
        if k == "call":
            seq = list(s[2]) + [kv[1] for kv in s[3]]
            if any(c[0] == "if" for c in seq[:-1]):
                out.add("if_before_comma")
        if k == "sub" and s[2][0] == "tuple" and any(c[0] == "if" for c in s[2][1][:-1]):
            out.add("if_before_comma")
        if k == "tuple" and any(c[0] == "if" for c in s[1][:-1]):
            out.add("if_before_comma")
        if (k == "nary" and s[1] in ("sum", "prod")) or (k == "bin" and s[1] not in CMP):
            if any(not is_arith(c) for c in children(s)):
                out.add("bool_arith_operand")
    return out


def wf_shapes(e):
    """Degenerate expressions outside the language of the property (also listed as findings)."""
    out = set()
    for s in subterms(e):
        if s[0] == "nary" and len(s[2]) < 2:
            out.add("degenerate_nary")
        if s[0] == "var" and not wf_name(s[1]):
            out.add("unparsable_name")
        if s[0] == "call" and not all(is_ident(kv[0]) for kv in s[3]):
            out.add("unparsable_name")
    return out


def no_defect(e):
    return not defect_shapes(e)


def printable(e):
    return wf_expr(e) and no_defect(e)


# ------------------------------------------------------------------ the implementation

def impl_str(e):
    with warnings.catch_warnings():
        warnings.simplefilter("ignore")
        return str(to_real(e))


def impl_parse(s):
    """("ok", expr, object) | ("exc", class name, None)"""
    from dagrt.expression import parse
    with warnings.catch_warnings():
        warnings.simplefilter("ignore")
        try:
            o = parse(s)
        except Exception as ex:  # noqa: BLE001 - the class is the observable
            return ("exc", type(ex).__name__, None)
    return ("ok", from_real(o), o)


def impl_vars(o):
    from dagrt.utils import get_variables
    try:
        return sorted(get_variables(o))
    except Exception as ex:  # noqa: BLE001
        return ["<<exception %s>>" % type(ex).__name__]


# ---- evaluation of the real objects (oracle): rational points, random function table

class FV(Fraction):
    """A rational that can also be subscripted (pseudo-random table)."""

    def __getitem__(self, idx):
        return FV(_h(("sub", str(Fraction(self)), repr(_plain(idx)))) % 7 - 3)


def _plain(v):
    if callable(v):
        return "fn:" + getattr(v, "_nm", "?")
    if isinstance(v, tuple):
        return tuple(_plain(x) for x in v)
    if isinstance(v, bool):
        return int(v)
    if isinstance(v, (int, Fraction, float, complex)):
        return _canon(v)
    return repr(v)


def _h(obj):
    return zlib.crc32(repr(obj).encode())


def make_functions(names, salt):
    def mk(name):
        def f(*args, **kw):
            return FV(_h((salt, name, _plain(args), sorted((k, _plain(v)) for k, v in kw.items()))) % 7 - 3)
        f._nm = name
        return f
    return {n: mk(n) for n in names}


def all_names(e, acc=None):
    acc = set() if acc is None else acc
    for s in subterms(e):
        if s[0] == "var":
            acc.add(s[1])
    return acc


def evaluate(o, names, point):
    """Outcome of dagrt's EvaluationMapper at one point: ("val", canonical) | ("exc", class)."""
    from dagrt.expression import EvaluationMapper

    class Guarded(EvaluationMapper):
        """dagrt's mapper; powers that would not terminate / not print are cut off on both sides alike"""

        def map_quotient(self, expr):
            n, d = self.rec(expr.numerator), self.rec(expr.denominator)
            if isinstance(n, int) and isinstance(d, int):
                return Fraction(int(n), int(d))            # exact instead of a float (ZeroDivisionError alike)
            return n / d

        def map_power(self, expr):
            b, x = self.rec(expr.base), self.rec(expr.exponent)
            if isinstance(b, int) and isinstance(x, int) and x < 0:
                b = Fraction(int(b))                       # exact instead of a float
            if isinstance(x, (int, Fraction)) and not isinstance(x, bool) and abs(x) > 48:
                raise OverflowError("exponent guard")
            if isinstance(b, (int, Fraction)) and not isinstance(b, bool) and \
                    max(abs(Fraction(b).numerator), Fraction(b).denominator) > 10 ** 40:
                raise OverflowError("base guard")
            return b ** x

    rng = random.Random(point)
    ctx = {n: FV(rng.randint(-3, 3)) for n in sorted(names)}
    funcs = make_functions(sorted(names), point)
    for n in list(ctx):
        if n.startswith("<func>") or n.startswith("<builtin>") or n in ("f", "g", "min", "max"):
            del ctx[n]
    try:
        with warnings.catch_warnings():
            warnings.simplefilter("ignore")
            v = Guarded(ctx, funcs)(o)
    except RecursionError:
        raise
    except Exception as ex:  # noqa: BLE001
        return ("exc", type(ex).__name__)
    return ("val", _canon(v), _approx(v))


def _approx(v):
    """a float approximation, used only to compare outcomes that involve Python floats (int / int)"""
    if isinstance(v, (bool, int, Fraction, float)):
        try:
            return float(v)
        except (OverflowError, ValueError):
            return None
    return None


def same_outcome(a, b):
    if a[:2] == b[:2]:
        return True
    if a[0] == b[0] == "val" and len(a) > 2 and len(b) > 2 and a[2] is not None and b[2] is not None \
            and (a[1].startswith("float:") or b[1].startswith("float:")):
        import math
        return math.isclose(a[2], b[2], rel_tol=1e-6, abs_tol=1e-9)     # -0.0 == 0.0, rounding of re-associated floats
    return False


def _canon(v):
    if isinstance(v, bool):
        return str(Fraction(int(v)))
    if isinstance(v, (int, Fraction)):
        f = Fraction(v)
        if max(abs(f.numerator), f.denominator).bit_length() > 4000:
            return "big:%d:%d/%d:%d" % (f.numerator.bit_length(), f.numerator % 1000000007,
                                        f.denominator.bit_length(), f.denominator % 1000000007)
        return str(f)
    if isinstance(v, float):
        return "float:%.6g" % (v + 0.0 if v != 0 else 0.0)      # -0.0 == 0.0; rounding noise of re-association
    if isinstance(v, complex):
        return "complex:%.9g,%.9g" % (v.real, v.imag)
    if isinstance(v, tuple):
        return "(" + ",".join(_canon(x) for x in v) + ")"
    if v is None:
        return "None"
    return "obj:" + type(v).__name__


NPOINTS = 4


def run_round(e):
    """Everything the implementation does with one expression."""
    try:
        o = to_real(e)
        s = impl_str(e)
    except Exception as ex:  # noqa: BLE001
        return {"str_exc": type(ex).__name__}
    r = impl_parse(s)
    out = {"str": s, "parse": r[:2], "vars": impl_vars(o)}
    if r[0] == "ok":
        o2 = r[2]
        with warnings.catch_warnings():
            warnings.simplefilter("ignore")
            try:
                out["str2"] = str(o2)
            except Exception as ex:  # noqa: BLE001
                out["str2"] = "<<exception %s>>" % type(ex).__name__
        out["vars2"] = impl_vars(o2)
        names = all_names(e) | (all_names(r[1]) if not has_unrep(r[1]) else set())
        pts = []
        for pt in range(NPOINTS):
            pts.append((evaluate(o, names, pt), evaluate(o2, names, pt)))
        out["values"] = pts
    return out


def oracle(e, out):
    """Decide the property statement for one expression.  None or a dict naming what fails."""
    if "str_exc" in out:
        return {"kind": "print-exception", "exception": out["str_exc"]}
    if out["parse"][0] != "ok":
        return {"kind": "parse-exception", "exception": out["parse"][1], "text": out["str"]}
    if out["str2"] != out["str"]:
        return {"kind": "prints-differently", "text": out["str"], "text_of_reparsed": out["str2"]}
    if out["vars2"] != out["vars"]:
        return {"kind": "variables-differ", "text": out["str"], "vars": out["vars"], "vars_of_reparsed": out["vars2"]}
    for pt, (a, b) in enumerate(out["values"]):
        if not same_outcome(a, b):
            return {"kind": "value-differs", "text": out["str"], "point_seed": pt, "value": a[:2],
                    "value_of_reparsed": b[:2], "reparsed": out["parse"][1]}
    return None


# ---- integer evaluation used for the tie of Print.eval (not part of the oracle)

class IV(int):
    def __getitem__(self, idx):
        idx = idx if isinstance(idx, tuple) else (idx,)
        if not all(isinstance(i, int) for i in idx):
            raise TypeError("index")
        return IV((int(self) + sum((i + 2) * int(v) for i, v in enumerate(idx))) % 7 - 3)


def rho(name):
    return (len(name) * 3 + (ord(name[0]) if name else 0)) % 7 - 3


def ffun(name):
    def f(*args, **kw):
        if not all(isinstance(a, int) for a in args) or not all(isinstance(v, int) for v in kw.values()):
            raise TypeError("argument")
        return IV((sum((i + 1) * int(a) for i, a in enumerate(args)) + 7 * len(name)
                   + sum((len(k) + 2) * int(v) for k, v in kw.items())) % 5 - 2)
    return f


class _Skip(Exception):
    pass


def int_eval(e):
    """("some", z) | ("none",) | None (= not comparable with the model's eval over Z)."""
    from dagrt.expression import EvaluationMapper
    from pymbolic import primitives as p

    class M(EvaluationMapper):
        def map_quotient(self, expr):
            raise _Skip()

        def map_power(self, expr):
            b, x = self.rec(expr.base), self.rec(expr.exponent)
            if not isinstance(x, int) or not isinstance(b, int) or x < 0 or x > 6 or abs(b) > 50:
                raise _Skip()
            return b ** x

        def map_variable(self, expr):
            return self.context[expr.name]

    names = all_names(e)
    ctx = {n: IV(rho(n)) for n in names}
    funcs = {n: ffun(n) for n in names}
    try:
        for s in subterms(e):
            if s[0] == "call" and s[1][0] != "var":
                return None
            if s[0] == "tuple" and not all(c[0] != "tuple" for c in s[1]):
                return None
        v = M(ctx, funcs)(to_real(e))
    except _Skip:
        return None
    except ZeroDivisionError:
        return ("none",)
    except Exception:  # noqa: BLE001 - distinctions (TypeError, ...) the model over Z does not make
        return None
    if isinstance(v, bool):
        return ("some", int(v))
    if isinstance(v, int):
        return ("some", int(v))
    return None


# ------------------------------------------------------------------ generation

LEAVES = [("var", "a"), ("var", "<state>y"), ("int", 2), ("int", -1), ("var", "<dt>"), ("bool", True)]
L0, L1, L2, L3 = ("var", "a"), ("var", "<state>y"), ("var", "b"), ("int", 2)
FN = ("var", "<func>f")


def templates():
    """name -> (arity, builder); the builder places the given children."""
    t = {}
    for op in NARY:
        t[op + "2"] = (2, lambda cs, op=op: ("nary", op, list(cs)))
    t["sum3"] = (3, lambda cs: ("nary", "sum", list(cs)))
    t["prod3"] = (3, lambda cs: ("nary", "prod", list(cs)))
    t["and3"] = (3, lambda cs: ("nary", "and", list(cs)))
    for op in ("quot", "floordiv", "rem", "pow", "lt", "eq", "ge"):
        t[op] = (2, lambda cs, op=op: ("bin", op, cs[0], cs[1]))
    t["not"] = (1, lambda cs: ("not", cs[0]))
    t["if"] = (3, lambda cs: ("if", cs[0], cs[1], cs[2]))
    t["call1"] = (1, lambda cs: ("call", FN, [cs[0]], []))
    t["call2"] = (2, lambda cs: ("call", FN, [cs[0], cs[1]], []))
    t["callkw"] = (3, lambda cs: ("call", FN, [cs[0]], [["x", cs[1]], ["k2", cs[2]]]))
    t["callkw0"] = (1, lambda cs: ("call", FN, [], [["dt", cs[0]]]))
    t["callfn"] = (1, lambda cs: ("call", cs[0], [L3], []))
    t["sub"] = (2, lambda cs: ("sub", cs[0], cs[1]))
    t["sub2"] = (3, lambda cs: ("sub", cs[0], ("tuple", [cs[1], cs[2]])))
    return t


TEMPLATES = templates()
DEFAULT_LEAVES = [L0, L1, L2]


def build(tname, cs):
    return TEMPLATES[tname][1](cs)


def fill(tname, pos, child):
    ar = TEMPLATES[tname][0]
    cs = [DEFAULT_LEAVES[i % 3] for i in range(ar)]
    if pos is None:
        cs = [child] * ar
    else:
        cs[pos] = child
    return build(tname, cs)


def rep1(tname):
    """The depth-1 representative of a template."""
    ar = TEMPLATES[tname][0]
    return build(tname, [[L0, L3, L1][i % 3] for i in range(ar)])


def gen_exhaustive(tier, rng):
    cases = []
    cover = {"pairs": set(), "triples": set()}
    tn = sorted(TEMPLATES)
    # depth 0 and 1: all leaf combinations
    for l in LEAVES:
        cases.append(l)
    for t in tn:
        ar = TEMPLATES[t][0]
        for cs in itertools.product(LEAVES, repeat=ar):
            cases.append(build(t, list(cs)))
    n1 = len(cases)
    # depth 2: every (parent, position, child) pair + all positions at once
    for pt in tn:
        for ct in tn:
            c = rep1(ct)
            for pos in list(range(TEMPLATES[pt][0])) + [None]:
                cases.append(fill(pt, pos, c))
                if pos is not None:
                    cover["pairs"].add((pt, pos, ct))
    # negative / special leaves under every parent position
    for pt in tn:
        for pos in range(TEMPLATES[pt][0]):
            for l in (("int", -2), ("bool", False), ("int", 0)):
                cases.append(fill(pt, pos, l))
    n2 = len(cases) - n1
    # depth 3: (grandparent, pos, parent, pos, child) chains; quick samples them
    chains = [(g, gp, p, pp, c) for g in tn for gp in range(TEMPLATES[g][0]) for p in tn
              for pp in range(TEMPLATES[p][0]) for c in tn]
    total_triples = len(chains)
    if tier == "quick":
        rng.shuffle(chains)
        chains = chains[:6000]
    for g, gp, p, pp, c in chains:
        cases.append(fill(g, gp, fill(p, pp, rep1(c))))
        cover["triples"].add((g, gp, p, pp, c))
    n3 = len(cases) - n1 - n2
    all_pairs = sum(TEMPLATES[p][0] for p in tn) * len(tn)
    dist = {"depth<=1": n1, "depth2": n2, "depth3": n3, "templates": tn,
            "pair_coverage": "%d/%d (parent template, position, child template)" % (len(cover["pairs"]), all_pairs),
            "triple_coverage": "%d/%d (grandparent, position, parent, position, child)"
                               % (len(cover["triples"]), total_triples)}
    return cases, dist


def random_expr(rng, d):
    if d <= 0 or rng.random() < 0.12:
        r = rng.random()
        if r < 0.5:
            return ("var", rng.choice(["a", "b", "<state>y", "<p>k", "<dt>", "<t>", "x_1", "<cond>c", "$v", "@w"]))
        if r < 0.96:
            return ("int", rng.choice([0, 1, 2, 3, 7, -1, -2, 12]))
        return ("bool", rng.random() < 0.5)
    k = rng.random()
    if k < 0.30:
        op = rng.choice(NARY)
        return ("nary", op, [random_expr(rng, d - 1) for _ in range(rng.choice([2, 2, 3, 4]))])
    if k < 0.55:
        return ("bin", rng.choice(BIN), random_expr(rng, d - 1), random_expr(rng, d - 1))
    if k < 0.63:
        return ("not", random_expr(rng, d - 1))
    if k < 0.73:
        return ("if", random_expr(rng, d - 1), random_expr(rng, d - 1), random_expr(rng, d - 1))
    if k < 0.88:
        f = ("var", rng.choice(["<func>f", "<builtin>len", "g"])) if rng.random() < 0.9 else random_expr(rng, d - 1)
        args = [random_expr(rng, d - 1) for _ in range(rng.choice([0, 1, 2, 3]))]
        kws = rng.sample(["x", "dt", "k2", "tol"], rng.choice([0, 0, 1, 2]))
        return ("call", f, args, [[n, random_expr(rng, d - 1)] for n in kws])
    idx = random_expr(rng, d - 1) if rng.random() < 0.6 else \
        ("tuple", [random_expr(rng, d - 1) for _ in range(rng.choice([2, 3]))])
    return ("sub", random_expr(rng, d - 1), idx)


def gen_cmp_chains():
    """(left op1 mid) op2 right for all 36 operator pairs: tagged / tag-only / plain / compound left operands,
    plain / tagged / constant middle operands -- the text `<t> < t_end > flag` contains the token sequence
    `<` identifier `>` of a tag; plus the chains inside the contexts that print them without parentheses."""
    t, dt, y, pk = ("var", "<t>"), ("var", "<dt>"), ("var", "<state>y"), ("var", "<p>k")
    t_end, flag, n = ("var", "t_end"), ("var", "flag"), ("var", "n")
    lefts = [t, y, L0, ("nary", "sum", [t, dt]), ("call", FN, [t], []), ("sub", L0, dt), ("not", dt)]
    mids = [t_end, pk, ("int", 2), ("nary", "sum", [n, ("int", 1)])]
    rights = [flag, ("int", 0), dt, ("nary", "prod", [("int", 2), n])]
    ops = ["lt", "le", "gt", "ge", "eq", "ne"]
    out = []
    for o1 in ops:
        for o2 in ops:
            for a in lefts:
                for b in mids:
                    for c in rights:
                        out.append(("bin", o2, ("bin", o1, a, b), c))
            ch = ("bin", o2, ("bin", o1, t, t_end), flag)
            ch2 = ("bin", o2, ("bin", o1, y, n), flag)
            out += [("nary", "and", [ch2, ("bin", "gt", dt, ("int", 0))]), ("nary", "or", [L0, ch]),
                    ("if", ch, dt, ("nary", "prod", [("int", 2), dt])), ("call", FN, [ch, y], []),
                    ("call", FN, [y], [["x", ch]]), ("not", ch), ("sub", L0, ch),
                    ("bin", o1, ("bin", o2, ("bin", o1, dt, n), t_end), flag)]
    return out


GOOD_IDENTS = ["y", "y_n", "Y2", "_t", "a$b", "@a", "k1_", "andx", "if_", "or_1", "notation", "elsewhere", "iffy",
               "T", "F", "true", "Tru", "Fals"]
BAD_IDENTS = ["Truex", "True", "False_alarm", "and", "or", "not", "else", "if", "1f", "a b", "a-b", "a.b", "", "and$x",
              "a:b", "<x>f", "9", "e1.5"]


def gen_names():
    good, bad = [], []
    for t in TAGS:
        good.append("<%s>" % t)
        for i in GOOD_IDENTS:
            good.append("<%s>%s" % (t, i))
    good += GOOD_IDENTS
    for i in BAD_IDENTS:
        bad.append(i)
        bad.append("<state>" + i)
    bad += ["<if>y", "<1>y", "<True>y", "<>y", "<state", "<a>b>c", "state>y"]
    cases = []
    for n in good + bad:
        v = ("var", n)
        cases.append(v)
        cases.append(("call", v, [v], [["x", v]]))
        cases.append(("bin", "gt", ("bin", "lt", ("var", "a"), v), v))
        if n in bad or n.startswith("<state>") or not n.startswith("<"):
            cases.append(("nary", "sum", [v, ("int", 1)]))
            cases.append(("not", v))
            cases.append(("bin", "gt", v, ("var", "a")))
    for k in ["x", "dt", "if", "True1", "a b", "`x`", "<p>x", "and"]:
        cases.append(("call", FN, [L0], [[k, L1]]))
    return cases, len(good), len(bad)


DEGENERATE = [
    ("nary", "sum", [L0]), ("nary", "prod", [L0]), ("nary", "and", [L0]), ("nary", "sum", []),
    ("nary", "prod", [("nary", "sum", [L0]), L1]), ("bin", "pow", ("nary", "sum", [L0]), L3),
    ("sub", L0, ("tuple", [L1])), ("sub", L0, ("tuple", [])), ("call", FN, [("tuple", [L0, L1])], []),
    ("sub", L0, ("tuple", [("tuple", [L0, L1]), L2])), ("var", "`a`"), ("var", "`"),
    ("call", FN, [L0], []), ("call", FN, [], []), ("call", ("int", 2), [L0], []), ("call", ("bool", True), [L0], []),
    ("call", ("int", -2), [L0], []), ("sub", ("int", -2), L0), ("call", ("call", FN, [L0], []), [L1], []),
    ("int", 10 ** 30), ("int", -10 ** 30),
]

PARSE_STRINGS = [
    "a - b", "-a", "-(a+b)", "--1", "- -a", "+a", "a - b - c", "a - -1", "-a*b", "-a**2", "-2**2", "-True", "not -1",
    "-(a, b)", "a, b", "(a, b)", "(a,)", "()", "f(a,)", "f(,)", "a[b,]", "a[b, c]", "a[]", "(a, b), c", "((a, b), c)",
    "a, b, c", "a, (b, c)", "(a, b)[1]", "a if b else c, d", "f(x=1, x=2)", "f(x=1, 2)", "f(a b)", "f(a", "a +", "",
    " ", "a  +  b", "`<p>y`", "``", "`a", "`a b`", "`a`b", "a`b`", "`a-b`", "<state>", "<state> y", "< state > y",
    "<state>y z", "<1>y", "<if>y", "<a>b>c", "a<b>c", "a < b > c", "x if if else y", "if", "1 if 2 else 3", "a and",
    "and", "a or b and c or d", "not a and b", "not not a", "a == b == c", "a<=b", "a=b", "f(a=b)", "f(a==b)", "True",
    "Truex", "True x", "1 f", "2(x)", "(-2)(x)", "a**b**c", "a**b*c", "a*b**c", "a*b*c", "a/b/c", "a/b*c", "a*b/c",
    "a//b%c", "a%b//c", "a**-b", "a**-2", "a*-b", "a*-2", "a+-2", "a*b+c*d", "a+b*c+d", "f(a)(b)[c](d)", "a[b][c]",
    "a**f(x)", "a**b[c]", "not a[b]", "not a**b", "not a*b", "-a[b]", "-2[b]", "-2**a", "(a)", "((a))", "(a)(b)",
    "(a)*b", "(a, b)*c", "a*(b, c)", "f((a, b))", "f((a, b), c)", "a[(b, c)]", "a[(b, c), d]", "True + a", "a + True",
    "a*True", "True*a", "a**True", "True**a", "a/True", "True/a", "a < True", "a and True", "not True", "-True + a",
    "a + (b < c)", "(b < c) + a", "a if True else b", "$a", "a$", "@", "a@b", "_", "__a1", "e1", "j", "<func>1f",
    "<func>f1", "<func><x>f", "a \n+\tb", "a\rb", "a#b", "a!b", "a!=b", "a ! = b", "a = = b", "a* *b", "a / / b",
    "a>=b", "a> =b", "a> >b", "f(a, b=1, c=2)", "f(b=1, a)", "f(a, b = 1)", "f(x = = 1)", "f(if=1)", "f(`x`=1)",
    "f(<p>x=1)", "f(x=<p>x)", "min(a, b)", "f()()", "f(())", "f(a)[b, c]", "x[y](z)", "+(a, b), c", "(a, b), (c, d)",
    "a if b else c if d else e", "a if b", "a else b", "a if b else", "f(a,,b)", "f(a)b", "a[b", "a]b", "(a", "a)",
    "not", "a not b", "a < = b", "<p>", "<p", "p>", "< p >", "a <p> b", "a < <p>", "<p> < a", "<p>x > a", "a*<p>x",
    "not <p>", "f(<dt>, <t>)", "0", "007", "12345678901234567890", "a and$b", "andb", "ifx", "x if y else z",
    "`a` + `<state>b`", "`if`", "f(`a`)", "`a`(b)", "a[`i`]", "a - (b - c)", "a * (b * c)", "(a + b) + c",
    "a or (b or c)", "(a < b) < c", "a < (b < c)", "(a ** b) ** c", "a ** (b ** c)", "a % b % c", "a // b // c",
    "a == b != c", "a >= b <= c", "not (a, b)", "(a, b) and c", "(a, b) < c", "(a, b) if c else d", "a if (b, c) else d",
]

TOK_ALPHABET = ["a", "b", "<p>x", "<dt>", "1", "2", "+", "-", "*", "/", "//", "%", "**", "(", ")", "[", "]", ",",
                "<", "<=", "==", ">", "and", "or", "not", "if", "else", "=", "True", "f", "`q`"]


def gen_parse_strings(tier, rng):
    out = list(PARSE_STRINGS)
    n = 700 if tier == "quick" else 20000
    for _ in range(n):
        k = rng.choice([1, 2, 3, 3, 4, 5, 5, 6, 7, 8, 9, 11])
        out.append(" ".join(rng.choice(TOK_ALPHABET) for _ in range(k)))
    # mutations of printed forms (drop / duplicate / swap a token)
    for _ in range(n // 3):
        s = impl_str(random_expr(rng, 3))
        toks = re.findall(r"\*\*|//|[<>=!]=|\w+|\S", s)
        if len(toks) < 2:
            continue
        i = rng.randrange(len(toks))
        m = rng.random()
        if m < 0.4:
            del toks[i]
        elif m < 0.7:
            toks.insert(i, rng.choice(TOK_ALPHABET))
        else:
            j = rng.randrange(len(toks))
            toks[i], toks[j] = toks[j], toks[i]
        out.append(" ".join(toks))
    seen, uniq = set(), []
    for s in out:
        if s not in seen:
            seen.add(s)
            uniq.append(s)
    return uniq


BT_ALPHABET = "<>:_" + "abcdefghijklmnopqrstuvwxyz" + "ABCDEFGHIJKLMNOPQRSTUVWXYZ" + "0123456789"
BT_BAD = ["a b", "a-b", "a`b", "a.b", "a$b", "a@b", "a+b"]


def bt_names(rng):
    """Names over the whole alphabet of the back-tick regexp [<>:a-zA-Z0-9_]*: the empty name, every single
    character, tag-only names for every tag, tagged names, names starting with a digit (plain and after a tag),
    colons, stray angle brackets, keywords, random strings."""
    out = ["", "a", "A_Z_0_9", "x" * 40, "if", "and", "or", "not", "else", "True", "False", "Truex"]
    out += list(BT_ALPHABET)
    for t in TAGS + ["exec", "target", "x"]:
        out += ["<%s>" % t, "<%s>y" % t, "<%s>y_n1" % t, "<%s>1f" % t, "<%s>0" % t, "<%s>a:b" % t, "<%s>_" % t]
    out += ["0", "9lives", "1f", "007", "1_000", "a:b", ":", "::", ":a", "a:", "<p>:a", "<", ">", "<<>>", "><", "<>",
            "<>y", "a<b>", "<a><b>c", "<ret_state><p>y", "<a", "a>", "<1>y", "<if>y", "<True>", "<a>b>c", "a<b", "a>b"]
    for _ in range(120):
        out.append("".join(rng.choice(BT_ALPHABET) for _ in range(rng.randint(1, 8))))
    seen, uniq = set(), []
    for n in out:
        if n not in seen:
            seen.add(n)
            uniq.append(n)
    return uniq


def bt_class(n):
    """What kind of quoted name it is (one finding is reported per kind, smallest first)."""
    m = re.match(r"<([^<>]*)>(.*)\Z", n, re.S)
    if n == "":
        return "empty"
    if m and m.group(2) == "" and is_ident(m.group(1)):
        return "tag_only"
    if m and is_ident(m.group(1)) and is_ident(m.group(2)):
        return "tagged"
    if is_ident(n):
        return "plain"
    if re.match(r"(<[^<>]*>)?[0-9]", n):
        return "digit_initial"
    if ":" in n:
        return "colon"
    if "<" in n or ">" in n:
        return "angle_brackets"
    return "other"


def bt_contexts(n):
    """Expressions around Variable(n) whose text parses back to the very same object."""
    v = ("var", n)
    return [v, ("nary", "prod", [v, ("int", 2)]), ("nary", "sum", [L0, v]), ("call", FN, [v], [["x", v]]),
            ("sub", v, v), ("bin", "ge", v, L0), ("if", v, L0, v), ("not", v), ("call", v, [L0], []),
            ("sub", L0, ("tuple", [v, v]))]


def quote(e):
    k = e[0]
    if k == "var":
        return ("var", "`%s`" % e[1])
    if k == "nary":
        return ("nary", e[1], [quote(c) for c in e[2]])
    if k == "bin":
        return ("bin", e[1], quote(e[2]), quote(e[3]))
    if k == "not":
        return ("not", quote(e[1]))
    if k == "if":
        return ("if", quote(e[1]), quote(e[2]), quote(e[3]))
    if k == "call":
        return ("call", quote(e[1]), [quote(c) for c in e[2]], [[kv[0], quote(kv[1])] for kv in e[3]])
    if k == "sub":
        return ("sub", quote(e[1]), quote(e[2]))
    if k == "tuple":
        return ("tuple", [quote(c) for c in e[1]])
    return e


def corpus():
    out = []
    d = os.path.join(common.VERIF, "corpus", PID)
    if os.path.isdir(d):
        for f in sorted(os.listdir(d)):
            if f.endswith(".json"):
                j = json.load(open(os.path.join(d, f)))
                if "expr" in j:
                    out.append(_tup(j["expr"]))
    return out


# ------------------------------------------------------------------ Coq side

HEADER = """From Coq Require Import List ZArith String Bool.
Import ListNotations.
From Dagrt Require Import GenC19 Print Parse.
Open Scope string_scope.
Inductive pr := RSame | ROk (e : expr) | RExc (k : nat) | RSkip.
Inductive case :=
| CRound (e : expr) (s : string) (r : pr) (vs : list string) (flags : list bool) (ev : option (option Z))
| CParse (s : string) (r : pr).
Definition res_is (r : res expr) (e0 : expr) (x : pr) : bool :=
  match r, x with
  | Ok e, RSame => expr_eqb e e0
  | Ok e, ROk e' => expr_eqb e e'
  | ParseError, RExc 1 | AssertionError, RExc 2 | TypeError, RExc 3 | InvalidTokenError, RExc 4 => true
  | Unsupported, _ => true
  | _, RSkip => true
  | _, _ => false
  end.
Fixpoint subset (a b : list string) : bool :=
  match a with [] => true | x :: r => existsb (String.eqb x) b && subset r b end.
Definition rho (x : string) : Z :=
  ((Z.of_nat (String.length x) * 3 + match x with String c _ => Z.of_nat (Ascii.nat_of_ascii c) | _ => 0 end) mod 7 - 3)%Z.
Fixpoint wsum (i : Z) (l : list Z) : Z := match l with [] => 0%Z | v :: r => (i * v + wsum (i + 1) r)%Z end.
Definition Ffun (name : string) (vs : list Z) (kvs : list (string * Z)) : option Z :=
  Some ((wsum 1 vs + 7 * Z.of_nat (String.length name)
         + fold_right (fun kv a => ((Z.of_nat (String.length (fst kv)) + 2) * snd kv + a)%Z) 0%Z kvs) mod 5 - 2)%Z.
Definition Fsub (x : Z) (is_ : list Z) : option Z := Some ((x + wsum 2 is_) mod 7 - 3)%Z.
Definition Fnone (x y : Z) : option Z := None.
Definition opt_eqb (a b : option Z) : bool :=
  match a, b with Some x, Some y => Z.eqb x y | None, None => true | _, _ => false end.
Definition res_toks_eqb (r : res (list token)) (ts : list token) : bool :=
  match r with
  | Ok l => (fix eq (a b : list token) := match a, b with [] , [] => true | x :: p, y :: q => token_eqb x y && eq p q
                                            | _, _ => false end) l ts
  | _ => false end.
Definition chk (c : case) : bool :=
  match c with
  | CRound e s r vs flags ev =>
    String.eqb (print_string e) s
    && res_is (parse_string s) e r
    && subset (vars e) vs && subset vs (vars e)
    && match flags with
       | [fp; fn] =>
         Bool.eqb (printable e) fp && Bool.eqb (wf_names e) fn
         && (if fn then res_toks_eqb (lex s) (print [TSp] 0 e) else true)
         && (if fp && fn then match parse_string s with Ok e' => expr_eqb e' (norm e) | _ => false end else true)
       | _ => false
       end
    && match ev with Some v => opt_eqb (eval rho Ffun Fsub Fnone Fnone e) v | None => true end
  | CParse s r => res_is (parse_string s) (EInt 0) r
  end.
"""

EXC_CODE = {"ParseError": 1, "AssertionError": 2, "TypeError": 3, "InvalidTokenError": 4}


def pr_term(r, e0):
    if r[0] == "ok":
        if has_unrep(r[1]):
            return "RSkip"
        if e0 is not None and r[1] == e0:
            return "RSame"
        return "(ROk %s)" % to_coq(r[1])
    if r[1] in EXC_CODE:
        return "(RExc %d)" % EXC_CODE[r[1]]
    return "RSkip"       # e.g. ValueError from float(): the model says Unsupported there


def coq_string_lit(s):
    """Coq string literal; control characters cannot be written inside one."""
    return coq_str(s)


def round_term(e, out):
    ev = int_eval(e)
    evt = "None" if ev is None else ("(Some None)" if ev[0] == "none" else "(Some (Some (%d)%%Z))" % ev[1])
    return "CRound %s %s %s [%s] [%s; %s] %s" % (
        to_coq(e), coq_str(out["str"]), pr_term(out["parse"], e),
        "; ".join(coq_str(v) for v in out["vars"]),
        "true" if printable(e) else "false", "true" if wf_names(e) else "false", evt)


def coq_able_string(s):
    return all(32 <= ord(ch) < 127 for ch in s)


def coq_able(e):
    for s in subterms(e):
        if s[0] == "var" and not coq_able_string(s[1]):
            return False
        if s[0] == "call" and not all(coq_able_string(kv[0]) for kv in s[3]):
            return False
        if s[0] == "int" and abs(s[1]) > 10 ** 40:
            return False
    return True


# ------------------------------------------------------------------ shrinking

def neighbours(e):
    for c in children(e):
        if c[0] != "tuple":
            yield c
    k = e[0]
    if k == "nary":
        for i in range(len(e[2])):
            if len(e[2]) > 2:
                yield ("nary", e[1], e[2][:i] + e[2][i + 1:])
            for c2 in neighbours(e[2][i]):
                yield ("nary", e[1], e[2][:i] + [c2] + e[2][i + 1:])
    elif k == "bin":
        for c2 in neighbours(e[2]):
            yield ("bin", e[1], c2, e[3])
        for c2 in neighbours(e[3]):
            yield ("bin", e[1], e[2], c2)
    elif k == "not":
        for c2 in neighbours(e[1]):
            yield ("not", c2)
    elif k == "if":
        for i in (1, 2, 3):
            for c2 in neighbours(e[i]):
                yield e[:i] + (c2,) + e[i + 1:]
    elif k == "call":
        for i in range(len(e[2])):
            yield ("call", e[1], e[2][:i] + e[2][i + 1:], e[3])
            for c2 in neighbours(e[2][i]):
                yield ("call", e[1], e[2][:i] + [c2] + e[2][i + 1:], e[3])
        for i in range(len(e[3])):
            yield ("call", e[1], e[2], e[3][:i] + e[3][i + 1:])
            for c2 in neighbours(e[3][i][1]):
                yield ("call", e[1], e[2], e[3][:i] + [[e[3][i][0], c2]] + e[3][i + 1:])
        for c2 in neighbours(e[1]):
            yield ("call", c2, e[2], e[3])
    elif k == "sub":
        for c2 in neighbours(e[1]):
            yield ("sub", c2, e[2])
        if e[2][0] == "tuple":
            for i in range(len(e[2][1])):
                if len(e[2][1]) > 2:
                    yield ("sub", e[1], ("tuple", e[2][1][:i] + e[2][1][i + 1:]))
                for c2 in neighbours(e[2][1][i]):
                    yield ("sub", e[1], ("tuple", e[2][1][:i] + [c2] + e[2][1][i + 1:]))
        else:
            for c2 in neighbours(e[2]):
                yield ("sub", e[1], c2)
    if k in ("nary", "bin", "not", "if", "call", "sub"):
        yield ("var", "a")


def shrink(e, fails):
    changed = True
    while changed:
        changed = False
        for cand in neighbours(e):
            if size(cand) < size(e) and fails(cand):
                e = cand
                changed = True
                break
    return e


# ------------------------------------------------------------------ known findings

def known():
    out = list(common.known_findings(PID))
    path = os.path.join(common.VERIF, "known_findings.d", PID + ".json")
    if os.path.exists(path):
        have = {(f.get("class"), f.get("status")) for f in out}
        for f in json.load(open(path)):
            if f.get("property") == PID and f.get("status") == "open" and (f.get("class"), "open") not in have:
                out.append(f)
    return {f.get("class"): f for f in out}


def fails_new(e):
    """fails the oracle and contains none of the listed shapes"""
    if defect_shapes(e) or wf_shapes(e) or not wf_expr(e):
        return False
    return oracle(e, run_round(e)) is not None


# ------------------------------------------------------------------ the check

def main(tier):
    rep = common.Reporter(PID, tier)
    seed = common.seed()
    ps = common.proof_stage(rep, PID, gen=["c19"])
    kn = known()
    rng = random.Random(seed * 7919 + 19)

    # ---- cases
    cases = list(corpus())
    n_corpus = len(cases)
    exh, dist = gen_exhaustive(tier, rng)
    cases += exh
    nrand = 2500 if tier == "quick" else 40000
    for _ in range(nrand):
        cases.append(random_expr(rng, rng.choice([2, 3, 3, 4, 5])))
    names, n_good, n_bad = gen_names()
    cases += names
    chains = gen_cmp_chains()
    chain_keys = {key(e) for e in chains}
    cases += chains
    cases += DEGENERATE
    seen, uniq = set(), []
    for e in cases:
        k = key(e)
        if k not in seen:
            seen.add(k)
            uniq.append(e)
    cases = uniq
    outs = [run_round(e) for e in cases]

    # ---- oracle on every case
    failing_new = {}
    by_class = {}
    n_in_language = 0
    for e, out in zip(cases, outs):
        o = oracle(e, out)
        shapes = defect_shapes(e) | wf_shapes(e)
        if not shapes and wf_expr(e):
            n_in_language += 1
        if o is None:
            continue
        if shapes or not wf_expr(e):
            for cl in (shapes or {"outside_language"}):
                if cl not in by_class or size(e) < size(by_class[cl][0]):
                    by_class[cl] = (e, o)
            continue
        kind = o["kind"] + ":" + o.get("exception", "")
        if kind not in failing_new or size(e) < size(failing_new[kind][0]):
            failing_new[kind] = (e, o)
    for kind, (e, o) in sorted(failing_new.items()):
        e2 = shrink(e, fails_new)
        out2 = run_round(e2)
        rep.violation({"what": "parse(str(e)) is not e up to printing, variables and value",
                       "expr": e2, "expr_coq": to_coq(e2), "text": out2.get("str"), "oracle": oracle(e2, out2),
                       "replay": "./check C19 --replay <this file>"})
    for cl, (e, o) in sorted(by_class.items()):
        if cl == "outside_language":
            continue
        if cl in kn:
            rep.known_finding("%s: %s" % (cl, kn[cl].get("what_fails", "")))
        else:
            def fails_cl(c, cl=cl):
                return cl in (defect_shapes(c) | wf_shapes(c)) and oracle(c, run_round(c)) is not None
            e2 = shrink(e, fails_cl)
            out2 = run_round(e2)
            rep.violation({"what": "parse(str(e)) is not e (shape class %s, not a listed finding)" % cl,
                           "class": cl, "expr": e2, "expr_coq": to_coq(e2), "text": out2.get("str"),
                           "oracle": oracle(e2, out2), "replay": "./check C19 --replay <this file>"})

    # ---- back-ticks: "`n`" denotes Variable(n), alone and inside an expression, for names over the whole
    #      alphabet of the regexp; one finding per kind of name (smallest text first)
    BT_NAMES = bt_names(rng)
    bt_fail = {}
    n_bt = 0
    for n in BT_NAMES:
        for e in bt_contexts(n):
            n_bt += 1
            sq = impl_str(quote(e))
            r = impl_parse(sq)[:2]
            if r != ("ok", e):
                cl = bt_class(n)
                if cl not in bt_fail or len(sq) < len(bt_fail[cl][0]):
                    bt_fail[cl] = (sq, r, e, n)
    for cl, (sq, r, e, n) in sorted(bt_fail.items()):
        rep.violation({"what": "a back-tick quoted name does not denote the variable between the back-ticks "
                               "(kind of name: %s)" % cl, "class": "backticks_" + cl, "name": n,
                       "string": sq, "impl_result": r, "required": ["ok", e],
                       "replay": "./check C19 --replay <this file>"})

    # ---- back-ticks in context: quoting every name of e must not change what the text denotes
    bt_cases = [rep1(t) for t in sorted(TEMPLATES)]
    for pt in sorted(TEMPLATES):
        for pos in range(TEMPLATES[pt][0]):
            for ct in ("sub", "sub2", "call2", "sum2", "if"):
                bt_cases.append(fill(pt, pos, rep1(ct)))
    bt_ctx_fail = None
    bt_strings = []
    for e in bt_cases:
        if not printable(e):
            continue
        sq = impl_str(quote(e))
        bt_strings.append(sq)
        want, got = impl_parse(impl_str(e))[:2], impl_parse(sq)[:2]
        if want != got and (bt_ctx_fail is None or size(e) < size(bt_ctx_fail[0])):
            bt_ctx_fail = (e, sq, want, got)
    if bt_ctx_fail is not None:
        e, sq, want, got = bt_ctx_fail

        def fails_bt(c):
            return printable(c) and impl_parse(impl_str(c))[:2] != impl_parse(impl_str(quote(c)))[:2]
        e2 = shrink(e, fails_bt)
        sq2 = impl_str(quote(e2))
        rep.violation({"what": "a back-tick quoted name inside an expression does not denote the variable between "
                               "the back-ticks", "class": "backticks_in_subscript",
                       "string": sq2, "impl_result": impl_parse(sq2)[:2], "required": impl_parse(impl_str(e2))[:2],
                       "replay": "./check C19 --replay <this file>"})

    # ---- correspondence with the Coq model
    pstrings = gen_parse_strings(tier, rng)
    pstrings += ["`%s`" % n for n in BT_NAMES + BT_BAD]
    pstrings += [impl_str(quote(e)) for n in BT_NAMES[::4] for e in bt_contexts(n)[1:4]]
    pstrings += bt_strings[::3]
    pres = [impl_parse(s) for s in pstrings]
    terms, owner = [], []
    # Coq budget: corpus, depth <= 2, names and degenerate cases in full; a stride of depth 3 / random
    max_big = 1200 if tier == "quick" else 30000
    big = [i for i, e in enumerate(cases) if i >= n_corpus and depth(e) >= 3]
    keep_big = set(big[::max(1, len(big) // max_big)]) if big else set()
    small_stride = 3 if tier == "quick" else 1
    for i, (e, out) in enumerate(zip(cases, outs)):
        if "str_exc" in out or not coq_able(e) or not coq_able_string(out["str"]):
            continue
        if i >= n_corpus and depth(e) >= 3 and i not in keep_big:
            continue
        if i >= n_corpus and key(e) in chain_keys and (i % (4 if tier == "quick" else 1)) != 0:
            continue
        if i >= n_corpus and depth(e) == 1 and e[0] != "not" and (i % small_stride) != 0 and printable(e):
            continue
        terms.append(round_term(e, out))
        owner.append(("round", i))
    for j, (s, r) in enumerate(zip(pstrings, pres)):
        if not coq_able_string(s):
            continue
        terms.append("CParse %s %s" % (coq_str(s), pr_term(r, None)))
        owner.append(("parse", j))
    mism, n_eval, errors = [], 0, []
    if os.path.exists(os.path.join(common.COQ, "model", "Parse.vo")):
        mism, n_eval, errors = common.eval_cases(PID, HEADER, terms, "chk", shard=260)
    else:
        errors = ["model not built"]

    tie_broken = bool(mism or errors)
    dis = []
    for m in mism[:5]:
        kind, i = owner[m]
        if kind == "round":
            dis.append({"expr": to_coq(cases[i]), "impl_text": outs[i].get("str"), "impl_parse": outs[i].get("parse")})
        else:
            dis.append({"string": pstrings[i], "impl_parse": pres[i][:2]})
    if dis:
        rep.coverage["first_disagreements"] = dis
    if (not ps["ok"] or tie_broken) and not rep.violations:
        detail = {"what": "proof obligation or model/implementation correspondence no longer checks; "
                          "no failing input found by the implementation-level oracle",
                  "proof_stage": ps, "coq_errors": errors[:3]}
        if mism:
            kind, i = owner[mism[0]]
            if kind == "round":
                e = cases[i]
                detail["first_disagreeing_case"] = {
                    "expr": e, "impl": {k: v for k, v in outs[i].items() if k in ("str", "parse", "vars")},
                    "model": common.eval_term(HEADER, "(print_string %s, parse_string %s, printable %s, wf_names %s)"
                                              % (to_coq(e), coq_str(outs[i]["str"]), to_coq(e), to_coq(e)))}
            else:
                detail["first_disagreeing_case"] = {
                    "string": pstrings[i], "impl": pres[i][:2],
                    "model": common.eval_term(HEADER, "parse_string %s" % coq_str(pstrings[i]))}
            detail["n_disagreements"] = len(mism)
        detail["broken"] = ("theorem file %s" % ps.get("theorem")) if not ps["ok"] else \
            "correspondence str / dagrt.expression.parse ~ Dagrt.Print.print_string / Dagrt.Parse.parse_string"
        rep.violation(detail, no_input=True)
    elif not ps["ok"] or tie_broken:
        rep.coverage["broken_obligation"] = ps if not ps["ok"] else {"disagreements": len(mism)}

    distinct = len({out["str"] for e, out in zip(cases, outs) if "str" in out and depth(e) >= 1})
    n_renested = sum(1 for e, out in zip(cases, outs) if out.get("parse", ("", None))[0] == "ok"
                     and out["parse"][1] != e)
    rep.coverage.update(
        evaluations=len(cases) + len(pstrings),
        distinct_nontrivial=distinct,
        rule="round-trip cases = corpus + all expressions of depth <= 1 over the templates and 6 leaves + every "
             "(parent, position, child) nesting at depth 2 + (sampled in quick) depth-3 chains + random expressions "
             "of depth <= 5 + names with every tag + degenerate shapes; parser-only cases = hand-written strings + "
             "random token strings + mutated printed forms; non-trivial = depth >= 1, distinct by printed text",
        traces_validated_against_impl=n_eval, model_impl_disagreements=len(mism),
        input_distribution=dict(dist, corpus=n_corpus, random=nrand, names_good=n_good, names_bad=n_bad, comparison_chains=len(chains),
                                backtick_names=len(BT_NAMES), backtick_texts=n_bt,
                                backtick_kinds={k: sum(1 for n in BT_NAMES if bt_class(n) == k) for k in
                                                sorted({bt_class(n) for n in BT_NAMES})},
                                degenerate=len(DEGENERATE), parser_strings=len(pstrings),
                                in_language_without_listed_shape=n_in_language,
                                reparsed_object_differs_from_input=n_renested,
                                oracle_failures_by_listed_class={k: key(v[0]) for k, v in sorted(by_class.items())},
                                evaluation_points_per_case=NPOINTS),
        depth_histogram={str(d): sum(1 for e in cases if depth(e) == d) for d in range(0, 7)},
        samples=[{"expr": to_coq(cases[i]), "text": outs[i].get("str"), "reparsed": outs[i].get("parse")}
                 for i in (n_corpus, len(cases) // 3, len(cases) // 2)],
        exhaustive=False,
    )
    rep.assumptions = ["names are identifiers of pymbolic's lexer, optionally tagged (<tag>name); n-ary nodes have >= 2 "
                       "children; integer constants only (floats are outside the model)",
                       "value = dagrt's EvaluationMapper at random rational points with a random function table "
                       "(oracle); Print.eval over Z in the theorems"]
    return rep.finish("proof")


def replay(path):
    r = json.load(open(path))
    if "string" in r:
        res = json.loads(json.dumps(impl_parse(r["string"])[:2]))
        print(json.dumps({"string": r["string"], "impl_result": res, "required": r.get("required")}, indent=1))
        return 0 if res == r.get("required") else 1
    e = r.get("expr") or (r.get("first_disagreeing_case") or {}).get("expr")
    if e is None:
        print("replay names a broken obligation, no input: %s" % r.get("broken"))
        return 1
    e = _tup(e)
    out = run_round(e)
    o = oracle(e, out)
    print(json.dumps({"expr": to_coq(e), "text": out.get("str"), "reparsed": out.get("parse"), "oracle": o},
                     indent=1, default=str))
    return 1 if o is not None else 0
