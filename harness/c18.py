"""C18: constant hoisting (dagrt.expression.collapse_constants) preserves value, hoists
only constants, assigns every new variable exactly once.

Tie: real collapse_constants with recording callbacks vs coq/model/Collapse.v (evaluated
with vm_compute): rewritten expression and the list of assign_func calls compared
structurally, exceptions by class name.  Exhaustive small-scope stream (all expressions
up to a node budget x all subsets of their names declared free) + random deeper
expressions + a contract-violating stream (empty sums, non-fresh / repeating suppliers)
where only model-vs-implementation agreement is checked.
Oracle (independent of the model, on the real pymbolic objects): evaluate the original
and the rewritten expression (assignments executed in order) at random integer points
under random function tables; hoisted terms mention no free variable; every supplied
name is assigned exactly once and none occurs in the input.
Calls come in both pymbolic flavours: Call (positional arguments) and CallWithKwargs
(positional + keyword arguments, e.g. f(t + dt, y=y)); the latter is a node kind of its own
with its own mapper methods (map_call_with_kwargs) and is generated in every stream.
"""
import itertools
import json
import os
import random
import zlib

from harness import common

PID = "C18"

# ------------------------------------------------------------------ case syntax
# expr: ["int", z] | ["var", x] | ["sum", [e..]] | ["prod", [e..]] | ["quot", a, b]
#       | ["pow", a, b] | ["call", f, [e..]] | ["callkw", f, [e..], [[key, e]..]] | ["not", a]
#   callkw = CallWithKwargs(Variable(f), parameters, kw_parameters); the keyword list is the
#   mapping in insertion (= iteration) order, keys pairwise distinct
# case: {"expr": expr, "free": [names], "supplier": "v" | "same"}
#   supplier "v": new_var_func returns Variable("v0"), Variable("v1"), ... (its contract:
#   pairwise distinct, not occurring in the expression -- the generators never use names
#   v<digits> in contract-honouring cases); "same": always Variable("var") (the supplier of
#   the repo's own test; violates the contract as soon as two terms are hoisted).


def T(e):
    """lists -> tuples (hashable, canonical)"""
    k = e[0]
    if k in ("int", "var"):
        return (k, e[1])
    if k in ("sum", "prod"):
        return (k, tuple(T(c) for c in e[1]))
    if k in ("quot", "pow"):
        return (k, T(e[1]), T(e[2]))
    if k == "call":
        return (k, e[1], tuple(T(c) for c in e[2]))
    if k == "callkw":
        return (k, e[1], tuple(T(c) for c in e[2]), tuple((kv[0], T(kv[1])) for kv in e[3]))
    if k == "not":
        return (k, T(e[1]))
    raise ValueError(e)


def subexprs(e):
    """direct subexpressions (function symbols and keyword names excluded)"""
    k = e[0]
    if k in ("int", "var"):
        return ()
    if k in ("sum", "prod"):
        return tuple(e[1])
    if k in ("quot", "pow"):
        return (e[1], e[2])
    if k == "call":
        return tuple(e[2])
    if k == "callkw":
        return tuple(e[2]) + tuple(v for _, v in e[3])
    return (e[1],)


def _prims():
    import pymbolic.primitives as p
    return p


def to_real(e):
    p = _prims()
    k = e[0]
    if k == "int":
        return int(e[1])
    if k == "var":
        return p.Variable(e[1])
    if k == "sum":
        return p.Sum(tuple(to_real(c) for c in e[1]))
    if k == "prod":
        return p.Product(tuple(to_real(c) for c in e[1]))
    if k == "quot":
        return p.Quotient(to_real(e[1]), to_real(e[2]))
    if k == "pow":
        return p.Power(to_real(e[1]), to_real(e[2]))
    if k == "call":
        return p.Call(p.Variable(e[1]), tuple(to_real(c) for c in e[2]))
    if k == "callkw":
        from constantdict import constantdict
        keys = [kv[0] for kv in e[3]]
        if len(set(keys)) != len(keys):
            raise ValueError("repeated keyword")
        return p.CallWithKwargs(p.Variable(e[1]), tuple(to_real(c) for c in e[2]),
                                constantdict({kv[0]: to_real(kv[1]) for kv in e[3]}))
    if k == "not":
        return p.LogicalNot(to_real(e[1]))
    raise ValueError(e)


def from_real(o):
    p = _prims()
    if isinstance(o, bool):
        raise ValueError("bool constant")
    if isinstance(o, int):
        return ("int", int(o))
    t = type(o)
    if t is p.Variable:
        return ("var", o.name)
    if t is p.Sum:
        return ("sum", tuple(from_real(c) for c in o.children))
    if t is p.Product:
        return ("prod", tuple(from_real(c) for c in o.children))
    if t is p.Quotient:
        return ("quot", from_real(o.numerator), from_real(o.denominator))
    if t is p.Power:
        return ("pow", from_real(o.base), from_real(o.exponent))
    if t is p.Call:
        if type(o.function) is not p.Variable:
            raise ValueError("call of a non-variable")
        return ("call", o.function.name, tuple(from_real(c) for c in o.parameters))
    if t is p.CallWithKwargs:
        if type(o.function) is not p.Variable:
            raise ValueError("call of a non-variable")
        for key in o.kw_parameters:
            if type(key) is not str:
                raise ValueError("keyword that is not a string")
        return ("callkw", o.function.name, tuple(from_real(c) for c in o.parameters),
                tuple((key, from_real(v)) for key, v in o.kw_parameters.items()))
    if t is p.LogicalNot:
        return ("not", from_real(o.child))
    raise ValueError("unexpected node %r" % (o,))


def coq_str(s):
    return '"' + s.replace('"', '""') + '"'


def to_coq(e):
    k = e[0]
    if k == "int":
        return "(EInt (%d)%%Z)" % e[1]
    if k == "var":
        return "(EVar %s)" % coq_str(e[1])
    if k == "sum":
        return "(ESum [%s])" % "; ".join(to_coq(c) for c in e[1])
    if k == "prod":
        return "(EProd [%s])" % "; ".join(to_coq(c) for c in e[1])
    if k == "quot":
        return "(EQuot %s %s)" % (to_coq(e[1]), to_coq(e[2]))
    if k == "pow":
        return "(EPow %s %s)" % (to_coq(e[1]), to_coq(e[2]))
    if k == "call":
        return "(ECall %s [%s])" % (coq_str(e[1]), "; ".join(to_coq(c) for c in e[2]))
    if k == "callkw":
        return "(ECallKw %s [%s] [%s])" % (coq_str(e[1]), "; ".join(to_coq(c) for c in e[2]),
                                           "; ".join("(%s, %s)" % (coq_str(kv[0]), to_coq(kv[1])) for kv in e[3]))
    if k == "not":
        return "(ENot %s)" % to_coq(e[1])
    raise ValueError(e)


def size(e):
    return 1 + sum(size(c) for c in subexprs(e))


def depth(e):
    if e[0] in ("int", "var"):
        return 0
    return 1 + max([depth(c) for c in subexprs(e)] or [0])


def names(e):
    """variables and function symbols of a case expression, in order of first occurrence"""
    out = []

    def go(e):
        k = e[0]
        if k == "var":
            if e[1] not in out:
                out.append(e[1])
        elif k in ("sum", "prod"):
            for c in e[1]:
                go(c)
        elif k in ("quot", "pow"):
            go(e[1]), go(e[2])
        elif k in ("call", "callkw"):
            if e[1] not in out:
                out.append(e[1])
            for c in subexprs(e):
                go(c)
        elif k == "not":
            go(e[1])
    go(e)
    return out


def well_formed(e):
    if e[0] in ("sum", "prod") and len(e[1]) == 0:
        return False
    return all(well_formed(c) for c in subexprs(e))


def is_fresh_name(x):
    return x == "var" or (len(x) > 1 and x[0] == "v" and x[1:].isdigit())


def honours_contract(case):
    """the hypotheses of the theorems: the supplied names are pairwise distinct and do not
    occur in the expression (well-formedness of the expression is checked separately)"""
    return case["supplier"] == "v" and not any(is_fresh_name(x) for x in names(case["expr"]))


# ------------------------------------------------------------------ implementation

def run_impl(case):
    """-> ("ok", expr', ((name, expr), ...), n_supplied) | ("exc", class name).  Also returns the
    real objects for the oracle."""
    p = _prims()
    from dagrt.expression import collapse_constants
    e = to_real(case["expr"])
    free = [p.Variable(x) for x in case["free"]]
    supplied = []
    calls = []

    def new_var_func():
        if case["supplier"] == "v":
            v = p.Variable("v%d" % len(supplied))
        else:
            v = p.Variable("var")
        supplied.append(v)
        return v

    def assign_func(variable, expr):
        calls.append((variable, expr))

    try:
        out = collapse_constants(e, free, assign_func, new_var_func)
    except Exception as ex:  # noqa: BLE001 - the class is the observable
        return ("exc", type(ex).__name__), None
    real = {"input": e, "output": out, "calls": calls, "supplied": supplied, "free": free}
    try:
        ser_calls = []
        for v, c in calls:
            if type(v) is not p.Variable:
                raise ValueError("assigned a non-variable")
            ser_calls.append((v.name, from_real(c)))
        return ("ok", from_real(out), tuple(ser_calls), len(supplied)), real
    except Exception as ex:  # noqa: BLE001
        return ("exc", "Unrepresentable:" + type(ex).__name__), real


# ------------------------------------------------------------------ oracle (independent of the model)
# Total evaluation over Z on the REAL pymbolic objects.  Conventions (any total
# interpretation would do, the theorem quantifies over them): Quotient = floor division
# with x/0 := 0; Power a**b := a**b if 0 <= b <= 5 and |a| <= 30 else 0; LogicalNot v := 1 if
# v == 0 else 0; function symbols = random tables (a pure function of name, positional values and
# the keyword -> value binding; binding by NAME, as in a Python call: the order in which the
# keywords were written does not matter, and no keyword at all is the positional call).

class Unbound(Exception):
    pass


def ftable(salt, f, args, kwargs=()):
    key = (salt, f, tuple(args)) + ((tuple(sorted(kwargs)),) if kwargs else ())
    h = zlib.crc32(repr(key).encode())
    return (h % 13) - 6


def eval_real(o, env, salt):
    p = _prims()
    if isinstance(o, int):
        return int(o)
    t = type(o)
    if t is p.Variable:
        if o.name not in env:
            raise Unbound(o.name)
        return env[o.name]
    if t is p.Sum:
        return sum(eval_real(c, env, salt) for c in o.children)
    if t is p.Product:
        r = 1
        for c in o.children:
            r *= eval_real(c, env, salt)
        return r
    if t is p.Quotient:
        a, b = eval_real(o.numerator, env, salt), eval_real(o.denominator, env, salt)
        return 0 if b == 0 else a // b
    if t is p.Power:
        a, b = eval_real(o.base, env, salt), eval_real(o.exponent, env, salt)
        return a ** b if (0 <= b <= 5 and abs(a) <= 30) else 0
    if t is p.Call:
        return ftable(salt, o.function.name, [eval_real(c, env, salt) for c in o.parameters])
    if t is p.CallWithKwargs:
        return ftable(salt, o.function.name, [eval_real(c, env, salt) for c in o.parameters],
                      [(str(key), eval_real(v, env, salt)) for key, v in o.kw_parameters.items()])
    if t is p.LogicalNot:
        return 1 if eval_real(o.child, env, salt) == 0 else 0
    raise ValueError("oracle cannot evaluate %r" % (o,))


def names_real(o, acc):
    p = _prims()
    if isinstance(o, int):
        return acc
    t = type(o)
    if t is p.Variable:
        acc.add(o.name)
    elif t in (p.Sum, p.Product):
        for c in o.children:
            names_real(c, acc)
    elif t is p.Quotient:
        names_real(o.numerator, acc), names_real(o.denominator, acc)
    elif t is p.Power:
        names_real(o.base, acc), names_real(o.exponent, acc)
    elif t is p.Call:
        names_real(o.function, acc)
        for c in o.parameters:
            names_real(c, acc)
    elif t is p.CallWithKwargs:
        names_real(o.function, acc)
        for c in o.parameters:
            names_real(c, acc)
        for c in o.kw_parameters.values():
            names_real(c, acc)
    elif t is p.LogicalNot:
        names_real(o.child, acc)
    else:
        raise ValueError("oracle cannot walk %r" % (o,))
    return acc


def oracle(case, result, real, seed=0):
    """Decide the property for one contract-honouring, well-formed case on the
    implementation's answer.  Returns None or a dict describing the failure."""
    if result[0] != "ok":
        return {"kind": "exception", "exception": result[1]}
    p = _prims()
    calls, supplied = real["calls"], real["supplied"]
    in_names = names_real(real["input"], set())
    assigned = [v.name for v, _ in calls]
    # each new variable assigned exactly once; none clashes with the input
    if len(set(assigned)) != len(assigned):
        return {"kind": "once", "why": "a name is assigned more than once", "assigned": assigned}
    if sorted(assigned) != sorted(v.name for v in supplied):
        return {"kind": "once", "why": "supplied names and assigned names differ",
                "assigned": assigned, "supplied": [v.name for v in supplied]}
    # hoisted terms mention no free variable
    free = set(case["free"])
    for v, c in calls:
        bad = names_real(c, set()) & free
        if bad:
            return {"kind": "constant", "why": "hoisted term mentions free variable(s)",
                    "variable": v.name, "term": repr(c), "free_mentioned": sorted(bad)}
    # value preserved at random integer points under random function tables
    rng = random.Random(seed * 1000003 + len(in_names) * 31 + len(calls))
    pts = [dict.fromkeys(in_names, 0), dict.fromkeys(in_names, 1)]
    for _ in range(6):
        pts.append({x: rng.randint(-3, 4) for x in in_names})
    for i, env in enumerate(pts):
        salt = (seed, i)
        want = eval_real(real["input"], env, salt)
        env2 = dict(env)
        try:
            for v, c in calls:
                env2[v.name] = eval_real(c, env2, salt)
            got = eval_real(real["output"], env2, salt)
        except Unbound as ex:
            return {"kind": "value", "why": "rewritten expression / hoisted term uses unassigned variable %s" % ex,
                    "valuation": env}
        if got != want:
            return {"kind": "value", "valuation": env, "function_table_salt": list(salt),
                    "original_value": want, "rewritten_value": got}
    return None


def check_case(case, seed=0):
    """impl + oracle; -> (result, failure-or-None, oracle_applies)"""
    result, real = run_impl(case)
    applies = honours_contract(case) and well_formed(case["expr"])
    if not applies:
        return result, None, False
    if real is None:
        return result, oracle(case, result, None, seed), True
    try:
        return result, oracle(case, result, real, seed), True
    except ValueError as ex:
        return result, {"kind": "unrepresentable", "why": str(ex)}, True


# ------------------------------------------------------------------ generation

def all_exprs(n, atoms, ctors, maxar, memo):
    """all expressions with exactly n nodes (memo: dict shared with forests)"""
    key = ("e", n)
    if key in memo:
        return memo[key]
    out = []
    if n == 1:
        out = list(atoms)
        if "call" in ctors:
            out.append(("call", "f", ()))
        if "callkw" in ctors:
            out.append(("callkw", "f", (), ()))
    elif n > 1:
        for k in range(1, min(maxar, n - 1) + 1):
            for kids in forests(n - 1, k, atoms, ctors, maxar, memo):
                if "sum" in ctors:
                    out.append(("sum", kids))
                if "prod" in ctors:
                    out.append(("prod", kids))
                if "call" in ctors:
                    out.append(("call", "f", kids))
                if "callkw" in ctors:
                    # every split into positional / keyword arguments with at least one keyword
                    for j in range(k):
                        out.append(("callkw", "f", kids[:j], tuple(zip(KEYS, kids[j:]))))
                if k == 2:
                    if "quot" in ctors:
                        out.append(("quot", kids[0], kids[1]))
                    if "pow" in ctors:
                        out.append(("pow", kids[0], kids[1]))
                if k == 1 and "not" in ctors:
                    out.append(("not", kids[0]))
    memo[key] = out
    return out


def forests(n, k, atoms, ctors, maxar, memo):
    """all k-tuples of expressions with n nodes in total"""
    key = ("f", n, k)
    if key in memo:
        return memo[key]
    out = []
    if k == 1:
        out = [(t,) for t in all_exprs(n, atoms, ctors, maxar, memo)]
    else:
        for a in range(1, n - k + 2):
            for t in all_exprs(a, atoms, ctors, maxar, memo):
                for rest in forests(n - a, k - 1, atoms, ctors, maxar, memo):
                    out.append((t,) + rest)
    memo[key] = out
    return out


def subsets(xs):
    for r in range(len(xs) + 1):
        for c in itertools.combinations(xs, r):
            yield list(c)


VARS = ["x", "y", "a", "b", "c"]
FUNS = ["f", "g"]
# keyword names; deliberately not in alphabetical order (the order of the mapping is the order written)
KEYS = ["m", "k", "j", "s"]


def random_kw(rng, d, lo=1):
    keys = rng.sample(KEYS, rng.randint(lo, 3))
    return tuple((key, random_expr(rng, d)) for key in keys)


def random_expr(rng, d, p_not=0.06):
    if d == 0 or rng.random() < 0.18:
        if rng.random() < 0.3:
            return ("int", rng.randint(-2, 3))
        return ("var", rng.choice(VARS))
    k = rng.random()
    if k < 0.30:
        return ("sum", tuple(random_expr(rng, d - 1) for _ in range(rng.randint(1, 4))))
    if k < 0.58:
        return ("prod", tuple(random_expr(rng, d - 1) for _ in range(rng.randint(1, 4))))
    if k < 0.66:
        return ("quot", random_expr(rng, d - 1), random_expr(rng, d - 1))
    if k < 0.74:
        return ("pow", random_expr(rng, d - 1), random_expr(rng, d - 1))
    if k < 0.87:
        return ("call", rng.choice(FUNS), tuple(random_expr(rng, d - 1) for _ in range(rng.randint(0, 3))))
    if k < 1.0 - p_not:
        return ("callkw", rng.choice(FUNS), tuple(random_expr(rng, d - 1) for _ in range(rng.randint(0, 2))),
                random_kw(rng, d - 1, lo=0 if rng.random() < 0.1 else 1))
    return ("not", random_expr(rng, d - 1))


def _with_empty(rng, e):
    """replace one random position by an empty sum/product (malformed input)"""
    k = e[0]
    if k in ("int", "var") or rng.random() < 0.3:
        return (rng.choice(["sum", "prod"]), ())
    if k in ("sum", "prod"):
        if not e[1]:
            return e
        i = rng.randrange(len(e[1]))
        return (k, e[1][:i] + (_with_empty(rng, e[1][i]),) + e[1][i + 1:])
    if k in ("quot", "pow"):
        if rng.random() < 0.5:
            return (k, _with_empty(rng, e[1]), e[2])
        return (k, e[1], _with_empty(rng, e[2]))
    if k == "call":
        if not e[2]:
            return (rng.choice(["sum", "prod"]), ())
        i = rng.randrange(len(e[2]))
        return (k, e[1], e[2][:i] + (_with_empty(rng, e[2][i]),) + e[2][i + 1:])
    if k == "callkw":
        n = len(e[2]) + len(e[3])
        if n == 0:
            return (rng.choice(["sum", "prod"]), ())
        i = rng.randrange(n)
        if i < len(e[2]):
            return (k, e[1], e[2][:i] + (_with_empty(rng, e[2][i]),) + e[2][i + 1:], e[3])
        i -= len(e[2])
        return (k, e[1], e[2], e[3][:i] + ((e[3][i][0], _with_empty(rng, e[3][i][1])),) + e[3][i + 1:])
    return (k, _with_empty(rng, e[1]))


def corpus():
    out = []
    d = os.path.join(common.VERIF, "corpus", PID)
    if os.path.isdir(d):
        for f in sorted(os.listdir(d)):
            if f.endswith(".json"):
                c = json.load(open(os.path.join(d, f)))
                out.append({"expr": T(c["expr"]), "free": list(c["free"]), "supplier": c.get("supplier", "v")})
    return out


def gen_cases(tier, seed):
    cases = corpus()
    n_corpus = len(cases)
    quick = tier == "quick"
    # exhaustive A: every constructor, atoms {x, a, 2}, <= NA nodes, arity <= 3
    NA = 4 if quick else 5
    atoms = [("var", "x"), ("var", "a"), ("int", 2)]
    ctorsA = {"sum", "prod", "quot", "pow", "call", "not"}
    memo = {}
    exprsA = [e for n in range(1, NA + 1) for e in all_exprs(n, atoms, ctorsA, 3, memo)]
    # exhaustive B: deeper, smaller vocabulary (no product/power: same code path as sum/quotient)
    NB = 5 if quick else 6
    memo = {}
    exprsB = [e for n in range(NA + 1, NB + 1)
              for e in all_exprs(n, [("var", "x"), ("var", "a")], {"sum", "call", "quot"}, 3, memo)
              if depth(e) >= 2]
    exprsB = exprsB[::2]              # every second expression of stream B (budget)
    # exhaustive C: calls with keyword arguments.  Every expression that contains a CallWithKwargs
    # (every split of the arguments into positional / keyword, keywords m, k, j in that order, and the
    # node without any keyword), around and inside Sum (map_commut_assoc), Quotient (plain
    # IdentityMapper node), Call
    NC = 4
    memo = {}
    exprsC = [e for n in range(1, NC + 1)
              for e in all_exprs(n, atoms[:2] if quick else atoms, {"sum", "quot", "call", "callkw"}, 3, memo)
              if _has_kind(e, "callkw")]
    if not quick:
        memo = {}
        exprsC += [e for e in all_exprs(NC + 1, atoms[:2], {"sum", "quot", "callkw"}, 3, memo)
                   if _has_kind(e, "callkw")]
    # pairs of calls that pymbolic considers EQUAL although their keywords are written in a different
    # order (kw_parameters is a mapping): the is_constant dictionary has one entry for both
    x, a, b = ("var", "x"), ("var", "a"), ("var", "b")
    s1 = ("sum", (a, ("int", 1)))
    exprsP = []
    for u, v in ((x, a), (a, x), (a, b), (s1, x), (x, s1), (s1, ("quot", a, b))):
        c1 = ("callkw", "f", (), (("m", u), ("k", v)))
        c2 = ("callkw", "f", (), (("k", v), ("m", u)))
        d1 = ("callkw", "g", (a,), (("m", u), ("k", v), ("j", ("int", 2))))
        d2 = ("callkw", "g", (a,), (("j", ("int", 2)), ("k", v), ("m", u)))
        exprsP += [("sum", (c1, c2)), ("prod", (c1, x, c2)), ("quot", c1, c2), ("call", "h", (c2, c1)),
                   ("sum", (d1, ("prod", (d2, b)))), ("sum", (("not", c1), c2, a))]
    n_exh = 0
    for e in exprsA + exprsB + exprsC + exprsP:
        for fr in subsets(names(e)):
            cases.append({"expr": e, "free": fr, "supplier": "v"})
            n_exh += 1
    # random structured
    rng = random.Random(seed * 7919 + 18)
    nrand = 2000 if quick else 20000
    for _ in range(nrand):
        e = random_expr(rng, rng.randint(2, 4))
        ns = names(e)
        fr = [x for x in ns if rng.random() < 0.4]
        if rng.random() < 0.1:
            fr.append("z")            # declared free but absent
        cases.append({"expr": e, "free": fr, "supplier": "v"})
    # contract-violating stream: only model-vs-implementation agreement is checked
    nmal = 300 if quick else 2000
    n_mal = 0
    for i in range(nmal):
        e = random_expr(rng, rng.randint(1, 3))
        kind = i % 3
        if kind == 0:
            e = _with_empty(rng, e)
            sup = "v"
        elif kind == 1:
            sup = "same"
        else:
            # supplied names occur in the expression (v0/v1 used as ordinary variables)
            e = ("sum", (e, ("var", "v0"), ("prod", (("var", "v1"), ("var", rng.choice(VARS))))))
            sup = "v"
        ns = names(e)
        cases.append({"expr": e, "free": [x for x in ns if rng.random() < 0.4], "supplier": sup})
        n_mal += 1
    dist = {"corpus": n_corpus, "exhaustive": n_exh, "random": nrand, "contract_violating": n_mal,
            "exhaustive_scope": "A: all expressions with <= %d nodes over atoms {x, a, 2}, constructors "
                                "{Sum, Product (1-3 children), Quotient, Power, Call f (0-3 args), LogicalNot}; "
                                "B: %s expressions with %d..%d nodes and depth >= 2 over atoms {x, a}, "
                                "constructors {Sum, Call f, Quotient}; C: all %d expressions with <= %d nodes "
                                "over atoms %s, constructors {Sum, Quotient, Call f, CallWithKwargs f (every "
                                "positional/keyword split of 0-3 arguments, keywords m, k, j)} that contain a "
                                "CallWithKwargs; P: %d expressions with two calls equal up to keyword order; "
                                "each x ALL subsets of its names (variables and function symbols) declared free"
                                % (NA, "every second of the", NA + 1, NB, len(exprsC), NC,
                                   "{x, a}" if quick else "{x, a, 2} (and with 5 nodes over {x, a} without Call)",
                                   len(exprsP)),
            "exhaustive_expressions": len(exprsA) + len(exprsB) + len(exprsC) + len(exprsP),
            "kwargs_call_cases": sum(1 for c in cases if _has_kind(c["expr"], "callkw")),
            "random_scope": "depth 2-4, 1-4 children, variables x y a b c, ints -2..3, functions f g "
                            "(Call with 0-3 arguments; CallWithKwargs with 0-2 positional and 0-3 keyword "
                            "arguments out of m k j s in random order), each name free with probability 0.4"}
    return cases, dist


# ------------------------------------------------------------------ shrinking

def _neighbours(e):
    k = e[0]
    if k in ("sum", "prod"):
        for c in e[1]:
            yield c
        if len(e[1]) > 1:
            for i in range(len(e[1])):
                yield (k, e[1][:i] + e[1][i + 1:])
        for i, c in enumerate(e[1]):
            for c2 in _neighbours(c):
                yield (k, e[1][:i] + (c2,) + e[1][i + 1:])
    elif k in ("quot", "pow"):
        yield e[1]
        yield e[2]
        for c2 in _neighbours(e[1]):
            yield (k, c2, e[2])
        for c2 in _neighbours(e[2]):
            yield (k, e[1], c2)
    elif k == "call":
        for c in e[2]:
            yield c
        for i in range(len(e[2])):
            yield (k, e[1], e[2][:i] + e[2][i + 1:])
        for i, c in enumerate(e[2]):
            for c2 in _neighbours(c):
                yield (k, e[1], e[2][:i] + (c2,) + e[2][i + 1:])
    elif k == "callkw":
        for c in subexprs(e):
            yield c
        for i in range(len(e[2])):
            yield (k, e[1], e[2][:i] + e[2][i + 1:], e[3])
        for i in range(len(e[3])):
            yield (k, e[1], e[2], e[3][:i] + e[3][i + 1:])
        for i, c in enumerate(e[2]):
            for c2 in _neighbours(c):
                yield (k, e[1], e[2][:i] + (c2,) + e[2][i + 1:], e[3])
        for i, (key, c) in enumerate(e[3]):
            for c2 in _neighbours(c):
                yield (k, e[1], e[2], e[3][:i] + ((key, c2),) + e[3][i + 1:])
    elif k == "not":
        yield e[1]
        for c2 in _neighbours(e[1]):
            yield (k, c2)
    elif k == "int" and e[1] not in (0, 1):
        yield ("int", 1)


def shrink(case, fails):
    changed = True
    while changed:
        changed = False
        for cand in _neighbours(case["expr"]):
            ns = set(names(cand))
            c2 = {"expr": cand, "free": [x for x in case["free"] if x in ns], "supplier": case["supplier"]}
            if size(cand) <= size(case["expr"]) and cand != case["expr"] and fails(c2):
                case = c2
                changed = True
                break
        if not changed:
            for i in range(len(case["free"])):
                c2 = dict(case, free=case["free"][:i] + case["free"][i + 1:])
                if fails(c2):
                    case = c2
                    changed = True
                    break
    return case


# ------------------------------------------------------------------ the check

HEADER = ("From Coq Require Import List ZArith String Bool.\nImport ListNotations.\nOpen Scope string_scope.\n"
          "From Dagrt Require Import GenC18 Collapse.\n"
          "(* typed constructor of a case: lets Coq elaborate the (large) case terms against known types *)\n"
          "Definition mk (sup : bool) (free : list string) (e : expr) (want : outcome)\n"
          "  : bool * list string * expr * outcome := (sup, free, e, want).\n"
          "Definition chk (c : bool * list string * expr * outcome) : bool :=\n"
          "  match c with (sup, free, e, want) =>\n"
          "    outcome_eqb (outcome_of (collapse finder_unary_combines (if sup then fresh_v else fresh_same) free e)) want\n"
          "  end.\n")


def outcome_coq(res):
    if res[0] == "ok":
        return "(OOk %s [%s])" % (to_coq(res[1]), "; ".join("(%s, %s)" % (coq_str(x), to_coq(c)) for x, c in res[2]))
    return "(OExc %s)" % coq_str(res[1])


def case_term(case, res):
    return "(mk %s [%s] %s %s)" % ("true" if case["supplier"] == "v" else "false",
                                   "; ".join(coq_str(x) for x in case["free"]),
                                   to_coq(case["expr"]), outcome_coq(res))


def case_json(case):
    return {"expr": case["expr"], "free": case["free"], "supplier": case["supplier"]}


def model_term(case):
    return ("outcome_of (collapse finder_unary_combines %s [%s] %s)"
            % ("fresh_v" if case["supplier"] == "v" else "fresh_same",
               "; ".join(coq_str(x) for x in case["free"]), to_coq(case["expr"])))


def main(tier):
    rep = common.Reporter(PID, tier)
    seed = common.seed()
    ps = common.proof_stage(rep, PID, gen=["c18"])

    cases, dist = gen_cases(tier, seed)
    results = []
    failing = {}
    n_oracle = 0
    for case in cases:
        res, fail, applies = check_case(case, seed)
        results.append(res)
        n_oracle += 1 if applies else 0
        if fail is not None:
            key = fail["kind"] + ":" + fail.get("exception", "")
            if key not in failing or size(case["expr"]) < size(failing[key][0]["expr"]):
                failing[key] = (case, fail)

    known = common.known_findings(PID)
    for key, (case, fail) in sorted(failing.items()):
        kind, exc = fail["kind"], fail.get("exception")

        def fails(c, kind=kind, exc=exc):
            if not (honours_contract(c) and well_formed(c["expr"])):
                return False
            f = check_case(c, seed)[1]
            return f is not None and f["kind"] == kind and f.get("exception") == exc
        c2 = shrink(case, fails)
        r2, f2, _ = check_case(c2, seed)
        matched = [k for k in known if k.get("class") == "unclassified_passthrough_node"
                   and kind == "exception" and exc == "KeyError" and _has_not(c2["expr"])]
        if matched:
            rep.known_finding(matched[0].get("what_fails", key))
            continue
        rep.violation({"what": "collapse_constants violates C18 (%s)" % key,
                       "case": case_json(c2), "input_coq": to_coq(c2["expr"]), "free": c2["free"],
                       "impl_result": r2, "oracle": f2,
                       "replay": "./check C18 --replay <this file>"})

    # correspondence with the Coq model
    n_eval, mism, errors = 0, [], []
    if os.path.exists(os.path.join(common.COQ, "model", "Collapse.vo")) and os.path.exists(
            os.path.join(common.COQ, "gen", "GenC18.vo")):
        terms = [case_term(c, r) for c, r in zip(cases, results)]
        mism, n_eval, errors = common.eval_cases(PID, HEADER, terms, "chk", shard=min(1500, max(300, -(-len(terms) // 32))))
    else:
        errors = ["model not built"]

    tie_broken = bool(mism or errors)
    if (not ps["ok"] or tie_broken) and not rep.violations:
        detail = {"what": "proof obligation or model/implementation correspondence no longer checks; "
                          "no failing input found by the implementation-level oracle",
                  "proof_stage": ps, "coq_errors": errors[:3]}
        if mism:
            i = mism[0]
            detail["first_disagreeing_case"] = {"case": case_json(cases[i]), "impl_result": results[i],
                                                "model_result": common.eval_term(HEADER, model_term(cases[i]))}
            detail["n_disagreements"] = len(mism)
        detail["broken"] = ("theorem file %s" % ps.get("theorem")) if not ps["ok"] else \
            "correspondence collapse_constants ~ Dagrt.Collapse.collapse"
        rep.violation(detail, no_input=True)
    elif not ps["ok"] or tie_broken:
        rep.coverage["broken_obligation"] = ps if not ps["ok"] else {"disagreements": len(mism)}

    nontrivial = {json.dumps([c["expr"], c["free"]]) for c, r in zip(cases, results)
                  if r[0] != "ok" or len(r[2]) > 0 or r[1] != c["expr"]}
    n_hoists = [len(r[2]) for r in results if r[0] == "ok"]
    rep.coverage.update(
        evaluations=len(cases), distinct_nontrivial=len(nontrivial),
        rule="cases = corpus + exhaustive small expressions x all subsets of their names free + random deeper "
             "expressions + contract-violating stream; non-trivial = collapse_constants hoists at least one term, "
             "changes the expression (regrouping) or raises; distinct by (expression, free set)",
        traces_validated_against_impl=n_eval, model_impl_disagreements=len(mism),
        oracle_evaluations=n_oracle,
        input_distribution=dist,
        size_histogram={str(k): sum(1 for c in cases if size(c["expr"]) // 5 == k // 5) for k in range(0, 90, 5)},
        hoists_histogram={str(k): sum(1 for h in n_hoists if h == k) for k in sorted(set(n_hoists))},
        exceptions={k: sum(1 for r in results if r[0] == "exc" and r[1] == k)
                    for k in sorted({r[1] for r in results if r[0] == "exc"})},
        samples=[{"input": to_coq(cases[i]["expr"]), "free": cases[i]["free"], "impl": results[i]} for i in
                 (0, len(cases) // 3, len(cases) // 2, len(cases) - 1)],
        exhaustive=False,
    )
    rep.assumptions = [
        "new_var_func returns pairwise distinct names none of which occurs in the expression "
        "(hypotheses of C18_value / C18_once; enforced by the generators, negation exercised in the "
        "contract-violating stream where only model = implementation is compared)",
        "no Sum/Product with zero children (pymbolic never builds one; both model and code raise TypeError)",
        "function symbols denote pure functions of their arguments (A2); values are integers, + and * "
        "commutative and associative (the rewriting regroups operands); quotient, power and logical not are "
        "arbitrary total functions",
        "expressions range over Variable, int, Sum, Product, Quotient, Power, Call(Variable, positional args), "
        "CallWithKwargs(Variable, positional args, keyword args with string keys), "
        "LogicalNot (the latter standing for the unary pass-through nodes of CombineMapper)",
        "a call with keyword arguments denotes a pure function of the symbol, the positional values and the "
        "keyword/value pairs (model: of the pairs as written; oracle: bound by name)"]
    return rep.finish("proof")


def _has_kind(e, kind):
    return e[0] == kind or any(_has_kind(c, kind) for c in subexprs(e))


def _has_not(e):
    return _has_kind(e, "not")


def replay(path):
    r = json.load(open(path))
    c = r.get("case") or (r.get("first_disagreeing_case") or {}).get("case")
    if c is None:
        print("replay names a broken obligation, no input: %s" % r.get("broken"))
        return 1
    case = {"expr": T(c["expr"]), "free": list(c["free"]), "supplier": c.get("supplier", "v")}
    res, fail, applies = check_case(case, r.get("seed", 0))
    out = {"input": to_coq(case["expr"]), "free": case["free"], "impl_result": res, "oracle": fail,
           "oracle_applies": applies}
    if "first_disagreeing_case" in r:
        out["model_result"] = common.eval_term(HEADER, model_term(case))
    print(json.dumps(out, indent=1, default=str))
    if fail is not None:
        return 1
    if "first_disagreeing_case" in r:
        mism, _, errors = common.eval_cases(PID, HEADER, [case_term(case, res)], "chk")
        return 1 if (mism or errors) else 0
    return 0
