"""C14: kind unification is a partial join; kind inference is order-independent.

Tie: (1) real dagrt.data.unify on the complete finite universe (None, Boolean, Integer,
Scalar x2, Array x2, UserType x3): all pairs and all triples, vs coq/model/Unify.v;
(2) real dagrt.data.SymbolKindFinder on generated small programs under all permutations
of <= 5 statements and several PYTHONHASHSEEDs (subprocesses), vs coq/model/KindInfer.v
(run_queue evaluated with vm_compute).
Oracle (independent of the model): idempotence / commutativity / associativity decided on
the real results; the outcomes of one program under all orders and seeds must agree
(both fail, or equal tables).
"""
import contextlib
import io
import itertools
import json
import os
import random
import subprocess
import sys

from harness import common

PID = "C14"
SEEDS_QUICK = (0, 1, 2, 3)
SEEDS_THOROUGH = (0, 1, 2, 3, 4, 5, 6, 7)

# ------------------------------------------------------------------ kinds

KINDS = ["None", "Boolean", "Integer", "Scalar:1", "Scalar:0", "Array:1", "Array:0",
         "User:a", "User:b", "User:c"]


def kind_to_real(s):
    from dagrt import data
    if s == "None":
        return None
    if s == "Boolean":
        return data.Boolean()
    if s == "Integer":
        return data.Integer()
    tag, arg = s.split(":", 1)
    if tag == "Scalar":
        return data.Scalar(arg == "1")
    if tag == "Array":
        return data.Array(arg == "1")
    if tag == "User":
        return data.UserType(arg)
    raise ValueError(s)


def kind_from_real(k):
    from dagrt import data
    if k is None:
        return "None"
    if type(k) is data.Boolean:
        return "Boolean"
    if type(k) is data.Integer:
        return "Integer"
    if type(k) is data.Scalar:
        return "Scalar:%d" % bool(k.is_real_valued)
    if type(k) is data.Array:
        return "Array:%d" % bool(k.is_real_valued)
    if type(k) is data.UserType:
        return "User:%s" % k.identifier
    raise ValueError("unexpected kind %r" % (k,))


# frequent strings are bound once in the header of the Coq case files (string literals are
# slow to elaborate); everything else is written as a literal
KNOWN_STRINGS = {"p": "s_p", "q": "s_q", "a": "s_a", "b": "s_b", "c": "s_c", "i": "s_i", "j": "s_j",
                 "zz": "s_zz", "<t>": "s_t", "<state>y": "s_y", "u": "s_u", "v": "s_v"}


def coq_lit(s):
    return '"' + s.replace('"', '""') + '"'


def coq_str(s):
    return KNOWN_STRINGS.get(s) or coq_lit(s)


def kind_to_coq(s):
    if s == "None":
        return "(@None kind)"
    if s == "Boolean":
        return "(Some KBool)"
    if s == "Integer":
        return "(Some KInt)"
    tag, arg = s.split(":", 1)
    if tag == "Scalar":
        return "(Some (KScalar %s))" % ("true" if arg == "1" else "false")
    if tag == "Array":
        return "(Some (KArray %s))" % ("true" if arg == "1" else "false")
    return "(Some (KUser %s))" % coq_str(arg)


ERRS = {"ValueError", "AssertionError", "TypeError", "RuntimeError", "UnableToInferKind"}


def res_to_coq(r):
    if r[0] == "ok":
        return "(Ok %s)" % kind_to_coq(r[1])
    if r[1] in ERRS:
        return "(@Err okind %s)" % r[1]
    return None  # an exception class the model does not have: never equal


def real_unify(a, b):
    from dagrt.data import unify
    try:
        return ("ok", kind_from_real(unify(kind_to_real(a), kind_to_real(b))))
    except Exception as ex:  # noqa: BLE001 - the class is the observable
        return ("exc", type(ex).__name__)


def sim(x, y):
    """both fail, or both succeed with equal results"""
    if x[0] == "ok" and y[0] == "ok":
        return x[1] == y[1]
    return x[0] != "ok" and y[0] != "ok"


def real_unify2(a, b, c, left):
    if left:
        r = real_unify(a, b)
        return real_unify(r[1], c) if r[0] == "ok" else r
    r = real_unify(b, c)
    return real_unify(a, r[1]) if r[0] == "ok" else r


# ------------------------------------------------------------------ expressions / programs

def e_to_real(e):
    from pymbolic import primitives as p
    t = e[0]
    if t == "num":
        return {"0": 0, "1": 1, "2": 2, "1j": 1j, "2.5": 2.5}[e[1]]
    if t == "var":
        return p.Variable(e[1])
    if t == "sum":
        return p.Sum(tuple(e_to_real(c) for c in e[1]))
    if t == "prod":
        return p.Product(tuple(e_to_real(c) for c in e[1]))
    if t == "quot":
        return p.Quotient(e_to_real(e[1]), e_to_real(e[2]))
    if t == "cmp":
        return p.Comparison(e_to_real(e[1]), ">", e_to_real(e[2]))
    raise ValueError(e)


def e_from_real(x):
    from pymbolic import primitives as p
    if isinstance(x, complex):
        return ["num", "1j"]
    if isinstance(x, (int, float)) and not isinstance(x, bool):
        return ["num", {0: "0", 1: "1"}.get(x, "2")]
    if isinstance(x, p.Variable):
        return ["var", x.name]
    if isinstance(x, p.Sum):
        return ["sum", [e_from_real(c) for c in x.children]]
    if isinstance(x, p.Product):
        return ["prod", [e_from_real(c) for c in x.children]]
    if isinstance(x, p.Quotient):
        return ["quot", e_from_real(x.numerator), e_from_real(x.denominator)]
    if isinstance(x, p.Comparison):
        return ["cmp", e_from_real(x.left), e_from_real(x.right)]
    raise ValueError("unexpected expression %r" % (x,))


def e_to_coq(e):
    t = e[0]
    if t == "num":
        return "(EConst %s)" % ("false" if e[1] == "1j" else "true")
    if t == "var":
        return "(EVar %s)" % coq_str(e[1])
    if t == "sum":
        return "(ESum [%s])" % "; ".join(e_to_coq(c) for c in e[1])
    if t == "prod":
        return "(EProd [%s])" % "; ".join(e_to_coq(c) for c in e[1])
    if t == "quot":
        return "(EQuot %s %s)" % (e_to_coq(e[1]), e_to_coq(e[2]))
    if t == "cmp":
        return "(ECmp %s %s)" % (e_to_coq(e[1]), e_to_coq(e[2]))
    raise ValueError(e)


def e_size(e):
    t = e[0]
    if t in ("num", "var"):
        return 1
    if t in ("sum", "prod"):
        return 1 + sum(e_size(c) for c in e[1])
    return 1 + e_size(e[1]) + e_size(e[2])


def stmt_to_real(i, s):
    from dagrt.language import Assign
    return Assign(id="s%d" % i, assignee=s["lhs"],
                  assignee_subscript=(0,) if s["sub"] else (),
                  expression=e_to_real(s["expr"]),
                  loops=[(ident, 0, 3) for ident in s["loops"]])


def flat_and_raw(s):
    """(flatten(stmt.expression), stmt.expression) of the real statement object."""
    from pymbolic import flatten
    st = stmt_to_real(0, s)
    return e_from_real(flatten(st.expression)), e_from_real(st.expression)


def group(queue):
    """(phase, stmt) list -> names, phases as SymbolKindFinder.__call__ takes them
    (consecutive items of one phase form one phase; names may repeat)."""
    names, phases = [], []
    for ph, st in queue:
        if names and names[-1] == ph:
            phases[-1].append(st)
        else:
            names.append(ph)
            phases.append([st])
    return names, phases


def run_real(prog, perm):
    """One run of the real SymbolKindFinder.  prog = {"forced": [[phase, name, kind]],
    "stmts": [[phase, stmt]]}; perm = order in which the statements are presented."""
    from dagrt.data import SymbolKindFinder
    queue = [(prog["stmts"][i][0], stmt_to_real(i, prog["stmts"][i][1])) for i in perm]
    names, phases = group(queue)
    forced = [(p, x, kind_to_real(k)) for p, x, k in prog["forced"]]
    buf = io.StringIO()
    with contextlib.redirect_stdout(buf):
        try:
            t = SymbolKindFinder({})(names, phases, forced_kinds=forced)
        except Exception as ex:  # noqa: BLE001
            return ["err", type(ex).__name__]
    try:
        items = [["", x, kind_from_real(k)] for x, k in t.global_table.items()]
        for ph, tbl in t.per_phase_table.items():
            items += [[ph, x, kind_from_real(k)] for x, k in tbl.items()]
    except Exception as ex:  # noqa: BLE001
        return ["err", "Unrepresentable:" + type(ex).__name__]
    return ["table", sorted(items), "trying to derive" in buf.getvalue()]


def run_infer_kinds(prog):
    """dagrt.data.infer_kinds on the DAGCode built from the program (distinct phases, no forced kinds)."""
    from dagrt.data import infer_kinds
    from dagrt.language import DAGCode, ExecutionPhase
    queue = [(ph, stmt_to_real(i, s)) for i, (ph, s) in enumerate(prog["stmts"])]
    names, phases = group(queue)
    if len(set(names)) != len(names) or prog["forced"]:
        return None
    dag = DAGCode({n: ExecutionPhase(n, n, sts) for n, sts in zip(names, phases)}, names[0])
    buf = io.StringIO()
    with contextlib.redirect_stdout(buf):
        try:
            t = infer_kinds(dag, function_registry={})
        except Exception as ex:  # noqa: BLE001
            return ["err", type(ex).__name__]
    items = [["", x, kind_from_real(k)] for x, k in t.global_table.items()]
    for ph, tbl in t.per_phase_table.items():
        items += [[ph, x, kind_from_real(k)] for x, k in tbl.items()]
    return ["table", sorted(items), "trying to derive" in buf.getvalue()]


def outcome_sim(a, b):
    if a[0] == "table" and b[0] == "table":
        return a[1] == b[1]
    return a[0] == "err" and b[0] == "err"


def perms_of(n, rng, cap):
    if n <= 5:
        ps = [list(p) for p in itertools.permutations(range(n))]
        if len(ps) <= cap:
            return ps
    else:
        ps = None
    out = [list(range(n)), list(reversed(range(n)))]
    seen = {tuple(x) for x in out}
    while len(out) < cap:
        p = list(range(n))
        rng.shuffle(p)
        if tuple(p) not in seen:
            seen.add(tuple(p))
            out.append(p)
    return out


# ------------------------------------------------------------------ worker (one hash seed)

def worker():
    jobs = json.load(sys.stdin)
    out = []
    for prog, perms in jobs:
        out.append([run_real(prog, p) for p in perms])
    json.dump(out, sys.stdout)


def run_all(jobs, seeds):
    """jobs: list of (prog, perms).  Returns {seed: [[outcome per perm] per job]}.
    Every seed runs in its own interpreters (PYTHONHASHSEED=n), sharded for parallelism."""
    nshard = max(1, common.NPROC // len(seeds))
    size = (len(jobs) + nshard - 1) // nshard if jobs else 1
    procs = []
    for sd in seeds:
        for k in range(0, len(jobs), size):
            env = dict(os.environ)
            env["PYTHONHASHSEED"] = str(sd)
            p = subprocess.Popen([sys.executable, "-c", "from harness import c14; c14.worker()"],
                                 stdin=subprocess.PIPE, stdout=subprocess.PIPE, stderr=subprocess.PIPE,
                                 text=True, env=env, cwd=common.VERIF)
            procs.append((sd, k, p, json.dumps(jobs[k:k + size])))
    res = {sd: [None] * len(jobs) for sd in seeds}
    errors = []
    # all workers run concurrently; one thread per worker feeds its stdin and collects its stdout
    import threading

    def feed(p, data, slot):
        o, e = p.communicate(data)
        slot.append((o, e, p.returncode))

    threads = []
    for sd, k, p, data in procs:
        slot = []
        th = threading.Thread(target=feed, args=(p, data, slot))
        th.start()
        threads.append((sd, k, th, slot))
    for sd, k, th, slot in threads:
        th.join()
        o, e, rc = slot[0]
        try:
            o = o[o.index("["):]
            part = json.loads(o)
        except Exception:  # noqa: BLE001
            errors.append("worker seed %d shard %d failed: rc=%s %s" % (sd, k, rc, e[-500:]))
            continue
        res[sd][k:k + len(part)] = part
    return res, errors


# ------------------------------------------------------------------ program generation

def V(x):
    return ["var", x]


def N(x):
    return ["num", x]


def S(*c):
    return ["sum", list(c)]


def P(*c):
    return ["prod", list(c)]


A, B, Y, T, I, ZZ = V("a"), V("b"), V("<state>y"), V("<t>"), V("i"), V("zz")

EXPRS_CORE = [N("1"), N("1j"), A, B, S(A, N("1")), S(N("1"), B), P(A, B), ["cmp", T, N("0")],
              P(I, N("2")), S(A, B)]
EXPRS_MORE = [T, I, Y, S(A, N("1j")), S(N("0"), I), P(I, N("1")), S(["cmp", A, B], N("1")),
              ["quot", A, B], S(Y, A), S(S(A, B), I), P(A, N("2")), S(T, N("1")), P(ZZ, N("2")),
              S(I, B), P(P(A, B), Y), S(A, A), ["cmp", A, N("0")], S(B, N("2.5"))]


def mk(lhs, expr, loops=(), sub=False):
    return {"lhs": lhs, "sub": bool(sub), "loops": list(loops), "expr": expr}


def alphabet(exprs, lhss, shapes):
    out = []
    for lhs in lhss:
        for e in exprs:
            for loops, sub in shapes:
                out.append(mk(lhs, e, loops, sub))
    return out


FORCED_POOL = [["p", "i", "Integer"], ["p", "a", "User:u"], ["p", "b", "Array:1"],
               ["p", "<state>y", "User:u"], ["p", "b", "Integer"], ["q", "i", "Integer"],
               ["p", "a", "Scalar:0"], ["p", "<state>y", "Array:0"], ["p", "a", "Boolean"],
               ["p", "b", "User:v"]]


def corpus():
    out = []
    d = os.path.join(common.VERIF, "corpus", PID)
    if os.path.isdir(d):
        for f in sorted(os.listdir(d)):
            if f.endswith(".json"):
                j = json.load(open(os.path.join(d, f)))
                if "program" in j:
                    out.append(j["program"])
    return out


def gen_programs(tier, seed):
    rng = random.Random(seed * 7919 + 14)
    progs = list(corpus())
    n_corpus = len(progs)
    # exhaustive: all 2-statement programs over a statement alphabet (one phase, no forced kinds)
    shapes2 = [((), False), (("i",), False), (("i",), True)]
    alpha2 = alphabet(EXPRS_CORE if tier == "quick" else EXPRS_CORE + EXPRS_MORE[:8],
                      ["a", "b"], shapes2)
    for s1 in alpha2:
        for s2 in alpha2:
            progs.append({"forced": [], "stmts": [["p", s1], ["p", s2]]})
    n2 = len(progs) - n_corpus
    # exhaustive: all 3-statement programs over a smaller alphabet
    alpha3 = [mk("a", N("1j")), mk("a", ["cmp", T, N("0")]), mk("b", S(A, N("1"))), mk("b", P(A, I)),
              mk("a", P(I, N("2"))), mk("b", N("1"), ("i",), True), mk("a", S(B, N("1"))),
              mk("<state>y", S(A, B)), mk("b", S(Y, N("1")), ("i",), False)]
    if tier != "quick":
        alpha3 += [mk("a", B), mk("b", P(ZZ, N("2"))), mk("a", S(N("0"), I), ("i",), False)]
    for tr in itertools.product(alpha3, repeat=3):
        progs.append({"forced": [], "stmts": [["p", s] for s in tr]})
    n3 = len(progs) - n_corpus - n2
    # exhaustive: all pairs over the same alphabet in a second phase q, behind one statement of phase p
    for pr in itertools.product(alpha3, repeat=2):
        # (the leading statement is a subscripted assignment: it never counts as progress)
        progs.append({"forced": [], "stmts": [["p", mk("c", N("1"), (), True)]] + [["q", s] for s in pr]})
    n3q = len(progs) - n_corpus - n2 - n3
    # random structured: 2-5 statements, two phases, forced kinds
    big = alphabet(EXPRS_CORE + EXPRS_MORE, ["a", "b", "<state>y", "c"],
                   [((), False), ((), False), (("i",), False), (("i",), True), (("i", "j"), False)])
    nrand = 350 if tier == "quick" else 4000
    for _ in range(nrand):
        n = rng.choice([2, 3, 3, 4, 4, 5])
        two = rng.random() < 0.3
        stmts = [[("q" if two and rng.random() < 0.4 else "p"), rng.choice(big)] for _ in range(n)]
        forced = rng.sample(FORCED_POOL, rng.choice([0, 0, 1, 1, 2, 3]))
        progs.append({"forced": forced, "stmts": stmts})
    dist = {"corpus": n_corpus, "exhaustive_2_statements": n2, "exhaustive_3_statements": n3,
            "exhaustive_second_phase_pairs": n3q,
            "random": nrand,
            "exhaustive_scope": "all ordered pairs over %d statements (2 assignees x %d expressions x "
                                "{plain, loop i, subscripted+loop i}); all triples over %d statements"
                                % (len(alpha2), len(alpha2) // 6, len(alpha3)),
            "random_scope": "2-5 statements from %d (4 assignees incl. a state variable, %d expressions, "
                            "0-2 loop variables, subscripts), 1-2 phases, 0-3 forced kinds from %d"
                            % (len(big), len(EXPRS_CORE + EXPRS_MORE), len(FORCED_POOL))}
    return progs, dist


# ------------------------------------------------------------------ oracle on programs

def oracle_inproc(prog, cap=120):
    """In-process (one hash seed) decision of order independence, used for shrinking/diagnosis."""
    n = len(prog["stmts"])
    outs = [run_real(prog, p) for p in perms_of(n, random.Random(0), cap)]
    return all(outcome_sim(outs[0], o) for o in outs), outs


def unforced_loops(prog):
    forced = {(p, x) for p, x, k in prog["forced"] if k == "Integer"}
    return sorted({(ph, i) for ph, s in prog["stmts"] for i in s["loops"]} - forced)


def diagnose(prog, outs):
    """Narrow classes of order dependence (independent of the model)."""
    if any(o[0] == "table" and o[2] for o in outs):
        return "conflicting_kinds_first_wins"
    ul = unforced_loops(prog)
    if ul:
        p2 = {"forced": prog["forced"] + [[ph, i, "Integer"] for ph, i in ul], "stmts": prog["stmts"]}
        ok, outs2 = oracle_inproc(p2)
        if ok and not any(o[0] == "table" and o[2] for o in outs2):
            return "unforced_loop_variable"
    if all(o[0] == "table" for o in outs):
        return "tables_differ_without_unification_failure"
    return "error_in_some_orders_only"


def prog_size(prog):
    return (len(prog["stmts"]), len(prog["forced"]),
            sum(e_size(s["expr"]) + len(s["loops"]) + s["sub"] for _, s in prog["stmts"]))


def shrink_prog(prog, cls):
    def fails(p):
        ok, outs = oracle_inproc(p)
        return (not ok) and diagnose(p, outs) == cls

    changed = True
    while changed:
        changed = False
        cands = []
        for i in range(len(prog["stmts"])):
            cands.append({"forced": prog["forced"], "stmts": prog["stmts"][:i] + prog["stmts"][i + 1:]})
        for i in range(len(prog["forced"])):
            cands.append({"forced": prog["forced"][:i] + prog["forced"][i + 1:], "stmts": prog["stmts"]})
        for i, (ph, s) in enumerate(prog["stmts"]):
            subs = []
            e = s["expr"]
            if e[0] in ("sum", "prod"):
                subs += e[1]
                if len(e[1]) > 2:
                    subs += [[e[0], e[1][:j] + e[1][j + 1:]] for j in range(len(e[1]))]
            elif e[0] in ("quot", "cmp"):
                subs += [e[1], e[2]]
            for e2 in subs:
                cands.append({"forced": prog["forced"], "stmts": prog["stmts"][:i] + [
                    [ph, dict(s, expr=e2)]] + prog["stmts"][i + 1:]})
            if s["loops"]:
                cands.append({"forced": prog["forced"], "stmts": prog["stmts"][:i] + [
                    [ph, dict(s, loops=s["loops"][1:])]] + prog["stmts"][i + 1:]})
            if s["sub"]:
                cands.append({"forced": prog["forced"], "stmts": prog["stmts"][:i] + [
                    [ph, dict(s, sub=False)]] + prog["stmts"][i + 1:]})
        for c in cands:
            if len(c["stmts"]) >= 2 and prog_size(c) < prog_size(prog) and fails(c):
                prog = c
                changed = True
                break
    return prog


# ------------------------------------------------------------------ Coq terms

HEADER = ("From Coq Require Import List String Bool Arith.\nImport ListNotations.\n"
          "From Dagrt Require Import GenC14 Unify KindInfer KindInferCfg.\nOpen Scope string_scope.\n"
          + "".join("Definition %s : string := %s.\n" % (v, coq_lit(k)) for k, v in sorted(KNOWN_STRINGS.items()))
          + "Inductive case :=\n"
          "| CU2 (a b : okind) (r : res okind)\n"
          "| CU3 (a b c : okind) (l r : res okind)\n"
          "| CP (forced : list (string * string * okind)) (stmts : list qitem)\n"
          "     (runs : list (list nat * outcome)).\n"
          "Definition dflt : qitem := (\"\", {| b_lhs := \"\"; b_sub := true; b_loops := []; "
          "b_flat := EConst true; b_raw := EConst true |}).\n"
          "Definition chk (c : case) : bool :=\n"
          "  match c with\n"
          "  | CU2 a b r => res_eqb (gen_unify a b) r\n"
          "  | CU3 a b c l r => res_eqb (bind (gen_unify a b) (fun x => gen_unify x c)) l\n"
          "                     && res_eqb (bind (gen_unify b c) (fun y => gen_unify a y)) r\n"
          "  | CP forced stmts runs =>\n"
          "      forallb (fun pr => outcome_eqb (run_queue gen_cfg 60 forced\n"
          "                 (map (fun i => nth i stmts dflt) (fst pr))) (snd pr)) runs\n"
          "  end.\n")


def stmt_to_coq(ph, s, flat, raw):
    return ("(%s, {| b_lhs := %s; b_sub := %s; b_loops := [%s]; b_flat := %s; b_raw := %s |})"
            % (coq_str(ph), coq_str(s["lhs"]), "true" if s["sub"] else "false",
               "; ".join(coq_str(i) for i in s["loops"]), e_to_coq(flat), e_to_coq(raw)))


def outcome_to_coq(o):
    if o[0] == "err":
        if o[1] in ERRS:
            return "(OErr %s)" % o[1]
        return None
    items = "; ".join("((%s, %s), %s)" % ("None" if ph == "" else "Some %s" % coq_str(ph), coq_str(x),
                                          kind_to_coq(k)) for ph, x, k in o[1])
    return "(OTable [%s] %s)" % (items, "true" if o[2] else "false")


def prog_to_coq(prog, runs):
    forced = "; ".join("(%s, %s, %s)" % (coq_str(p), coq_str(x), kind_to_coq(k)) for p, x, k in prog["forced"])
    stmts = []
    for ph, s in prog["stmts"]:
        flat, raw = flat_and_raw(s)
        stmts.append(stmt_to_coq(ph, s, flat, raw))
    rs = []
    for perm, o in runs:
        oc = outcome_to_coq(o)
        if oc is None:
            return None
        rs.append("([%s], %s)" % ("; ".join(str(i) for i in perm), oc))
    return "(CP [%s] [%s] [%s])" % (forced, "; ".join(stmts), "; ".join(rs))


def run_term(prog, perm):
    forced = "; ".join("(%s, %s, %s)" % (coq_str(p), coq_str(x), kind_to_coq(k)) for p, x, k in prog["forced"])
    stmts = []
    for i in perm:
        ph, s = prog["stmts"][i]
        flat, raw = flat_and_raw(s)
        stmts.append(stmt_to_coq(ph, s, flat, raw))
    return "run_queue gen_cfg 60 [%s] [%s]" % (forced, "; ".join(stmts))


# ------------------------------------------------------------------ known findings

def match_known(known, cls):
    """An open entry suppresses exactly the failures diagnosed as its class (see diagnose())."""
    for f in known:
        if f.get("class") == cls:
            return f
    return None


def known_text(f, cls):
    return "%s: %s" % (cls, (f.get("what_fails") or "").split(". ")[0])


# ------------------------------------------------------------------ the check

def unify_part(rep, known):
    """Exhaustive over the kind universe.  Returns coq terms, descriptions, counters."""
    terms, descr = [], []
    fails = {}
    pairs = {}
    for a in KINDS:
        for b in KINDS:
            pairs[(a, b)] = real_unify(a, b)
    for (a, b), r in pairs.items():
        terms.append(("CU2", a, b, r))
    # idempotence
    for a in KINDS:
        r = pairs[(a, a)]
        if r[0] == "ok" and r[1] != a:
            fails.setdefault("unify_not_idempotent", {"a": a, "unify(a,a)": r})
        if r[0] != "ok" and a != "Boolean":
            fails.setdefault("unify_not_idempotent", {"a": a, "unify(a,a)": r})
    # commutativity
    for a in KINDS:
        for b in KINDS:
            if not sim(pairs[(a, b)], pairs[(b, a)]):
                fails.setdefault("unify_not_commutative", {"a": a, "b": b, "unify(a,b)": pairs[(a, b)],
                                                           "unify(b,a)": pairs[(b, a)]})
    # associativity
    ntr = 0
    for a in KINDS:
        for b in KINDS:
            for c in KINDS:
                l, r = real_unify2(a, b, c, True), real_unify2(a, b, c, False)
                terms.append(("CU3", a, b, c, l, r))
                ntr += 1
                if not sim(l, r):
                    fails.setdefault("unify_not_associative",
                                     {"a": a, "b": b, "c": c, "unify(unify(a,b),c)": l, "unify(a,unify(b,c))": r})
    for cls, w in sorted(fails.items()):
        f = match_known(known, cls)
        if f:
            rep.known_finding(known_text(f, cls))
        else:
            rep.violation({"what": "dagrt.data.unify is not a partial join: " + cls, "class": cls,
                           "witness": w, "kind": "unify",
                           "replay": "./check C14 --replay <this file>"})
    return terms, len(pairs), ntr, fails


def unify_term_to_coq(t):
    if t[0] == "CU2":
        r = res_to_coq(t[3])
        if r is None:
            return None
        return "(CU2 %s %s %s)" % (kind_to_coq(t[1]), kind_to_coq(t[2]), r)
    l, r = res_to_coq(t[4]), res_to_coq(t[5])
    if l is None or r is None:
        return None
    return "(CU3 %s %s %s %s %s)" % (kind_to_coq(t[1]), kind_to_coq(t[2]), kind_to_coq(t[3]), l, r)


def shape_switches():
    """The defect-shape switches the translator reads off the working tree (for the evidence file)."""
    try:
        from harness.tr import c14 as tr
        tree = tr._parse(common.REPO, "dagrt/data.py")
        ut, arr = tr.unify_flags(tree)
        ins, raises, _ = tr.set_flags(tree)
        return {"unify_usertype_accepts_int": ut, "unify_array_accepts_int": arr,
                "set_insert_marks_changed": ins, "set_reraises": raises,
                "loop_variables_prepass": tr.finder_facts(tree)}
    except Exception as ex:  # noqa: BLE001
        return {"error": "%s: %s" % (type(ex).__name__, ex)}


def main(tier):
    rep = common.Reporter(PID, tier)
    seed = common.seed()
    known = common.known_findings(PID)
    import time
    t0 = time.time()
    timing = {}
    ps = common.proof_stage(rep, PID, gen=["c14"])
    timing["proof_stage_s"] = round(time.time() - t0, 1)

    # ---- part 1: unify on the complete universe
    uterms, n_pairs, n_triples, ufails = unify_part(rep, known)

    # ---- part 2: inference under permutations and hash seeds
    progs, dist = gen_programs(tier, seed)
    rng = random.Random(seed * 31 + 1)
    cap = 120
    jobs = [(p, perms_of(len(p["stmts"]), rng, cap)) for p in progs]
    seeds = SEEDS_QUICK if tier == "quick" else SEEDS_THOROUGH
    t1 = time.time()
    res, werrors = run_all(jobs, seeds)
    timing["impl_runs_s"] = round(time.time() - t1, 1)
    t1 = time.time()
    n_runs = sum(len(pm) for _, pm in jobs) * len(seeds)

    failing = {}          # class -> (prog, detail)
    n_fail_progs = 0
    seed_dependent = None
    if not werrors:
        base = res[seeds[0]]
        for sd in seeds[1:]:
            for j, (a, b) in enumerate(zip(base, res[sd])):
                if a != b and seed_dependent is None:
                    seed_dependent = (j, sd)
        for j, (prog, perms) in enumerate(jobs):
            outs = base[j]
            if all(outcome_sim(outs[0], o) for o in outs):
                continue
            n_fail_progs += 1
            cls = diagnose(prog, outs)
            if cls not in failing or prog_size(prog) < prog_size(failing[cls][0]):
                failing[cls] = (prog, perms, outs)
        # infer_kinds (DAGCode entry point) agrees with the direct call on the presented order
        ik_checked = 0
        for j, (prog, perms) in enumerate(jobs[:400]):
            r = run_infer_kinds(prog)
            if r is not None:
                ik_checked += 1
                if r != base[j][0] and "infer_kinds_differs" not in failing:
                    failing["infer_kinds_differs"] = (prog, [perms[0]], [base[j][0], r])
    else:
        ik_checked = 0

    if seed_dependent is not None:
        j, sd = seed_dependent
        rep.violation({"what": "kind inference result depends on PYTHONHASHSEED", "class": "hash_seed_dependent",
                       "program": jobs[j][0], "seeds": [seeds[0], sd], "kind": "program",
                       "outcomes_seed_a": res[seeds[0]][j], "outcomes_seed_b": res[sd][j]})

    for cls, (prog, perms, outs) in sorted(failing.items()):
        if cls == "infer_kinds_differs":
            rep.violation({"what": "infer_kinds(DAGCode) and SymbolKindFinder disagree", "class": cls,
                           "program": prog, "outcomes": outs, "kind": "program"})
            continue
        small = shrink_prog(prog, cls)
        ok, souts = oracle_inproc(small)
        sperms = perms_of(len(small["stmts"]), random.Random(0), 120)
        distinct = []
        for pm, o in zip(sperms, souts):
            if not any(outcome_sim(o, d[1]) for d in distinct):
                distinct.append((pm, o))
        detail = {"what": "kind inference depends on the order in which statements are presented",
                  "class": cls, "kind": "program", "program": small,
                  "orders_with_different_outcomes": [{"order": pm, "outcome": o} for pm, o in distinct],
                  "replay": "./check C14 --replay <this file>"}
        f = match_known(known, cls)
        if f:
            rep.known_finding(known_text(f, cls))
        else:
            rep.violation(detail)

    timing["oracle_and_shrinking_s"] = round(time.time() - t1, 1)
    t1 = time.time()
    # ---- correspondence with the Coq model
    n_eval = 0
    mism, errors = [], list(werrors)
    unrepresentable = 0
    terms, origin = [], []
    model_ready = all(os.path.exists(os.path.join(common.COQ, d, f)) for d, f in
                      (("model", "Unify.vo"), ("model", "KindInfer.vo"), ("model", "KindInferCfg.vo"),
                       ("gen", "GenC14.vo")))
    n_model_runs = 0
    if model_ready and not werrors:
        for t in uterms:
            ct = unify_term_to_coq(t)
            if ct is None:
                unrepresentable += 1
                terms.append("(CU2 None None (@Err okind TypeError))")   # forces a reported mismatch
            else:
                terms.append(ct)
            origin.append(("unify", t))
        maxp = 6 if tier == "quick" else 24
        for j, (prog, perms) in enumerate(jobs):
            outs = res[seeds[0]][j]
            idx = list(range(len(perms)))
            if len(idx) > maxp:
                idx = [0, len(perms) - 1] + rng.sample(idx[1:-1], maxp - 2)
            runs = [(perms[i], outs[i]) for i in idx]
            ct = prog_to_coq(prog, runs)
            if ct is None:
                unrepresentable += 1
                ct = "(CU2 None None (@Err okind TypeError))"
            terms.append(ct)
            origin.append(("program", prog, runs))
            n_model_runs += len(runs)
        # one wave of coqc processes: loading the libraries dominates the cost of a shard
        shard = max(150, (len(terms) + common.NPROC - 1) // common.NPROC)
        mism, n_eval, cerrs = common.eval_cases(PID, HEADER, terms, "chk", shard=shard)
        errors += cerrs
    elif not model_ready:
        errors.append("model not built")

    timing["coq_correspondence_s"] = round(time.time() - t1, 1)
    tie_broken = bool(mism or errors)
    if (not ps["ok"] or tie_broken) and not rep.violations:
        detail = {"what": "proof obligation or model/implementation correspondence no longer checks; "
                          "no failing input found by the implementation-level oracle",
                  "proof_stage": ps, "coq_errors": errors[:3]}
        if mism:
            o = origin[mism[0]]
            if o[0] == "unify":
                detail["first_disagreeing_case"] = {"unify_case": o[1]}
            else:
                prog, runs = o[1], o[2]
                bad = None
                for pm, out in runs:
                    txt = common.eval_term(HEADER, run_term(prog, pm))
                    bad = {"program": prog, "order": pm, "impl_result": out, "model_result": txt}
                    oc = outcome_to_coq(out)
                    chk = common.eval_term(HEADER, "outcome_eqb (%s) %s" % (run_term(prog, pm), oc)) if oc else "false"
                    if "true" not in chk:
                        break
                detail["first_disagreeing_case"] = bad
            detail["n_disagreements"] = len(mism)
        detail["broken"] = ("theorem file %s" % ps.get("theorem")) if not ps["ok"] else \
            "correspondence dagrt.data.unify/SymbolKindFinder ~ Dagrt.Unify.unify/Dagrt.KindInfer.run_queue"
        rep.violation(detail, no_input=True)
    elif not ps["ok"] or tie_broken:
        rep.coverage["broken_obligation"] = ps if not ps["ok"] else {"disagreements": len(mism),
                                                                    "errors": errors[:2]}

    n_nontrivial = 0
    seen = set()
    if not werrors:
        for j, (prog, perms) in enumerate(jobs):
            outs = res[seeds[0]][j]
            # non-trivial: inference needed more than reading constants: some statement deferred, unified or failed
            key = json.dumps(prog, sort_keys=True)
            if key in seen:
                continue
            seen.add(key)
            if any(o[0] == "err" for o in outs) or any(
                    e_size(s["expr"]) > 1 or s["loops"] for _, s in prog["stmts"]):
                n_nontrivial += 1
    rep.coverage.update(
        evaluations=n_pairs + n_triples + n_runs,
        distinct_nontrivial=n_nontrivial + n_pairs + n_triples,
        rule="evaluations = unify pairs + triples (complete universe of 10 kinds) + SymbolKindFinder runs "
             "(programs x presented orders x hash seeds); non-trivial program = distinct program with a "
             "compound expression, a loop variable or an error outcome; every unify pair/triple is distinct",
        traces_validated_against_impl=n_eval,
        model_runs_compared=n_model_runs + n_pairs + n_triples,
        model_impl_disagreements=len(mism),
        unify_pairs=n_pairs, unify_triples=n_triples,
        programs=len(jobs), finder_runs=n_runs, hash_seeds=list(seeds),
        order_dependent_programs=n_fail_progs,
        order_dependence_classes=sorted(failing),
        infer_kinds_entry_point_checked=ik_checked,
        input_distribution=dist,
        statements_histogram={str(k): sum(1 for p in progs if len(p["stmts"]) == k) for k in range(1, 7)},
        samples=[{"program": jobs[i][0], "orders": len(jobs[i][1]),
                  "outcome_first_order": (res[seeds[0]][i][0] if not werrors else None)}
                 for i in (0, len(jobs) // 2, len(jobs) - 1)],
        exhaustive=False, timing=timing, repo_tree=common.REPO, shape_switches=shape_switches(),
    )
    rep.assumptions = [
        "expressions are constants, variables, sums, products, quotients and comparisons; function calls, "
        "powers, min/max, logical operators and subscript expressions are outside the model",
        "pymbolic.flatten is external: the model receives flatten(stmt.expression) computed by the real pymbolic",
        "statement inputs: no empty Product in a flattened right-hand side, forced kinds are not None; "
        "fuel exhaustion of the model's loops is excluded by hypothesis (see design/C14.md)",
    ]
    return rep.finish("proof")


def replay(path):
    r = json.load(open(path))
    if r.get("kind") == "unify":
        w = r["witness"]
        a, b, c = w.get("a"), w.get("b"), w.get("c")
        if c is not None:
            l, rr = real_unify2(a, b, c, True), real_unify2(a, b, c, False)
            print(json.dumps({"unify(unify(a,b),c)": l, "unify(a,unify(b,c))": rr}))
            return 0 if sim(l, rr) else 1
        if b is not None:
            x, y = real_unify(a, b), real_unify(b, a)
            print(json.dumps({"unify(a,b)": x, "unify(b,a)": y}))
            return 0 if sim(x, y) else 1
        x = real_unify(a, a)
        print(json.dumps({"unify(a,a)": x}))
        return 0 if (x == ("ok", a) or (a == "Boolean" and x[0] != "ok")) else 1
    prog = r.get("program") or (r.get("first_disagreeing_case") or {}).get("program")
    if prog is None:
        print("replay names a broken obligation, no input: %s" % r.get("broken"))
        return 1
    ok, outs = oracle_inproc(prog)
    perms = perms_of(len(prog["stmts"]), random.Random(0), 120)
    print(json.dumps({"program": prog, "orders": [{"order": p, "outcome": o} for p, o in zip(perms, outs)],
                      "order_independent": ok}, indent=1))
    return 0 if ok else 1
