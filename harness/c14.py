"""C14: kind unification is a partial join; kind inference is order-independent.

Tie: (1) real dagrt.data.unify on the complete finite universe (None, Boolean, Integer,
Scalar x2, Array x2, UserType x3): all pairs and all triples, vs coq/model/Unify.v;
(2) real dagrt.data.SymbolKindFinder on generated small programs (Assign and
AssignFunctionCall statements, calls of every built-in and of registered user functions, also
nested in expressions) under all permutations of <= 5 statements and several PYTHONHASHSEEDs
(subprocesses), vs coq/model/KindInfer.v (run_queue evaluated with vm_compute);
(3) real dagrt.data.infer_kinds on DAGCode objects whose phases dict is built in every insertion
order, with the statements of each phase in permuted orders, vs KindInfer.infer_kinds.
Oracle (independent of the model): idempotence / commutativity / associativity decided on
the real results; the outcomes of one program under all orders of statements, all orders of
phases and all seeds must agree (both fail, or equal tables).
"""
import contextlib
import io
import itertools
import json
import os
import random
import subprocess
import sys

from harness import common

PID = "C14"
SEEDS_QUICK = (0, 1, 2, 3)
SEEDS_THOROUGH = (0, 1, 2, 3, 4, 5, 6, 7)

# ------------------------------------------------------------------ kinds

KINDS = ["None", "Boolean", "Integer", "Scalar:1", "Scalar:0", "Array:1", "Array:0",
         "User:a", "User:b", "User:c"]


def kind_to_real(s):
    from dagrt import data
    if s == "None":
        return None
    if s == "Boolean":
        return data.Boolean()
    if s == "Integer":
        return data.Integer()
    tag, arg = s.split(":", 1)
    if tag == "Scalar":
        return data.Scalar(arg == "1")
    if tag == "Array":
        return data.Array(arg == "1")
    if tag == "User":
        return data.UserType(arg)
    raise ValueError(s)


def kind_from_real(k):
    from dagrt import data
    if k is None:
        return "None"
    if type(k) is data.Boolean:
        return "Boolean"
    if type(k) is data.Integer:
        return "Integer"
    if type(k) is data.Scalar:
        return "Scalar:%d" % bool(k.is_real_valued)
    if type(k) is data.Array:
        return "Array:%d" % bool(k.is_real_valued)
    if type(k) is data.UserType:
        return "User:%s" % k.identifier
    raise ValueError("unexpected kind %r" % (k,))


# frequent strings are bound once in the header of the Coq case files (string literals are
# slow to elaborate); everything else is written as a literal
KNOWN_STRINGS = {"p": "s_p", "q": "s_q", "r": "s_r", "a": "s_a", "b": "s_b", "c": "s_c", "d": "s_d",
                 "i": "s_i", "j": "s_j", "zz": "s_zz", "<t>": "s_t", "<dt>": "s_dt", "<state>y": "s_y",
                 "u": "s_u", "v": "s_v", "x": "s_x", "y": "s_yy",
                 "<builtin>norm_1": "f_n1", "<builtin>norm_2": "f_n2", "<builtin>norm_inf": "f_ni",
                 "<builtin>elementwise_abs": "f_abs", "<builtin>dot_product": "f_dot",
                 "<builtin>len": "f_len", "<builtin>isnan": "f_nan", "<builtin>array": "f_arr",
                 "<builtin>matmul": "f_mm", "<builtin>transpose": "f_tr",
                 "<builtin>linear_solve": "f_ls", "<builtin>svd": "f_svd", "<builtin>print": "f_pr",
                 "<func>f": "f_f", "<func>g": "f_g", "<func>h": "f_h", "<func>nope": "f_no", "w": "s_w",
                 "a_cols": "s_ac", "b_cols": "s_bc"}


def coq_lit(s):
    return '"' + s.replace('"', '""') + '"'


def coq_str(s):
    return KNOWN_STRINGS.get(s) or coq_lit(s)


def kind_to_coq(s):
    if s == "None":
        return "(@None kind)"
    if s == "Boolean":
        return "(Some KBool)"
    if s == "Integer":
        return "(Some KInt)"
    tag, arg = s.split(":", 1)
    if tag == "Scalar":
        return "(Some (KScalar %s))" % ("true" if arg == "1" else "false")
    if tag == "Array":
        return "(Some (KArray %s))" % ("true" if arg == "1" else "false")
    return "(Some (KUser %s))" % coq_str(arg)


ERRS = {"ValueError", "AssertionError", "TypeError", "RuntimeError", "UnableToInferKind", "FunctionNotFound"}


def res_to_coq(r):
    if r[0] == "ok":
        return "(Ok %s)" % kind_to_coq(r[1])
    if r[1] in ERRS:
        return "(@Err okind %s)" % r[1]
    return None  # an exception class the model does not have: never equal


def real_unify(a, b):
    from dagrt.data import unify
    try:
        return ("ok", kind_from_real(unify(kind_to_real(a), kind_to_real(b))))
    except Exception as ex:  # noqa: BLE001 - the class is the observable
        return ("exc", type(ex).__name__)


def sim(x, y):
    """both fail, or both succeed with equal results"""
    if x[0] == "ok" and y[0] == "ok":
        return x[1] == y[1]
    return x[0] != "ok" and y[0] != "ok"


def real_unify2(a, b, c, left):
    if left:
        r = real_unify(a, b)
        return real_unify(r[1], c) if r[0] == "ok" else r
    r = real_unify(b, c)
    return real_unify(a, r[1]) if r[0] == "ok" else r


# ------------------------------------------------------------------ the function registry of the runs

# built-ins whose result (or whether there is one) depends on the kind of an argument
SENSITIVE = ("<builtin>elementwise_abs", "<builtin>matmul", "<builtin>transpose", "<builtin>linear_solve",
             "<builtin>svd")
# index of the matrix arguments after resolve_args
MATRIX = {"<builtin>matmul": (0, 1), "<builtin>transpose": (0,), "<builtin>linear_solve": (0, 1),
          "<builtin>svd": (0,)}

# the model's description of what test_registry() registers on top of the base registry
TEST_REG_COQ = ("[(f_f, rhs_sig s_u [s_u]); (f_h, rhs_sig s_v [s_w]); "
                "(f_g, fixed_sig [s_x] 2 [KScalar false; KArray true])]")


def test_registry():
    """base_function_registry + two ODE right-hand sides <func>f(t, u) -> UserType(u) and
    <func>h(t, w) -> UserType(v) + a function <func>g(x) with two results of fixed kinds (complex
    scalar, real array)."""
    from dagrt.data import Array, Scalar
    from dagrt.function_registry import base_function_registry, register_function, register_ode_rhs
    reg = register_ode_rhs(base_function_registry, "u", identifier="<func>f")
    reg = register_ode_rhs(reg, "v", identifier="<func>h", input_type_ids=("u",), input_names=("w",))
    reg = register_function(reg, "<func>g", ("x",), result_names=("r1", "r2"),
                            result_kinds=(Scalar(False), Array(True)))
    return reg


class _ArraysOnly:
    """Emulation of fixes/C14_matrix_builtins_need_arrays.patch for the diagnosis of a failing
    program: the function is unable to infer unless its matrix arguments are arrays."""

    def __init__(self, f, idx):
        self._f = f
        self._idx = idx

    def __getattr__(self, n):
        return getattr(self._f, n)

    def get_result_kinds(self, arg_kinds, check):
        from dagrt.data import Array, UnableToInferKind
        args = self._f.resolve_args(arg_kinds)
        if not all(isinstance(args[i], Array) for i in self._idx):
            raise UnableToInferKind("needs array arguments")
        return self._f.get_result_kinds(arg_kinds, check)


class _RegProxy:
    def __init__(self, reg):
        self._reg = reg

    def __getitem__(self, fid):
        f = self._reg[fid]
        return _ArraysOnly(f, MATRIX[fid]) if fid in MATRIX else f

    def __contains__(self, fid):
        return fid in self._reg


# ------------------------------------------------------------------ expressions / programs

def e_to_real(e):
    from pymbolic import primitives as p
    t = e[0]
    if t == "num":
        return {"0": 0, "1": 1, "2": 2, "3": 3, "1j": 1j, "2.5": 2.5}[e[1]]
    if t == "var":
        return p.Variable(e[1])
    if t == "sum":
        return p.Sum(tuple(e_to_real(c) for c in e[1]))
    if t == "prod":
        return p.Product(tuple(e_to_real(c) for c in e[1]))
    if t == "quot":
        return p.Quotient(e_to_real(e[1]), e_to_real(e[2]))
    if t == "cmp":
        return p.Comparison(e_to_real(e[1]), ">", e_to_real(e[2]))
    if t == "call":
        args = tuple(e_to_real(c) for c in e[2])
        if e[3]:
            return p.CallWithKwargs(p.Variable(e[1]), args, {k: e_to_real(v) for k, v in e[3]})
        return p.Call(p.Variable(e[1]), args)
    raise ValueError(e)


def e_from_real(x):
    from pymbolic import primitives as p
    if isinstance(x, complex):
        return ["num", "1j"]
    if isinstance(x, (int, float)) and not isinstance(x, bool):
        return ["num", {0: "0", 1: "1"}.get(x, "2")]
    if isinstance(x, p.Variable):
        return ["var", x.name]
    if isinstance(x, p.Sum):
        return ["sum", [e_from_real(c) for c in x.children]]
    if isinstance(x, p.Product):
        return ["prod", [e_from_real(c) for c in x.children]]
    if isinstance(x, p.Quotient):
        return ["quot", e_from_real(x.numerator), e_from_real(x.denominator)]
    if isinstance(x, p.Comparison):
        return ["cmp", e_from_real(x.left), e_from_real(x.right)]
    if isinstance(x, p.CallWithKwargs):
        return ["call", x.function.name, [e_from_real(c) for c in x.parameters],
                [[k, e_from_real(v)] for k, v in x.kw_parameters.items()]]
    if isinstance(x, p.Call):
        return ["call", x.function.name, [e_from_real(c) for c in x.parameters], []]
    raise ValueError("unexpected expression %r" % (x,))


def e_to_coq(e):
    t = e[0]
    if t == "num":
        return "(EConst %s)" % ("false" if e[1] == "1j" else "true")
    if t == "var":
        return "(EVar %s)" % coq_str(e[1])
    if t == "sum":
        return "(ESum [%s])" % "; ".join(e_to_coq(c) for c in e[1])
    if t == "prod":
        return "(EProd [%s])" % "; ".join(e_to_coq(c) for c in e[1])
    if t == "quot":
        return "(EQuot %s %s)" % (e_to_coq(e[1]), e_to_coq(e[2]))
    if t == "cmp":
        return "(ECmp %s %s)" % (e_to_coq(e[1]), e_to_coq(e[2]))
    if t == "call":
        return "(ECall %s [%s] [%s])" % (coq_str(e[1]),
                                         "; ".join(e_to_coq(c) for c in e[2] + [v for _, v in e[3]]),
                                         "; ".join(coq_str(k) for k, _ in e[3]))
    raise ValueError(e)


def e_size(e):
    t = e[0]
    if t in ("num", "var"):
        return 1
    if t in ("sum", "prod"):
        return 1 + sum(e_size(c) for c in e[1])
    if t == "call":
        return 2 + sum(e_size(c) for c in e[2]) + sum(e_size(v) for _, v in e[3])
    return 1 + e_size(e[1]) + e_size(e[2])


def e_calls(e):
    """function identifiers called in e"""
    t = e[0]
    if t in ("num", "var"):
        return set()
    if t in ("sum", "prod"):
        return set().union(*[e_calls(c) for c in e[1]]) if e[1] else set()
    if t == "call":
        out = {e[1]}
        for c in e[2] + [v for _, v in e[3]]:
            out |= e_calls(c)
        return out
    return e_calls(e[1]) | e_calls(e[2])


def is_call(s):
    return "call" in s


def s_calls(s):
    if is_call(s):
        out = {s["call"]}
        for c in s["args"] + [v for _, v in s["kw"]]:
            out |= e_calls(c)
        return out
    return e_calls(s["expr"])


def prog_calls(prog):
    out = set()
    for _, s in prog["stmts"]:
        out |= s_calls(s)
    return out


def stmt_to_real(i, s):
    from dagrt.language import Assign, AssignFunctionCall
    if is_call(s):
        return AssignFunctionCall(id="s%d" % i, assignees=tuple(s["lhss"]), function_id=s["call"],
                                  parameters=tuple(e_to_real(a) for a in s["args"]),
                                  kw_parameters={k: e_to_real(v) for k, v in s["kw"]})
    return Assign(id="s%d" % i, assignee=s["lhs"],
                  assignee_subscript=(0,) if s["sub"] else (),
                  expression=e_to_real(s["expr"]),
                  loops=[(ident, 0, 3) for ident in s["loops"]])


def flat_and_raw(s):
    """(flatten(stmt.expression), stmt.expression) of the real statement object."""
    from pymbolic import flatten
    st = stmt_to_real(0, s)
    return e_from_real(flatten(st.expression)), e_from_real(st.expression)


def group(queue):
    """(phase, stmt) list -> names, phases as SymbolKindFinder.__call__ takes them
    (consecutive items of one phase form one phase; names may repeat)."""
    names, phases = [], []
    for ph, st in queue:
        if names and names[-1] == ph:
            phases[-1].append(st)
        else:
            names.append(ph)
            phases.append([st])
    return names, phases


def table_items(t):
    items = [["", x, kind_from_real(k)] for x, k in t.global_table.items()]
    for ph, tbl in t.per_phase_table.items():
        items += [[ph, x, kind_from_real(k)] for x, k in tbl.items()]
    return sorted(items)


def leftover_calls(text):
    """sensitive built-ins named by the statements printed after 'Left-over statements'"""
    if "Left-over statements in kind inference:" not in text:
        return None
    tail = text.split("Left-over statements in kind inference:")[-1]
    return sorted(f for f in SENSITIVE if f in tail)


def _finish(call):
    """Runs the finder, returns the canonical outcome:
    ["table", sorted items, printed?] or ["err", class, left-over info]."""
    buf = io.StringIO()
    with contextlib.redirect_stdout(buf):
        try:
            t = call()
        except Exception as ex:  # noqa: BLE001
            return ["err", type(ex).__name__, leftover_calls(buf.getvalue())]
    try:
        items = table_items(t)
    except Exception as ex:  # noqa: BLE001
        return ["err", "Unrepresentable:" + type(ex).__name__, None]
    return ["table", items, "trying to derive" in buf.getvalue()]


def _with_restart(reg, names, phases, forced):
    """Emulation of fixes/C14_worklist_restart.patch for the diagnosis of a failing program: when
    the finder ends at its no-progress exit although its table changed during the pass, it is run
    again with every entry of that table as a forced kind (= the next pass over all statements)."""
    import dagrt.data as d
    captured = []
    orig = d.SymbolKindTable.__init__

    def init(self):
        orig(self)
        captured.append(self)

    d.SymbolKindTable.__init__ = init
    try:
        for _ in range(40):
            del captured[:]
            buf = io.StringIO()
            try:
                with contextlib.redirect_stdout(buf):
                    return d.SymbolKindFinder(reg)(names, phases, forced_kinds=forced)
            except (RuntimeError, AssertionError):
                sys.stdout.write(buf.getvalue())
                t = captured[-1] if captured else None
                if t is None or not t.is_changed() or "Left-over statements" not in buf.getvalue():
                    raise
                forced = [(names[0], x, k) for x, k in t.global_table.items()]
                for ph, tbl in t.per_phase_table.items():
                    forced += [(ph, x, k) for x, k in tbl.items()]
        raise RuntimeError("restart emulation did not converge")
    finally:
        d.SymbolKindTable.__init__ = orig


def run_real(prog, perm, emulate=()):
    """One run of the real SymbolKindFinder.  prog = {"forced": [[phase, name, kind]],
    "stmts": [[phase, stmt]]}; perm = order in which the statements are presented."""
    from dagrt.data import SymbolKindFinder
    queue = [(prog["stmts"][i][0], stmt_to_real(i, prog["stmts"][i][1])) for i in perm]
    names, phases = group(queue)
    forced = [(p, x, kind_to_real(k)) for p, x, k in prog["forced"]]
    reg = test_registry()
    if "arrays" in emulate:
        reg = _RegProxy(reg)
    if "restart" in emulate:
        return _finish(lambda: _with_restart(reg, names, phases, forced))
    return _finish(lambda: SymbolKindFinder(reg)(names, phases, forced_kinds=forced))


def phases_of(prog):
    out = []
    for ph, _ in prog["stmts"]:
        if ph not in out:
            out.append(ph)
    return out


def run_glue(prog, order, perm):
    """dagrt.data.infer_kinds on the DAGCode whose phases dict is filled in the order `order`, the
    statements of each phase in the order in which `perm` lists them (no forced kinds).  The
    default registry (function_registry=None) is used when the program calls no user function."""
    from dagrt.data import infer_kinds
    from dagrt.language import DAGCode, ExecutionPhase
    phases = {}
    for name in order:
        phases[name] = ExecutionPhase(name, name, [stmt_to_real(i, prog["stmts"][i][1]) for i in perm
                                                   if prog["stmts"][i][0] == name])
    dag = DAGCode(phases, order[0])
    reg = test_registry() if any(f.startswith("<func>") for f in prog_calls(prog)) else None
    return _finish(lambda: infer_kinds(dag, function_registry=reg))


def glue_presentations(prog, perms, cap_orders=6, cap_perms=4):
    if prog["forced"] or not prog["stmts"]:
        return []
    orders = [list(o) for o in itertools.permutations(phases_of(prog))][:cap_orders]
    if len(orders) == 1:
        cap_perms = 2      # one phase: infer_kinds only forwards the statement list
    ps = perms[:cap_perms]
    if len(perms) > cap_perms:
        ps = perms[:cap_perms - 1] + [perms[-1]]
    return [[o, pm] for o in orders for pm in ps]


def outcome_sim(a, b):
    if a[0] == "table" and b[0] == "table":
        return a[1] == b[1]
    return a[0] == "err" and b[0] == "err"


def perms_of(n, rng, cap):
    if n <= 5:
        ps = [list(p) for p in itertools.permutations(range(n))]
        if len(ps) <= cap:
            return ps
    else:
        ps = None
    out = [list(range(n)), list(reversed(range(n)))]
    seen = {tuple(x) for x in out}
    while len(out) < cap:
        p = list(range(n))
        rng.shuffle(p)
        if tuple(p) not in seen:
            seen.add(tuple(p))
            out.append(p)
    return out


# ------------------------------------------------------------------ worker (one hash seed)

def worker():
    jobs = json.load(sys.stdin)
    out = []
    for prog, perms, glue in jobs:
        out.append([[run_real(prog, p) for p in perms], [run_glue(prog, o, p) for o, p in glue]])
    json.dump(out, sys.stdout)


def run_all(jobs, seeds):
    """jobs: list of (prog, perms, glue presentations).  Returns {seed: [[direct outcomes, glue
    outcomes] per job]}.  Every seed runs in its own interpreters (PYTHONHASHSEED=n), sharded."""
    nshard = max(1, common.NPROC // len(seeds))
    size = (len(jobs) + nshard - 1) // nshard if jobs else 1
    procs = []
    for sd in seeds:
        for k in range(0, len(jobs), size):
            env = dict(os.environ)
            env["PYTHONHASHSEED"] = str(sd)
            p = subprocess.Popen([sys.executable, "-c", "from harness import c14; c14.worker()"],
                                 stdin=subprocess.PIPE, stdout=subprocess.PIPE, stderr=subprocess.PIPE,
                                 text=True, env=env, cwd=common.VERIF)
            procs.append((sd, k, p, json.dumps(jobs[k:k + size])))
    res = {sd: [None] * len(jobs) for sd in seeds}
    errors = []
    # all workers run concurrently; one thread per worker feeds its stdin and collects its stdout
    import threading

    def feed(p, data, slot):
        o, e = p.communicate(data)
        slot.append((o, e, p.returncode))

    threads = []
    for sd, k, p, data in procs:
        slot = []
        th = threading.Thread(target=feed, args=(p, data, slot))
        th.start()
        threads.append((sd, k, th, slot))
    for sd, k, th, slot in threads:
        th.join()
        o, e, rc = slot[0]
        try:
            o = o[o.index("["):]
            part = json.loads(o)
        except Exception:  # noqa: BLE001
            errors.append("worker seed %d shard %d failed: rc=%s %s" % (sd, k, rc, e[-500:]))
            continue
        res[sd][k:k + len(part)] = part
    return res, errors


# ------------------------------------------------------------------ program generation

def V(x):
    return ["var", x]


def N(x):
    return ["num", x]


def S(*c):
    return ["sum", list(c)]


def P(*c):
    return ["prod", list(c)]


def F(fid, *args, **kw):
    return ["call", fid, list(args), [[k, v] for k, v in kw.items()]]


A, B, Y, T, I, ZZ = V("a"), V("b"), V("<state>y"), V("<t>"), V("i"), V("zz")

EXPRS_CORE = [N("1"), N("1j"), A, B, S(A, N("1")), S(N("1"), B), P(A, B), ["cmp", T, N("0")],
              P(I, N("2")), S(A, B)]
EXPRS_MORE = [T, I, Y, S(A, N("1j")), S(N("0"), I), P(I, N("1")), S(["cmp", A, B], N("1")),
              ["quot", A, B], S(Y, A), S(S(A, B), I), P(A, N("2")), S(T, N("1")), P(ZZ, N("2")),
              S(I, B), P(P(A, B), Y), S(A, A), ["cmp", A, N("0")], S(B, N("2.5"))]


def mk(lhs, expr, loops=(), sub=False):
    return {"lhs": lhs, "sub": bool(sub), "loops": list(loops), "expr": expr}


def mkc(lhss, fid, *args, **kw):
    return {"call": fid, "lhss": list(lhss), "args": list(args), "kw": [[k, v] for k, v in kw.items()]}


def alphabet(exprs, lhss, shapes):
    out = []
    for lhs in lhss:
        for e in exprs:
            for loops, sub in shapes:
                out.append(mk(lhs, e, loops, sub))
    return out


FORCED_POOL = [["p", "i", "Integer"], ["p", "a", "User:u"], ["p", "b", "Array:1"],
               ["p", "<state>y", "User:u"], ["p", "b", "Integer"], ["q", "i", "Integer"],
               ["p", "a", "Scalar:0"], ["p", "<state>y", "Array:0"], ["p", "a", "Boolean"],
               ["p", "b", "User:v"]]

# every function of the registry, with `a` as the argument whose kind matters: (expression, number
# of results) -- used as call statement (b... <- f(...)) and nested in an expression
ONE = N("1")


def uses_of(x):
    return [
        (F("<builtin>norm_1", x), 1), (F("<builtin>norm_2", x), 1), (F("<builtin>norm_inf", x=x), 1),
        (F("<builtin>elementwise_abs", x), 1), (F("<builtin>dot_product", x, x), 1),
        (F("<builtin>dot_product", x, y=x), 1), (F("<builtin>len", x), 1), (F("<builtin>isnan", x), 1),
        (F("<builtin>array", x), 1), (F("<builtin>matmul", x, x, ONE, ONE), 1),
        (F("<builtin>matmul", x, b_cols=ONE, a_cols=ONE, b=x), 1),
        (F("<builtin>transpose", x, ONE), 1), (F("<builtin>linear_solve", x, x, ONE, ONE), 1),
        (F("<builtin>svd", x, ONE), 3), (F("<builtin>print", x), 0),
        (F("<func>f", T, x), 1), (F("<func>g", x), 2), (F("<func>nope", x), 1),
        (F("<builtin>norm_2", x, x), 1),       # too many arguments
    ]


def definers(x):
    """statements that give x a kind: array, real / complex scalar, integer, user type, flag"""
    return [mkc([x], "<builtin>array", N("3")), mk(x, N("1")), mk(x, N("1j")), mk(x, I, ("i",)),
            mk(x, F("<func>f", T, Y)), mk(x, ["cmp", T, N("0")]),
            mk(x, S(I, V("zz")), ("i",)),      # Integer until zz is known
            mk(x, P(V(x), N("1j"))),           # raises x to complex once x is known
            mk(x, F("<func>h", T, w=Y))]       # a second user type


def call_programs(tier):
    """exhaustive small scope around one call: the argument `a` defined by 1 or 2 statements, the call
    as call statement or nested in a sum / a product, an optional reader of the result; all in
    phase p.  (Every order of the statements is presented: arguments defined before and after.)"""
    progs = []
    defs = definers("a")
    zz = mk("zz", N("2.5"))
    for fe, nres in uses_of(A):
        fid = fe[1]
        users = [mkc(["b", "c", "d"][:nres], fid, *fe[2], **dict(fe[3])),
                 mk("b", S(fe, N("1"))), mk("b", P(N("2"), fe))]
        for ui, u in enumerate(users):
            for d in defs:
                progs.append({"forced": [], "stmts": [["p", d], ["p", u]]})
            if tier == "quick" and ui == 2:
                continue      # quick: two definitions only with the call statement and the sum
            pairs = list(itertools.combinations(range(len(defs)), 2))
            for i1, i2 in pairs:
                st = [["p", defs[i1]], ["p", defs[i2]], ["p", u]]
                if any("zz" in json.dumps(x[1]) for x in st[:2]):
                    st.append(["p", zz])
                progs.append({"forced": [], "stmts": st})
    # readers of the result: the kind has to propagate
    reader = mk("<state>y", P(B, V("<dt>")))
    for fe, nres in uses_of(A):
        if nres != 1:
            continue
        for d in defs[:5]:
            progs.append({"forced": [], "stmts": [["p", d], ["p", mkc(["b"], fe[1], *fe[2], **dict(fe[3]))],
                                                  ["p", reader]]})
            progs.append({"forced": [], "stmts": [["p", d], ["p", mk("b", S(fe, N("1")))], ["p", reader],
                                                  ["p", mk("c", F("<builtin>norm_2", B))]]})
    if tier == "quick":
        return progs
    # thorough: the same with the argument nested one level deeper
    for fe, nres in uses_of(S(A, N("1"))):
        for d in defs:
            progs.append({"forced": [], "stmts": [["p", d], ["p", mk("b", S(fe, N("1")))]]})
    return progs


def glue_programs(tier):
    """programs with two or three phases in which the same local name gets different kinds in
    different phases; presented to infer_kinds in every dict order"""
    loc = [mk("a", N("1j")), mk("a", ["cmp", T, N("0")]), mkc(["a"], "<builtin>array", N("3")),
           mk("a", F("<func>f", T, Y)), mk("a", I, ("i",)), mk("b", S(A, N("1"))),
           mk("b", F("<builtin>dot_product", A, A)), mkc(["b"], "<builtin>elementwise_abs", A),
           mk("<state>y", P(A, N("2"))), mk("a", N("1"))]
    progs = []
    for s1 in loc:
        for s2 in loc:
            if s1 is s2:
                continue
            progs.append({"forced": [], "stmts": [["q", s1], ["p", s2]]})
    few = loc[:5] + loc[6:8]
    for s1, s2, s3 in itertools.permutations(few, 3):
        if s1["lhs" if "lhs" in s1 else "lhss"] == s3["lhs" if "lhs" in s3 else "lhss"]:
            continue
        progs.append({"forced": [], "stmts": [["q", s1], ["p", s2], ["q", s3]]})
    for s1, s2, s3 in itertools.combinations(loc[:6], 3):
        progs.append({"forced": [], "stmts": [["r", s1], ["q", s2], ["p", s3]]})
    if tier == "quick":
        return progs[:90] + progs[90::3]
    return progs


def corpus():
    out = []
    d = os.path.join(common.VERIF, "corpus", PID)
    if os.path.isdir(d):
        for f in sorted(os.listdir(d)):
            if f.endswith(".json"):
                j = json.load(open(os.path.join(d, f)))
                if "program" in j:
                    out.append(j["program"])
    return out


def gen_programs(tier, seed):
    rng = random.Random(seed * 7919 + 14)
    progs = list(corpus())
    n_corpus = len(progs)
    # exhaustive: all 2-statement programs over a statement alphabet (one phase, no forced kinds)
    shapes2 = [((), False), (("i",), False), (("i",), True)]
    alpha2 = alphabet(EXPRS_CORE if tier == "quick" else EXPRS_CORE + EXPRS_MORE[:8],
                      ["a", "b"], shapes2)
    for s1 in alpha2:
        for s2 in alpha2:
            progs.append({"forced": [], "stmts": [["p", s1], ["p", s2]]})
    n2 = len(progs) - n_corpus
    # exhaustive: all 3-statement programs over a smaller alphabet
    alpha3 = [mk("a", N("1j")), mk("a", ["cmp", T, N("0")]), mk("b", S(A, N("1"))), mk("b", P(A, I)),
              mk("a", P(I, N("2"))), mk("b", N("1"), ("i",), True), mk("a", S(B, N("1"))),
              mk("<state>y", S(A, B)), mk("b", S(Y, N("1")), ("i",), False)]
    if tier != "quick":
        alpha3 += [mk("a", B), mk("b", P(ZZ, N("2"))), mk("a", S(N("0"), I), ("i",), False)]
    for tr in itertools.product(alpha3, repeat=3):
        progs.append({"forced": [], "stmts": [["p", s] for s in tr]})
    n3 = len(progs) - n_corpus - n2
    # exhaustive: all pairs over the same alphabet in a second phase q, behind one statement of phase p
    for pr in itertools.product(alpha3, repeat=2):
        # (the leading statement is a subscripted assignment: it never counts as progress)
        progs.append({"forced": [], "stmts": [["p", mk("c", N("1"), (), True)]] + [["q", s] for s in pr]})
    n3q = len(progs) - n_corpus - n2 - n3
    # function calls: exhaustive small scope around one call
    cp = call_programs(tier)
    progs += cp
    # several phases, same local names
    gp = glue_programs(tier)
    progs += gp
    # random structured: 2-5 statements, two phases, forced kinds, calls
    big = alphabet(EXPRS_CORE + EXPRS_MORE, ["a", "b", "<state>y", "c"],
                   [((), False), ((), False), (("i",), False), (("i",), True), (("i", "j"), False)])
    callpool = []
    for x in (A, B, Y):
        for fe, nres in uses_of(x):
            for lhs in ("a", "b", "c"):
                callpool.append(mk(lhs, S(fe, N("1"))))
                callpool.append(mk(lhs, fe))
            callpool.append(mkc(["b", "c", "a"][:nres], fe[1], *fe[2], **dict(fe[3])))
    callpool += definers("a") + definers("b")
    nrand = 350 if tier == "quick" else 4000
    for k in range(nrand):
        n = rng.choice([2, 3, 3, 4, 4, 5])
        two = rng.random() < 0.3
        withcalls = k % 2 == 1
        stmts = [[("q" if two and rng.random() < 0.4 else "p"),
                  rng.choice(callpool) if withcalls and rng.random() < 0.6 else rng.choice(big)]
                 for _ in range(n)]
        forced = rng.sample(FORCED_POOL, rng.choice([0, 0, 1, 1, 2, 3]))
        progs.append({"forced": forced, "stmts": stmts})
    dist = {"corpus": n_corpus, "exhaustive_2_statements": n2, "exhaustive_3_statements": n3,
            "exhaustive_second_phase_pairs": n3q,
            "function_calls_small_scope": len(cp), "several_phases_same_locals": len(gp),
            "random": nrand,
            "exhaustive_scope": "all ordered pairs over %d statements (2 assignees x %d expressions x "
                                "{plain, loop i, subscripted+loop i}); all triples over %d statements"
                                % (len(alpha2), len(alpha2) // 6, len(alpha3)),
            "function_call_scope": "%d uses (every built-in and registered function, positional and keyword "
                                   "arguments, wrong arity, unknown function) x {call statement, nested in a "
                                   "sum, nested in a product} x 1-2 of %d definitions of the argument (array, "
                                   "real/complex scalar, integer, user type, flag, late integer->scalar, "
                                   "late real->complex), with and without readers of the result"
                                   % (len(uses_of(A)), len(definers("a"))),
            "phase_scope": "2-3 phases p/q/r listed in non-sorted order, the local `a` (and `b`) defined "
                           "with different kinds in different phases, a state variable written in one phase",
            "random_scope": "2-5 statements from %d assignments + %d call-related statements (4 assignees incl. "
                            "a state variable, %d expressions, 0-2 loop variables, subscripts), 1-2 phases, "
                            "0-3 forced kinds from %d"
                            % (len(big), len(callpool), len(EXPRS_CORE + EXPRS_MORE), len(FORCED_POOL))}
    return progs, dist


# ------------------------------------------------------------------ oracle on programs

def oracle_inproc(prog, cap=120, emulate=()):
    """In-process (one hash seed) decision of order independence (statements and phases), used for
    shrinking / diagnosis / replay.  Returns (ok, direct outcomes, glue outcomes)."""
    n = len(prog["stmts"])
    perms = perms_of(n, random.Random(0), cap)
    outs = [run_real(prog, p, emulate) for p in perms]
    gouts = [] if emulate else [run_glue(prog, o, p) for o, p in glue_presentations(prog, perms)]
    ok = all(outcome_sim(outs[0], o) for o in outs + gouts)
    return ok, outs, gouts


def unforced_loops(prog):
    forced = {(p, x) for p, x, k in prog["forced"] if k == "Integer"}
    return sorted({(ph, i) for ph, s in prog["stmts"] if not is_call(s) for i in s["loops"]} - forced)


def diagnose(prog, outs, gouts=()):
    """Narrow classes of order dependence (independent of the model)."""
    if all(outcome_sim(outs[0], o) for o in outs):
        # the finder itself is order independent on this program: the DAGCode front end is not
        return "infer_kinds_depends_on_presentation"
    if any(o[0] == "table" and o[2] for o in outs):
        return "conflicting_kinds_first_wins"
    ul = unforced_loops(prog)
    if ul:
        p2 = {"forced": prog["forced"] + [[ph, i, "Integer"] for ph, i in ul], "stmts": prog["stmts"]}
        ok, outs2, _ = oracle_inproc(p2)
        if ok and not any(o[0] == "table" and o[2] for o in outs2):
            return "unforced_loop_variable"
    # the two defects whose repair is pending: the failure disappears when the repair is emulated
    errs = [o for o in outs if o[0] == "err"]
    calls = prog_calls(prog)
    stuck = bool(errs) and all(o[1] in ("RuntimeError", "AssertionError") and o[2] for o in errs) \
        and any(o[0] == "table" for o in outs)
    matrix = any(f in MATRIX for f in calls)
    tries = []
    if stuck:
        tries.append(("restart",))
    if matrix:
        tries.append(("arrays",))
    if matrix and any(f in SENSITIVE for f in calls):
        tries.append(("restart", "arrays"))
    for em in tries:
        if oracle_inproc(prog, emulate=em)[0]:
            return "+".join({"restart": "gives_up_although_table_changed",
                             "arrays": "matrix_builtin_accepts_scalar"}[x] for x in em)
    if all(o[0] == "table" for o in outs):
        return "tables_differ_without_unification_failure"
    return "error_in_some_orders_only"


def s_size(s):
    if is_call(s):
        return 1 + len(s["lhss"]) + sum(e_size(c) for c in s["args"]) + sum(e_size(v) for _, v in s["kw"])
    return e_size(s["expr"]) + len(s["loops"]) + s["sub"]


def prog_size(prog):
    return (len(prog["stmts"]), len(prog["forced"]), sum(s_size(s) for _, s in prog["stmts"]))


def sub_exprs(e):
    subs = []
    if e[0] in ("sum", "prod"):
        subs += e[1]
        if len(e[1]) > 2:
            subs += [[e[0], e[1][:j] + e[1][j + 1:]] for j in range(len(e[1]))]
    elif e[0] in ("quot", "cmp"):
        subs += [e[1], e[2]]
    return subs


def shrink_prog(prog, cls):
    def fails(p):
        ok, outs, gouts = oracle_inproc(p)
        return (not ok) and diagnose(p, outs, gouts) == cls

    changed = True
    while changed:
        changed = False
        cands = []
        for i in range(len(prog["stmts"])):
            cands.append({"forced": prog["forced"], "stmts": prog["stmts"][:i] + prog["stmts"][i + 1:]})
        for i in range(len(prog["forced"])):
            cands.append({"forced": prog["forced"][:i] + prog["forced"][i + 1:], "stmts": prog["stmts"]})
        for i, (ph, s) in enumerate(prog["stmts"]):
            if is_call(s):
                continue
            for e2 in sub_exprs(s["expr"]):
                cands.append({"forced": prog["forced"], "stmts": prog["stmts"][:i] + [
                    [ph, dict(s, expr=e2)]] + prog["stmts"][i + 1:]})
            if s["loops"]:
                cands.append({"forced": prog["forced"], "stmts": prog["stmts"][:i] + [
                    [ph, dict(s, loops=s["loops"][1:])]] + prog["stmts"][i + 1:]})
            if s["sub"]:
                cands.append({"forced": prog["forced"], "stmts": prog["stmts"][:i] + [
                    [ph, dict(s, sub=False)]] + prog["stmts"][i + 1:]})
        for c in cands:
            if len(c["stmts"]) >= 2 and prog_size(c) < prog_size(prog) and fails(c):
                prog = c
                changed = True
                break
    return prog


# ------------------------------------------------------------------ Coq terms

HEADER = ("From Coq Require Import List String Bool Arith.\nImport ListNotations.\n"
          "From Dagrt Require Import GenC14 Unify KindInfer KindInferCfg.\nOpen Scope string_scope.\n"
          + "".join("Definition %s : string := %s.\n" % (v, coq_lit(k)) for k, v in sorted(KNOWN_STRINGS.items()))
          + "Definition tcfg : cfg := gen_cfg_with %s.\n" % TEST_REG_COQ +
          "Inductive case :=\n"
          "| CU2 (a b : okind) (r : res okind)\n"
          "| CU3 (a b c : okind) (l r : res okind)\n"
          "| CP (forced : list (string * string * okind)) (stmts : list qitem)\n"
          "     (runs : list (list nat * outcome)) (gruns : list (list string * list nat * outcome)).\n"
          "Definition dflt : qitem := (\"\", {| b_lhs := []; b_sub := true; b_loops := []; "
          "b_rhs := RExpr (EConst true) (EConst true) |}).\n"
          "(* the phases dict filled in the order `order`, each phase with its statements in list order *)\n"
          "Definition dag_of (order : list string) (items : list qitem) : list (string * list bstmt) :=\n"
          "  map (fun ph => (ph, map snd (filter (fun it => String.eqb (fst it) ph) items))) order.\n"
          "Definition chk (c : case) : bool :=\n"
          "  match c with\n"
          "  | CU2 a b r => res_eqb (gen_unify a b) r\n"
          "  | CU3 a b c l r => res_eqb (bind (gen_unify a b) (fun x => gen_unify x c)) l\n"
          "                     && res_eqb (bind (gen_unify b c) (fun y => gen_unify a y)) r\n"
          "  | CP forced stmts runs gruns =>\n"
          "      forallb (fun pr => outcome_eqb (run_queue tcfg 60 forced\n"
          "                 (map (fun i => nth i stmts dflt) (fst pr))) (snd pr)) runs\n"
          "      && forallb (fun pr => outcome_eqb (infer_kinds tcfg 60 (dag_of (fst (fst pr))\n"
          "                 (map (fun i => nth i stmts dflt) (snd (fst pr))))) (snd pr)) gruns\n"
          "  end.\n")


def stmt_to_coq(ph, s):
    if is_call(s):
        rhs = "RCall %s [%s] [%s]" % (coq_str(s["call"]),
                                      "; ".join(e_to_coq(c) for c in s["args"] + [v for _, v in s["kw"]]),
                                      "; ".join(coq_str(k) for k, _ in s["kw"]))
        return ("(%s, {| b_lhs := [%s]; b_sub := false; b_loops := []; b_rhs := %s |})"
                % (coq_str(ph), "; ".join(coq_str(x) for x in s["lhss"]), rhs))
    flat, raw = flat_and_raw(s)
    return ("(%s, {| b_lhs := [%s]; b_sub := %s; b_loops := [%s]; b_rhs := RExpr %s %s |})"
            % (coq_str(ph), coq_str(s["lhs"]), "true" if s["sub"] else "false",
               "; ".join(coq_str(i) for i in s["loops"]), e_to_coq(flat), e_to_coq(raw)))


def outcome_to_coq(o):
    if o[0] == "err":
        if o[1] in ERRS:
            return "(OErr %s)" % o[1]
        return None
    items = "; ".join("((%s, %s), %s)" % ("None" if ph == "" else "Some %s" % coq_str(ph), coq_str(x),
                                          kind_to_coq(k)) for ph, x, k in o[1])
    return "(OTable [%s] %s)" % (items, "true" if o[2] else "false")


def forced_to_coq(prog):
    return "; ".join("(%s, %s, %s)" % (coq_str(p), coq_str(x), kind_to_coq(k)) for p, x, k in prog["forced"])


def prog_to_coq(prog, runs, gruns):
    stmts = [stmt_to_coq(ph, s) for ph, s in prog["stmts"]]
    rs, gs = [], []
    for perm, o in runs:
        oc = outcome_to_coq(o)
        if oc is None:
            return None
        rs.append("([%s], %s)" % ("; ".join(str(i) for i in perm), oc))
    for (order, perm), o in gruns:
        oc = outcome_to_coq(o)
        if oc is None:
            return None
        gs.append("([%s], [%s], %s)" % ("; ".join(coq_str(x) for x in order), "; ".join(str(i) for i in perm), oc))
    return "(CP [%s] [%s] [%s] [%s])" % (forced_to_coq(prog), "; ".join(stmts), "; ".join(rs), "; ".join(gs))


def run_term(prog, perm):
    stmts = [stmt_to_coq(*prog["stmts"][i]) for i in perm]
    return "run_queue tcfg 60 [%s] [%s]" % (forced_to_coq(prog), "; ".join(stmts))


def glue_term(prog, order, perm):
    stmts = [stmt_to_coq(*prog["stmts"][i]) for i in perm]
    return "infer_kinds tcfg 60 (dag_of [%s] [%s])" % ("; ".join(coq_str(x) for x in order), "; ".join(stmts))


# ------------------------------------------------------------------ known findings

def match_known(known, cls):
    """An open entry suppresses exactly the failures diagnosed as its class (see diagnose()); a
    failure that needs two pending repairs is suppressed when both are open."""
    fs = []
    for part in cls.split("+"):
        hit = [f for f in known if f.get("class") == part]
        if not hit:
            return None
        fs.append(hit[0])
    return fs[0]


def known_text(f, cls):
    return "%s: %s" % (cls, (f.get("what_fails") or "").split(". ")[0])


# switch of GenC14.v that is a premise of the order-independence theorems in props/C14.v -> class of
# the open known finding that explains why it is false
PENDING = {"finder_restarts_after_change": "gives_up_although_table_changed",
           "builtins_require_arrays": "matrix_builtin_accepts_scalar"}


# ------------------------------------------------------------------ the check

def unify_part(rep, known):
    """Exhaustive over the kind universe.  Returns coq terms, descriptions, counters."""
    terms = []
    fails = {}
    pairs = {}
    for a in KINDS:
        for b in KINDS:
            pairs[(a, b)] = real_unify(a, b)
    for (a, b), r in pairs.items():
        terms.append(("CU2", a, b, r))
    # idempotence
    for a in KINDS:
        r = pairs[(a, a)]
        if r[0] == "ok" and r[1] != a:
            fails.setdefault("unify_not_idempotent", {"a": a, "unify(a,a)": r})
        if r[0] != "ok" and a != "Boolean":
            fails.setdefault("unify_not_idempotent", {"a": a, "unify(a,a)": r})
    # commutativity
    for a in KINDS:
        for b in KINDS:
            if not sim(pairs[(a, b)], pairs[(b, a)]):
                fails.setdefault("unify_not_commutative", {"a": a, "b": b, "unify(a,b)": pairs[(a, b)],
                                                           "unify(b,a)": pairs[(b, a)]})
    # associativity
    ntr = 0
    for a in KINDS:
        for b in KINDS:
            for c in KINDS:
                l, r = real_unify2(a, b, c, True), real_unify2(a, b, c, False)
                terms.append(("CU3", a, b, c, l, r))
                ntr += 1
                if not sim(l, r):
                    fails.setdefault("unify_not_associative",
                                     {"a": a, "b": b, "c": c, "unify(unify(a,b),c)": l, "unify(a,unify(b,c))": r})
    for cls, w in sorted(fails.items()):
        f = match_known(known, cls)
        if f:
            rep.known_finding(known_text(f, cls))
        else:
            rep.violation({"what": "dagrt.data.unify is not a partial join: " + cls, "class": cls,
                           "witness": w, "kind": "unify",
                           "replay": "./check C14 --replay <this file>"})
    return terms, len(pairs), ntr, fails


def unify_term_to_coq(t):
    if t[0] == "CU2":
        r = res_to_coq(t[3])
        if r is None:
            return None
        return "(CU2 %s %s %s)" % (kind_to_coq(t[1]), kind_to_coq(t[2]), r)
    l, r = res_to_coq(t[4]), res_to_coq(t[5])
    if l is None or r is None:
        return None
    return "(CU3 %s %s %s %s %s)" % (kind_to_coq(t[1]), kind_to_coq(t[2]), kind_to_coq(t[3]), l, r)


def shape_switches():
    """The defect-shape switches the translator reads off the working tree (for the evidence file)."""
    try:
        from harness.tr import c14 as tr
        tree = tr._parse(common.REPO, "dagrt/data.py")
        ut, arr = tr.unify_flags(tree)
        ins, raises, _ = tr.set_flags(tree)
        prepass, restart = tr.finder_facts(tree)
        return {"unify_usertype_accepts_int": ut, "unify_array_accepts_int": arr,
                "set_insert_marks_changed": ins, "set_reraises": raises,
                "loop_variables_prepass": prepass, "finder_restarts_after_change": restart,
                "builtins_require_arrays": tr.pinned(common.REPO)}
    except Exception as ex:  # noqa: BLE001
        return {"error": "%s: %s" % (type(ex).__name__, ex)}


def real_le(x, y):
    """x <= y for real kinds: joining x into y leaves y unchanged (None is below everything)"""
    from dagrt.data import unify
    if x is None:
        return True
    if y is None:
        return False
    if x == y:
        return True
    try:
        return unify(x, y) == y
    except Exception:  # noqa: BLE001
        return False


def real_rk(f, args):
    """get_result_kinds(check=False) on positional argument kinds; None = any exception (which
    map_generic_call turns into UnableToInferKind)"""
    try:
        return tuple(f.get_result_kinds(dict(enumerate(args)), False))
    except Exception:  # noqa: BLE001
        return None


def not_monotone(r_lo, r_hi):
    if r_lo is not None and r_hi is None:
        return "defined for the smaller kinds only"
    if r_lo is not None and r_hi is not None and (
            len(r_lo) != len(r_hi) or not all(real_le(x, y) for x, y in zip(r_lo, r_hi))):
        return "result kinds do not grow with the argument kinds"
    return None


def registry_monotone_part(rep, known):
    """Implementation-level oracle for the registry: get_result_kinds(check=False) of every function of
    the test registry on argument vectors a <= a' over the kind universe (None below everything,
    <= decided by the real unify): a result for a' and none... is fine; a result for a and none for
    a', or results that are not <=, are reported.  Returns (#comparisons, failures)."""
    reg = test_registry()
    ks = [kind_to_real(k) for k in KINDS]
    le, rk = real_le, real_rk
    n = 0
    fails = {}
    for fid in sorted(reg.id_to_function):
        f = reg[fid]
        arity = len(tuple(f.arg_names))
        # the kind of at most the first two arguments matters; the others are kept at Scalar(real)
        vary = min(arity, 2)
        for lo in itertools.product(ks, repeat=vary):
            for hi in itertools.product(ks, repeat=vary):
                if not all(le(x, y) for x, y in zip(lo, hi)):
                    continue
                rest = [kind_to_real("Scalar:1")] * (arity - vary)
                r_lo, r_hi = rk(f, list(lo) + rest), rk(f, list(hi) + rest)
                n += 1
                bad = not_monotone(r_lo, r_hi)
                if bad and fid not in fails:
                    fails[fid] = {"function": fid, "why": bad,
                                  "smaller_arguments": [kind_from_real(k) for k in lo],
                                  "larger_arguments": [kind_from_real(k) for k in hi],
                                  "result_smaller": None if r_lo is None else [kind_from_real(k) for k in r_lo],
                                  "result_larger": None if r_hi is None else [kind_from_real(k) for k in r_hi]}
    for fid, w in sorted(fails.items()):
        cls = "matrix_builtin_accepts_scalar" if fid in MATRIX else "result_kinds_not_monotone"
        f = match_known(known, cls)
        if f:
            rep.known_finding(known_text(f, cls))
        else:
            rep.violation({"what": "get_result_kinds of %s is not monotone in the argument kinds (kind inference "
                                   "then depends on the statement order): %s" % (fid, w["why"]),
                           "class": cls, "kind": "registry", "witness": w,
                           "replay": "./check C14 --replay <this file>"})
    return n, fails


def main(tier):
    rep = common.Reporter(PID, tier)
    seed = common.seed()
    known = common.known_findings(PID)
    import time
    t0 = time.time()
    timing = {}
    ps = common.proof_stage(rep, PID, gen=["c14"])
    timing["proof_stage_s"] = round(time.time() - t0, 1)
    switches = shape_switches()
    # a premise of the order-independence theorems that does not hold must be explained by an open finding
    vacuous = [sw for sw, cls in sorted(PENDING.items())
               if switches.get(sw) is False and not match_known(known, cls)]
    if ps["ok"] and vacuous:
        ps = dict(ok=False, stage="premise", theorem="props/C14.v C14_order_independent / C14_infer_kinds_phase_order "
                  "(premise %s = true does not hold on this tree and no open known finding covers it)"
                  % ", ".join(vacuous), detail=vacuous)

    # ---- part 1: unify on the complete universe
    uterms, n_pairs, n_triples, ufails = unify_part(rep, known)
    # ---- part 1b: the registry is monotone
    n_reg, regfails = registry_monotone_part(rep, known)

    # ---- part 2: inference under permutations of statements and phases, and hash seeds
    progs, dist = gen_programs(tier, seed)
    rng = random.Random(seed * 31 + 1)
    cap = 120
    jobs = []
    for p in progs:
        perms = perms_of(len(p["stmts"]), rng, cap)
        jobs.append((p, perms, glue_presentations(p, perms)))
    seeds = SEEDS_QUICK if tier == "quick" else SEEDS_THOROUGH
    t1 = time.time()
    res, werrors = run_all(jobs, seeds)
    timing["impl_runs_s"] = round(time.time() - t1, 1)
    t1 = time.time()
    n_runs = sum(len(pm) for _, pm, _ in jobs) * len(seeds)
    n_glue = sum(len(g) for _, _, g in jobs) * len(seeds)

    failing = {}          # class -> (prog, detail)
    n_fail_progs = 0
    seed_dependent = None
    if not werrors:
        base = res[seeds[0]]
        for sd in seeds[1:]:
            for j, (a, b) in enumerate(zip(base, res[sd])):
                if a != b and seed_dependent is None:
                    seed_dependent = (j, sd)
        for j, (prog, perms, glue) in enumerate(jobs):
            outs, gouts = base[j]
            if all(outcome_sim(outs[0], o) for o in outs + gouts):
                continue
            n_fail_progs += 1
            cls = diagnose(prog, outs, gouts)
            if cls not in failing or prog_size(prog) < prog_size(failing[cls][0]):
                failing[cls] = (prog, perms, outs)

    if seed_dependent is not None:
        j, sd = seed_dependent
        rep.violation({"what": "kind inference result depends on PYTHONHASHSEED", "class": "hash_seed_dependent",
                       "program": jobs[j][0], "seeds": [seeds[0], sd], "kind": "program",
                       "outcomes_seed_a": res[seeds[0]][j], "outcomes_seed_b": res[sd][j]})

    for cls, (prog, perms, outs) in sorted(failing.items()):
        f = match_known(known, cls)
        if f:
            rep.known_finding(known_text(f, cls))
            continue
        small = shrink_prog(prog, cls)
        ok, souts, sgouts = oracle_inproc(small)
        sperms = perms_of(len(small["stmts"]), random.Random(0), 120)
        distinct = []
        for pm, o in zip(sperms, souts):
            if not any(outcome_sim(o, d["outcome"]) for d in distinct):
                distinct.append({"statement_order": pm, "outcome": o})
        for (order, pm), o in zip(glue_presentations(small, sperms), sgouts):
            if not any(outcome_sim(o, d["outcome"]) for d in distinct):
                distinct.append({"infer_kinds_phases_dict_order": order, "statement_order": pm, "outcome": o})
        what = "kind inference depends on the order in which statements are presented"
        if cls == "infer_kinds_depends_on_presentation":
            what = ("dagrt.data.infer_kinds depends on the order in which the phases dict of the DAGCode "
                    "lists the phases (SymbolKindFinder called directly does not)")
        rep.violation({"what": what, "class": cls, "kind": "program", "program": small,
                       "presentations_with_different_outcomes": distinct,
                       "replay": "./check C14 --replay <this file>"})

    timing["oracle_and_shrinking_s"] = round(time.time() - t1, 1)
    t1 = time.time()
    # ---- correspondence with the Coq model
    n_eval = 0
    mism, errors = [], list(werrors)
    unrepresentable = 0
    terms, origin = [], []
    model_ready = all(os.path.exists(os.path.join(common.COQ, d, f)) for d, f in
                      (("model", "Unify.vo"), ("model", "KindInfer.vo"), ("model", "KindInferCfg.vo"),
                       ("gen", "GenC14.vo")))
    n_model_runs = 0
    if model_ready and not werrors:
        for t in uterms:
            ct = unify_term_to_coq(t)
            if ct is None:
                unrepresentable += 1
                terms.append("(CU2 None None (@Err okind TypeError))")   # forces a reported mismatch
            else:
                terms.append(ct)
            origin.append(("unify", t))
        maxp = 6 if tier == "quick" else 24
        maxg = 3 if tier == "quick" else 12
        for j, (prog, perms, glue) in enumerate(jobs):
            outs, gouts = res[seeds[0]][j]
            idx = list(range(len(perms)))
            if len(idx) > maxp:
                idx = [0, len(perms) - 1] + rng.sample(idx[1:-1], maxp - 2)
            runs = [(perms[i], outs[i]) for i in idx]
            gidx = list(range(len(glue)))
            mg = maxg if len(phases_of(prog)) > 1 else 1
            if len(gidx) > mg:
                gidx = [len(glue) - 1] + rng.sample(gidx[:-1], mg - 1)
            gruns = [(glue[i], gouts[i]) for i in gidx]
            ct = prog_to_coq(prog, runs, gruns)
            if ct is None:
                unrepresentable += 1
                ct = "(CU2 None None (@Err okind TypeError))"
            terms.append(ct)
            origin.append(("program", prog, runs, gruns))
            n_model_runs += len(runs) + len(gruns)
        # one wave of coqc processes: loading the libraries dominates the cost of a shard
        shard = max(150, (len(terms) + common.NPROC - 1) // common.NPROC)
        mism, n_eval, cerrs = common.eval_cases(PID, HEADER, terms, "chk", shard=shard)
        errors += cerrs
    elif not model_ready:
        errors.append("model not built")

    timing["coq_correspondence_s"] = round(time.time() - t1, 1)
    tie_broken = bool(mism or errors)
    if (not ps["ok"] or tie_broken) and not rep.violations:
        detail = {"what": "proof obligation or model/implementation correspondence no longer checks; "
                          "no failing input found by the implementation-level oracle",
                  "proof_stage": ps, "coq_errors": errors[:3]}
        if mism:
            o = origin[mism[0]]
            if o[0] == "unify":
                detail["first_disagreeing_case"] = {"unify_case": o[1]}
            else:
                prog, runs, gruns = o[1], o[2], o[3]
                bad = None
                cands = [(run_term(prog, pm), {"statement_order": pm}, out) for pm, out in runs] + \
                        [(glue_term(prog, od, pm), {"phases_dict_order": od, "statement_order": pm}, out)
                         for (od, pm), out in gruns]
                for term, how, out in cands:
                    oc = outcome_to_coq(out)
                    chk = common.eval_term(HEADER, "outcome_eqb (%s) %s" % (term, oc)) if oc else "false"
                    if "true" not in chk:
                        bad = dict(how, program=prog, impl_result=out, model_result=common.eval_term(HEADER, term))
                        break
                detail["first_disagreeing_case"] = bad
            detail["n_disagreements"] = len(mism)
        detail["broken"] = ("theorem file %s" % ps.get("theorem")) if not ps["ok"] else \
            "correspondence dagrt.data.unify/SymbolKindFinder/infer_kinds ~ Dagrt.Unify.unify/Dagrt.KindInfer.run_queue/infer_kinds"
        rep.violation(detail, no_input=True)
    elif not ps["ok"] or tie_broken:
        rep.coverage["broken_obligation"] = ps if not ps["ok"] else {"disagreements": len(mism),
                                                                    "errors": errors[:2]}

    n_nontrivial = 0
    n_with_calls = 0
    n_multi_phase = 0
    seen = set()
    if not werrors:
        for j, (prog, perms, glue) in enumerate(jobs):
            outs = res[seeds[0]][j][0]
            # non-trivial: inference needed more than reading constants: some statement deferred, unified or failed
            key = json.dumps(prog, sort_keys=True)
            if key in seen:
                continue
            seen.add(key)
            if prog_calls(prog):
                n_with_calls += 1
            if len(phases_of(prog)) > 1:
                n_multi_phase += 1
            if any(o[0] == "err" for o in outs) or any(s_size(s) > 1 for _, s in prog["stmts"]):
                n_nontrivial += 1
    rep.coverage.update(
        evaluations=n_pairs + n_triples + n_reg + n_runs + n_glue,
        distinct_nontrivial=n_nontrivial + n_pairs + n_triples,
        rule="evaluations = unify pairs + triples (complete universe of 10 kinds) + get_result_kinds comparisons "
             "+ SymbolKindFinder runs (programs x presented orders x hash seeds) + infer_kinds runs (programs x "
             "phase orders x statement orders x hash seeds); non-trivial program = distinct program with a "
             "compound expression, a call, a loop variable or an error outcome; every unify pair/triple is distinct",
        traces_validated_against_impl=n_eval,
        model_runs_compared=n_model_runs + n_pairs + n_triples,
        model_impl_disagreements=len(mism),
        unify_pairs=n_pairs, unify_triples=n_triples, registry_monotonicity_comparisons=n_reg,
        registry_functions_not_monotone=sorted(regfails),
        programs=len(jobs), programs_with_calls=n_with_calls, programs_with_several_phases=n_multi_phase,
        finder_runs=n_runs, infer_kinds_runs=n_glue, hash_seeds=list(seeds),
        order_dependent_programs=n_fail_progs,
        order_dependence_classes=sorted(failing),
        input_distribution=dist,
        statements_histogram={str(k): sum(1 for p in progs if len(p["stmts"]) == k) for k in range(1, 7)},
        samples=[{"program": jobs[i][0], "orders": len(jobs[i][1]), "infer_kinds_presentations": len(jobs[i][2]),
                  "outcome_first_order": (res[seeds[0]][i][0][0] if not werrors else None)}
                 for i in (0, len(jobs) // 2, len(jobs) - 1)],
        exhaustive=False, timing=timing, repo_tree=common.REPO, shape_switches=switches,
        theorem_premises_false_on_this_tree=[sw for sw in sorted(PENDING) if switches.get(sw) is False],
    )
    rep.assumptions = [
        "expressions are constants, variables, sums, products, quotients, comparisons and calls (positional and "
        "keyword arguments); powers, min/max, logical operators and subscript expressions are outside the model; "
        "statements are Assign and AssignFunctionCall",
        "registered functions are the built-ins of base_function_registry, ODE right-hand sides (register_ode_rhs) "
        "and functions with fixed result kinds (register_function); get_result_kinds is modelled for check=False, "
        "which SymbolKindFinder.make_kim hard-wires",
        "pymbolic.flatten is external: the model receives flatten(stmt.expression) computed by the real pymbolic",
        "statement inputs: no empty Product in a flattened right-hand side, forced kinds are not None; "
        "fuel exhaustion of the model's loops is excluded by hypothesis (see design/C14.md)",
        "C14_order_independent / C14_infer_kinds_phase_order carry the premises finder_restarts_after_change = true "
        "and builtins_require_arrays = true (repairs fixes/C14_worklist_restart, C14_matrix_builtins_need_arrays); "
        "coverage.theorem_premises_false_on_this_tree lists those that do not hold on the checked tree, where "
        "C14_refuted_gives_up_early / C14_refuted_scalar_matrix are the statements that apply",
    ]
    return rep.finish("proof")


def replay(path):
    r = json.load(open(path))
    if r.get("kind") == "unify":
        w = r["witness"]
        a, b, c = w.get("a"), w.get("b"), w.get("c")
        if c is not None:
            l, rr = real_unify2(a, b, c, True), real_unify2(a, b, c, False)
            print(json.dumps({"unify(unify(a,b),c)": l, "unify(a,unify(b,c))": rr}))
            return 0 if sim(l, rr) else 1
        if b is not None:
            x, y = real_unify(a, b), real_unify(b, a)
            print(json.dumps({"unify(a,b)": x, "unify(b,a)": y}))
            return 0 if sim(x, y) else 1
        x = real_unify(a, a)
        print(json.dumps({"unify(a,a)": x}))
        return 0 if (x == ("ok", a) or (a == "Boolean" and x[0] != "ok")) else 1
    if r.get("kind") == "registry":
        w = r["witness"]
        f = test_registry()[w["function"]]
        arity = len(tuple(f.arg_names))

        def rk(names):
            args = [kind_to_real(k) for k in names] + [kind_to_real("Scalar:1")] * (arity - len(names))
            return real_rk(f, args)
        lo, hi = rk(w["smaller_arguments"]), rk(w["larger_arguments"])
        bad = not_monotone(lo, hi)
        show = lambda r: None if r is None else [kind_from_real(k) for k in r]   # noqa: E731
        print(json.dumps({"function": w["function"], "smaller_arguments": w["smaller_arguments"],
                          "result_smaller": show(lo), "larger_arguments": w["larger_arguments"],
                          "result_larger": show(hi), "not_monotone": bad}))
        return 1 if bad else 0
    prog = r.get("program") or (r.get("first_disagreeing_case") or {}).get("program")
    if prog is None:
        print("replay names a broken obligation, no input: %s" % r.get("broken"))
        return 1
    ok, outs, gouts = oracle_inproc(prog)
    perms = perms_of(len(prog["stmts"]), random.Random(0), 120)
    print(json.dumps({"program": prog,
                      "SymbolKindFinder": [{"statement_order": p, "outcome": o} for p, o in zip(perms, outs)],
                      "infer_kinds": [{"phases_dict_order": od, "statement_order": p, "outcome": o}
                                      for (od, p), o in zip(glue_presentations(prog, perms), gouts)],
                      "order_independent": ok}, indent=1))
    return 0 if ok else 1
