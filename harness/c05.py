"""C05: lowering a phase to structured code keeps order, guards and loops.

Tie: real dagrt.codegen.dag_ast.create_ast_from_phase (+ ExecutionPhase.depends_on) and
StructuredCodeGenerator.lower_node vs coq/model/DagAst.v (evaluated by vm_compute) on phases
built from dagrt.language statements, each stored in several orders.
Oracle (independent of the model): the REAL tree is evaluated under every valuation of the guard
flags and several trip counts; the executed leaves (with their enclosing loop nest) must be exactly
the non-Nop statements whose guard holds, each once, inside exactly its declared loops, in one
fixed order that respects the (transitive) dependency edges; the tree must not depend on the
stored order; the walker must not raise and its emit_* sequence must re-parse to the same tree.
"""
import itertools
import json
import os
import random

from harness import common

PID = "C05"
NATOMS = 6

# ------------------------------------------------------------------ real objects


def _mods():
    from dagrt.codegen import dag_ast
    from pymbolic.primitives import Comparison, LogicalNot, Variable
    return dag_ast, LogicalNot, Variable, Comparison


def atom_exprs():
    _, _, Variable, Comparison = _mods()
    return [Variable("<cond>c0"), Variable("<cond>c1"), Variable("<cond>c2"), Variable("<cond>zz"),
            Comparison(Variable("<state>y"), "<", 3), Variable("<p>flag")]


def loop_table():
    _, _, Variable, _ = _mods()
    return [("i0", 0, 3), ("i1", 0, Variable("n")), ("i2", 1, 4), ("j", Variable("m"), 10)]


def cond_to_real(c):
    _, LogicalNot, _, _ = _mods()
    if c[0] == "t":
        return True
    if c[0] == "f":
        return False
    if c[0] == "not":
        return LogicalNot(cond_to_real(c[1]))
    return atom_exprs()[c[1]]


def cond_from_real(c):
    _, LogicalNot, _, _ = _mods()
    if c is True:
        return ("t",)
    if c is False:
        return ("f",)
    if isinstance(c, LogicalNot):
        return ("not", cond_from_real(c.child))
    for k, e in enumerate(atom_exprs()):
        if type(c) is type(e) and c == e:
            return ("atom", k)
    raise ValueError("unexpected condition %r" % (c,))


KINDS = ("assign", "nop", "yield", "call", "fail", "switch")


def stmt_to_real(s):
    from dagrt.language import Assign, AssignFunctionCall, FailStep, Nop, SwitchPhase, YieldState
    _, _, Variable, _ = _mods()
    kw = dict(id=s["id"], depends_on=list(s["deps"]), condition=cond_to_real(s["guard"]))
    k = s["kind"]
    if k == "assign":
        return Assign(assignee="x_" + str(len(s["id"])), assignee_subscript=(),
                      expression=Variable("<state>y") + len(s["deps"]),
                      loops=[loop_table()[j] for j in s["loops"]], **kw)
    if k == "nop":
        return Nop(**kw)
    if k == "yield":
        return YieldState(time_id="final", time=Variable("<t>"), component_id="y",
                          expression=Variable("<state>y"), **kw)
    if k == "call":
        return AssignFunctionCall(assignees=("r",), function_id="<func>f",
                                  parameters=(Variable("<state>y"),), **kw)
    if k == "fail":
        return FailStep(**kw)
    if k == "switch":
        return SwitchPhase(next_phase="p", **kw)
    raise ValueError(k)


def build_code(stmts):
    from dagrt.language import DAGCode, ExecutionPhase
    real = [stmt_to_real(s) for s in stmts]
    return DAGCode(phases={"p": ExecutionPhase("p", "p", real)}, initial_phase="p"), real


def leaf_ok(leaf, orig_by_id):
    """The leaf must be the original statement with condition=True and no loops left."""
    o = orig_by_id.get(leaf.id)
    if o is None or type(o) is not type(leaf) or leaf.condition is not True:
        return False
    if list(getattr(leaf, "loops", [])):
        return False
    want = o.copy(condition=True, loops=[]) if hasattr(o, "loops") else o.copy(condition=True)
    return str(want) == str(leaf) and want.depends_on == leaf.depends_on


def from_real(n, orig_by_id):
    d, _, _, _ = _mods()
    if isinstance(n, d.StatementWrapper):
        return ("leaf", n.statement.id, leaf_ok(n.statement, orig_by_id))
    if isinstance(n, d.NullASTNode):
        return ("null",)
    if isinstance(n, d.Block):
        return ("block", [from_real(c, orig_by_id) for c in n.children])
    if isinstance(n, d.IfThenElse):
        return ("ifte", cond_from_real(n.condition), from_real(n.then, orig_by_id),
                from_real(n.else_, orig_by_id))
    if isinstance(n, d.IfThen):
        return ("ift", cond_from_real(n.condition), from_real(n.then, orig_by_id))
    if isinstance(n, d.ForLoop):
        return ("for", loop_index(n.loop_var_name, n.lbound, n.ubound), from_real(n.body, orig_by_id))
    raise ValueError("unexpected node %r" % (n,))


def loop_index(var, lo, hi):
    for j, (v, a, b) in enumerate(loop_table()):
        if v == var and type(a) is type(lo) and a == lo and type(b) is type(hi) and b == hi:
            return j
    raise ValueError("unexpected loop header %r" % ((var, lo, hi),))


def record_walk(tree, orig_by_id):
    """Drive the real lower_node with a recording subclass; return the emit_* sequence."""
    from dagrt.codegen.codegen_base import StructuredCodeGenerator
    ev = []
    open_loops = []

    class Rec(StructuredCodeGenerator):
        def lower_inst(self, inst):
            # the base class dispatches to emit_inst_<Class>; record the dispatch target too
            ev.append(("inst", inst.id, "emit_inst_" + type(inst).__name__, leaf_ok(inst, orig_by_id)))

        def emit_if_begin(self, expr):
            ev.append(("if", cond_from_real(expr)))

        def emit_if_end(self):
            ev.append(("endif",))

        def emit_else_begin(self):
            ev.append(("else",))

        def emit_for_begin(self, loop_var_name, lbound, ubound):
            j = loop_index(loop_var_name, lbound, ubound)
            open_loops.append((loop_var_name, j))
            ev.append(("for", j))

        def emit_for_end(self, loop_var_name):
            if not open_loops or open_loops[-1][0] != loop_var_name:
                ev.append(("endfor", "MISMATCH:" + str(loop_var_name)))
            else:
                ev.append(("endfor", open_loops.pop()[1]))

    Rec().lower_node(tree)
    return ev


def run_impl(stmts):
    """stmts in stored order -> ("ok", tree, walk) | ("exc", class, arg)
    walk = ("ok", events) | ("exc", class)."""
    d, _, _, _ = _mods()
    try:
        code, real = build_code(stmts)
        orig = {}
        for r in real:
            orig[r.id] = r
        out = d.create_ast_from_phase(code, "p")
    except Exception as ex:  # noqa: BLE001 - the class is the observable
        arg = ex.args[0] if isinstance(ex, KeyError) and ex.args else None
        return ("exc", type(ex).__name__, arg)
    try:
        tree = from_real(out, orig)
    except Exception as ex:  # noqa: BLE001
        return ("exc", "Unrepresentable:" + type(ex).__name__, str(ex))
    try:
        walk = ("ok", record_walk(out, orig))
    except Exception as ex:  # noqa: BLE001
        walk = ("exc", type(ex).__name__)
    return ("ok", tree, walk)


# ------------------------------------------------------------------ oracle (independent of the model)

def evalc(c, v):
    if c[0] == "t":
        return True
    if c[0] == "f":
        return False
    if c[0] == "not":
        return not evalc(c[1], v)
    return v[c[1]]


def atoms_of(c, acc):
    if c[0] == "not":
        atoms_of(c[1], acc)
    elif c[0] == "atom":
        acc.add(c[1])
    return acc


def ltrace(t, v, trips, nest):
    k = t[0]
    if k == "leaf":
        return [(t[1], nest)]
    if k == "null":
        return []
    if k == "block":
        return [x for c in t[1] for x in ltrace(c, v, trips, nest)]
    if k == "ift":
        return ltrace(t[2], v, trips, nest) if evalc(t[1], v) else []
    if k == "ifte":
        return ltrace(t[2], v, trips, nest) if evalc(t[1], v) else ltrace(t[3], v, trips, nest)
    if k == "for":
        return ltrace(t[2], v, trips, nest + (t[1],)) * trips[t[1]]
    raise ValueError(t)


def static_leaves(t):
    k = t[0]
    if k == "leaf":
        return [t]
    if k == "null":
        return []
    if k == "block":
        return [x for c in t[1] for x in static_leaves(c)]
    if k == "ift":
        return static_leaves(t[2])
    if k == "ifte":
        return static_leaves(t[2]) + static_leaves(t[3])
    return static_leaves(t[2])


def flatten(t):
    """Inline nested blocks (lower_node emits nothing for a Block); returns a list of nodes."""
    k = t[0]
    if k == "block":
        return [x for c in t[1] for x in flatten(c)]
    if k == "ift":
        return [("ift", t[1], flatten(t[2]))]
    if k == "ifte":
        return [("ifte", t[1], flatten(t[2]), flatten(t[3]))]
    if k == "for":
        return [("for", t[1], flatten(t[2]))]
    return [t]


def parse_events(ev):
    """Re-parse an emit_* sequence into flattened-tree form; None if not well bracketed."""
    pos = [0]

    def seq(stop):
        out = []
        while pos[0] < len(ev):
            e = ev[pos[0]]
            if e[0] in stop:
                return out
            pos[0] += 1
            if e[0] == "inst":
                out.append(("leaf", e[1], e[3]))
            elif e[0] == "if":
                a = seq(("else", "endif"))
                if pos[0] >= len(ev):
                    raise ValueError("unterminated if")
                if ev[pos[0]][0] == "else":
                    pos[0] += 1
                    b = seq(("endif",))
                    if pos[0] >= len(ev):
                        raise ValueError("unterminated else")
                    pos[0] += 1
                    out.append(("ifte", e[1], a, b))
                else:
                    pos[0] += 1
                    out.append(("ift", e[1], a))
            elif e[0] == "for":
                b = seq(("endfor",))
                if pos[0] >= len(ev) or ev[pos[0]][1] != e[1]:
                    raise ValueError("for/endfor mismatch")
                pos[0] += 1
                out.append(("for", e[1], b))
            else:
                raise ValueError("stray %r" % (e,))
        return out

    try:
        out = seq(())
    except ValueError:
        return None
    return out if pos[0] == len(ev) else None


def dep_closure(stmts):
    by = {s["id"]: s for s in stmts}
    memo = {}

    def go(i, seen):
        if i in memo:
            return memo[i]
        r = set()
        for d in by[i]["deps"]:
            if d in by and d not in seen:
                r.add(d)
                r |= go(d, seen | {i})
        memo[i] = r
        return r
    return {s["id"]: go(s["id"], frozenset()) for s in stmts}


def is_wf(stmts):
    ids = [s["id"] for s in stmts]
    if len(set(ids)) != len(ids):
        return False
    idset = set(ids)
    if any(d not in idset for s in stmts for d in s["deps"]):
        return False
    # acyclic: Kahn
    deps = {s["id"]: set(s["deps"]) for s in stmts}
    done = set()
    while True:
        ready = [i for i in deps if i not in done and deps[i] <= done]
        if not ready:
            break
        done.update(ready)
    return len(done) == len(ids)


def trip_choices(stmts):
    used = sorted({j for s in stmts for j in s["loops"]})
    if not used:
        return [(1, 1, 1, 1)]
    return [(1, 1, 1, 1), (2, 3, 2, 1), (0, 2, 1, 3), (2, 0, 3, 2)]


def oracle_tree(stmts, res):
    """Decide the property for one stored order.  Returns None or a dict(kind=...)."""
    if res[0] != "ok":
        return {"kind": "exception", "exception": res[1], "arg": res[2]}
    tree, walk = res[1], res[2]
    by = {s["id"]: s for s in stmts}
    leaves = static_leaves(tree)
    ids = [l[1] for l in leaves]
    if any(not l[2] for l in leaves):
        return {"kind": "leaf-content", "detail": "a leaf is not the original statement with condition=True and "
                "no loops", "leaves": [l[1] for l in leaves if not l[2]]}
    if any(i not in by for i in ids):
        return {"kind": "unknown-leaf", "leaves": ids}
    if any(by[i]["kind"] == "nop" for i in ids):
        return {"kind": "nop-emitted", "leaves": ids}
    clo = dep_closure(stmts)       # transitive, through Nops
    atoms = sorted(set().union(*[atoms_of(s["guard"], set()) for s in stmts]) if stmts else [])
    for bits in itertools.product((False, True), repeat=len(atoms)):
        v = {a: b for a, b in zip(atoms, bits)}
        val = {str(k): x for k, x in v.items()}
        for trips in trip_choices(stmts):
            got = ltrace(tree, v, trips, ())
            # what must run: every non-Nop statement whose guard holds, prod(trips of its loops) times
            need = {}
            for s in stmts:
                if s["kind"] != "nop" and evalc(s["guard"], v):
                    n = 1
                    for j in s["loops"]:
                        n *= trips[j]
                    if n:
                        need[s["id"]] = n
            # maximal runs of the executed sequence
            runs = []
            for e in got:
                if runs and runs[-1][0] == e:
                    runs[-1][1] += 1
                else:
                    runs.append([e, 1])
            bad = None
            seen_ids = [r[0][0] for r in runs]
            if len(set(seen_ids)) != len(seen_ids):
                bad = "a statement runs more than once (non-contiguous repetitions)"
            elif set(seen_ids) != set(need):
                bad = "executed statements %r, required %r" % (sorted(seen_ids), sorted(need))
            else:
                for (i, nest), n in runs:
                    if list(nest) != by[i]["loops"]:
                        bad = "statement %s runs inside loops %r, declared %r" % (i, list(nest), by[i]["loops"])
                    elif n != need[i]:
                        bad = "statement %s runs %d times, required %d" % (i, n, need[i])
            if bad:
                return {"kind": "trace", "valuation": val, "trips": list(trips), "detail": bad,
                        "executed": [[a, list(b)] for a, b in got]}
            pos = {i: k for k, i in enumerate(seen_ids)}
            for a in seen_ids:
                for b in clo[a]:
                    if b in pos and pos[b] > pos[a]:
                        return {"kind": "dependency-order", "valuation": val, "trips": list(trips), "statement": a,
                                "runs_before_its_dependency": b, "executed_order": seen_ids}
    if walk[0] != "ok":
        return {"kind": "walker-exception", "exception": walk[1]}
    if any(e[0] == "inst" and e[2] != "emit_inst_" + type_name(by[e[1]]["kind"]) for e in walk[1]):
        return {"kind": "walker-dispatch", "events": walk[1]}
    back = parse_events(walk[1])
    if back != flatten(tree):
        return {"kind": "walker-sequence", "events": walk[1], "reparsed": back, "tree": tree}
    return None


def type_name(kind):
    return {"assign": "Assign", "nop": "Nop", "yield": "YieldState", "call": "AssignFunctionCall",
            "fail": "FailStep", "switch": "SwitchPhase"}[kind]


def oracle(case, results):
    """results: one run_impl result per stored order.  Returns (failure dict | None, order index)."""
    seen = {}
    for k, (perm, res) in enumerate(zip(case["orders"], results)):
        key = json.dumps(res, sort_keys=True, default=str)
        if key in seen:
            continue
        seen[key] = k
        o = oracle_tree(case["stmts"], res)
        if o is not None:
            return o, k
    if len(seen) > 1:
        ks = sorted(seen.values())
        return {"kind": "storage-order", "order_a": case["orders"][ks[0]], "result_a": results[ks[0]],
                "order_b": case["orders"][ks[1]], "result_b": results[ks[1]]}, ks[1]
    return None, 0


def run_case(case):
    return [run_impl([case["stmts"][i] for i in perm]) for perm in case["orders"]]


# ------------------------------------------------------------------ Coq terms

def rank_map(stmts):
    names = sorted({s["id"] for s in stmts} | {d for s in stmts for d in s["deps"]})
    return {n: k for k, n in enumerate(names)}


def cond_to_coq(c):
    if c[0] == "t":
        return "CTrue"
    if c[0] == "f":
        return "CFalse"
    if c[0] == "not":
        return "(CNot %s)" % cond_to_coq(c[1])
    return "(CAtom %d)" % c[1]


def stmt_to_coq(s, rk):
    return "(mkStmt %d [%s] %s [%s] %s)" % (
        rk[s["id"]], "; ".join(str(rk[d]) for d in s["deps"]), cond_to_coq(s["guard"]),
        "; ".join(str(j) for j in s["loops"] if s["kind"] == "assign"),
        "true" if s["kind"] == "nop" else "false")


def tree_to_coq(t, rk):
    k = t[0]
    if k == "leaf":
        return "(Leaf %d)" % rk[t[1]]
    if k == "null":
        return "Null"
    if k == "block":
        return "(Block [%s])" % "; ".join(tree_to_coq(c, rk) for c in t[1])
    if k == "ift":
        return "(IfT %s %s)" % (cond_to_coq(t[1]), tree_to_coq(t[2], rk))
    if k == "ifte":
        return "(IfTE %s %s %s)" % (cond_to_coq(t[1]), tree_to_coq(t[2], rk), tree_to_coq(t[3], rk))
    if k == "for":
        return "(For %d %s)" % (t[1], tree_to_coq(t[2], rk))
    raise ValueError(t)


def events_to_coq(ev, rk):
    out = []
    for e in ev:
        if e[0] == "inst":
            out.append("EInst %d" % rk[e[1]])
        elif e[0] == "if":
            out.append("EIfBegin %s" % cond_to_coq(e[1]))
        elif e[0] == "else":
            out.append("EElse")
        elif e[0] == "endif":
            out.append("EIfEnd")
        elif e[0] == "for":
            out.append("EForBegin %d" % e[1])
        elif e[0] == "endfor":
            if not isinstance(e[1], int):
                return None
            out.append("EForEnd %d" % e[1])
    return "[%s]" % "; ".join(out)


HEADER = (
    "From Coq Require Import List Arith Bool.\nImport ListNotations.\n"
    "From Dagrt Require Import GenC06 GenC05 Simplify DagAst.\n"
    "Inductive expect := XTree (t : ast) (w : option (list event)) | XKeyError (k : nat) | XIndexError | XOther.\n"
    "Definition chk (c : list stmt * expect) : bool :=\n"
    "  match lower simplify_rev_expand simplify_guard_empty lower_skip_false_guard (fst c), snd c with\n"
    "  | LOk a, XTree b w => ast_eqb a b &&\n"
    "      match walk a, w with\n"
    "      | WOk l, Some l' => events_eqb l l'\n"
    "      | WValueError, None => true\n"
    "      | _, _ => false end\n"
    "  | LKeyError k, XKeyError k' => Nat.eqb k k'\n"
    "  | LIndexError, XIndexError => true\n"
    "  | _, _ => false end.\n")


def stmts_to_coq(stmts, rk):
    return "[%s]" % "; ".join(stmt_to_coq(s, rk) for s in stmts)


def case_term(stmts, res):
    rk = rank_map(stmts)
    inp = stmts_to_coq(stmts, rk)
    if res[0] == "ok":
        try:
            t = tree_to_coq(res[1], rk)
        except KeyError:
            return "(%s, XOther)" % inp
        if res[2][0] == "ok":
            ev = events_to_coq(res[2][1], rk)
            w = "(Some %s)" % ev if ev is not None else None
        elif res[2][1] == "ValueError":
            w = "None"
        else:
            w = None
        if w is None:
            return "(%s, XOther)" % inp
        return "(%s, XTree %s %s)" % (inp, t, w)
    if res[1] == "KeyError" and res[2] in rk:
        return "(%s, XKeyError %d)" % (inp, rk[res[2]])
    if res[1] == "IndexError":
        return "(%s, XIndexError)" % inp
    return "(%s, XOther)" % inp


# ------------------------------------------------------------------ generation

ID_POOL = ["a", "B", "b", "a1", "a10", "a2", "Z", "_x", "s0", "s00", "S", "ab", "aB", "0", "10", "9", "z9", "~",
           "stmt", "stmt_0", "stmt_10", "stmt_9", "A", "aa", "+", "x.y", "x-y", "C", "c", "k"]
GUARDS_RANDOM = [("t",)] * 4 + [("atom", k) for k in range(NATOMS)] + [("atom", 0), ("atom", 1)] * 2 + \
    [("not", ("atom", 0)), ("not", ("atom", 1)), ("not", ("atom", 2)), ("not", ("not", ("atom", 0))),
     ("not", ("t",)), ("f",)]


def mk_stmt(i, kind="assign", deps=(), guard=("t",), loops=()):
    return {"id": i, "kind": kind, "deps": list(deps), "guard": guard,
            "loops": list(loops) if kind == "assign" else []}


def labelled_dags(n):
    """All acyclic edge sets on nodes 0..n-1 (edge (a, b): a depends on b)."""
    pairs = [(a, b) for a in range(n) for b in range(n) if a != b]
    out = []
    for bits in itertools.product((0, 1), repeat=len(pairs)):
        edges = [p for p, x in zip(pairs, bits) if x]
        deps = {a: {b for (x, b) in edges if x == a} for a in range(n)}
        done = set()
        while True:
            ready = [i for i in deps if i not in done and deps[i] <= done]
            if not ready:
                break
            done.update(ready)
        if len(done) == n:
            out.append(edges)
    return out


def orders_for(n, rng, k):
    ident = list(range(n))
    out = [ident]
    if n == 2:
        out.append([1, 0])
    elif n > 2:
        out.append(ident[::-1])
        for _ in range(k - 2):
            p = ident[:]
            rng.shuffle(p)
            if p not in out:
                out.append(p)
    return out


def case_from(nodes, edges, opts, rng, ids=None, norders=3):
    ids = ids or ["b", "B", "a1", "a"][:len(nodes)]
    stmts = []
    for a in nodes:
        kind, guard, loops = opts[a]
        stmts.append(mk_stmt(ids[a], kind, [ids[b] for (x, b) in edges if x == a], guard, loops))
    return {"stmts": stmts, "orders": orders_for(len(stmts), rng, norders)}


def random_case(rng, n, malformed=False):
    ids = rng.sample(ID_POOL, n)
    topo = ids[:]
    rng.shuffle(topo)
    p = rng.choice((0.15, 0.3, 0.5))
    stmts = []
    for k, i in enumerate(topo):
        deps = [d for d in topo[:k] if rng.random() < p]
        r = rng.random()
        kind = "assign" if r < 0.6 else "nop" if r < 0.8 else rng.choice(KINDS[2:])
        loops = []
        if kind == "assign" and rng.random() < 0.4:
            loops = rng.sample(range(4), rng.choice((1, 1, 2, 3)))
        stmts.append(mk_stmt(i, kind, deps, rng.choice(GUARDS_RANDOM), loops))
    how = None
    if malformed:
        how = rng.choice(("cycle", "missing", "dup", "selfloop"))
        a = rng.randrange(n)
        if how == "cycle" and n > 1:
            b = rng.randrange(n)
            # make a depend on b and b on a
            stmts[a]["deps"] = sorted(set(stmts[a]["deps"]) | {stmts[b]["id"]})
            stmts[b]["deps"] = sorted(set(stmts[b]["deps"]) | {stmts[a]["id"]})
        elif how == "missing":
            stmts[a]["deps"] = stmts[a]["deps"] + ["nowhere"]
        elif how == "dup" and n > 1:
            b = (a + 1) % n
            stmts[b] = dict(stmts[b], id=stmts[a]["id"])
        else:
            stmts[a]["deps"] = stmts[a]["deps"] + [stmts[a]["id"]]
    rng.shuffle(stmts)
    return {"stmts": stmts, "orders": orders_for(n, rng, 4), "malformed": how}


NODE_OPTS_1 = [(k, g, l) for (k, l) in (("assign", []), ("assign", [0]), ("assign", [1, 0]), ("nop", []), ("yield", []))
               for g in (("t",), ("f",), ("atom", 0), ("not", ("atom", 0)), ("not", ("not", ("atom", 0))))]
NODE_OPTS_2 = [("assign", ("t",), []), ("assign", ("atom", 0), []), ("assign", ("not", ("atom", 0)), []),
               ("assign", ("atom", 1), []), ("assign", ("atom", 0), [0]), ("assign", ("t",), [1]),
               ("nop", ("t",), []), ("nop", ("atom", 0), []), ("assign", ("f",), [])]
NODE_OPTS_3Q = [("assign", ("t",), []), ("assign", ("atom", 0), []), ("nop", ("t",), [])]
NODE_OPTS_3T = NODE_OPTS_3Q + [("assign", ("atom", 0), [0])]


def corpus():
    out = []
    d = os.path.join(common.VERIF, "corpus", PID)
    if os.path.isdir(d):
        for f in sorted(os.listdir(d)):
            if f.endswith(".json"):
                out.append(_norm(json.load(open(os.path.join(d, f)))["case"]))
    return out


def _tupc(c):
    return tuple(_tupc(x) if isinstance(x, list) else x for x in c)


def _norm(case):
    stmts = [dict(s, guard=_tupc(s["guard"]), deps=list(s["deps"]), loops=list(s["loops"])) for s in case["stmts"]]
    return dict(case, stmts=stmts, orders=[list(p) for p in case["orders"]])


def gen_cases(tier, seed):
    rng = random.Random(seed * 7919 + 5)
    cases = list(corpus())
    n_corpus = len(cases)
    # exhaustive small scope
    for o in NODE_OPTS_1:
        cases.append(case_from([0], [], {0: o}, rng))
    for edges in labelled_dags(2):
        for o0 in NODE_OPTS_2:
            for o1 in NODE_OPTS_2:
                cases.append(case_from([0, 1], edges, {0: o0, 1: o1}, rng))
    opts3 = NODE_OPTS_3Q if tier == "quick" else NODE_OPTS_3T
    for edges in labelled_dags(3):
        for os_ in itertools.product(opts3, repeat=3):
            cases.append(case_from([0, 1, 2], edges, dict(enumerate(os_)), rng))
    n_exh_full = len(cases) - n_corpus
    per4 = 1 if tier == "quick" else 4
    for edges in labelled_dags(4):
        for _ in range(per4):
            os_ = [rng.choice(NODE_OPTS_2) for _ in range(4)]
            ids = rng.sample(ID_POOL, 4)
            cases.append(case_from([0, 1, 2, 3], edges, dict(enumerate(os_)), rng, ids=ids))
    n_exh = len(cases) - n_corpus
    nrand, nmal = (500, 150) if tier == "quick" else (8000, 1500)
    for _ in range(nrand):
        cases.append(random_case(rng, rng.randint(3, 14)))
    for _ in range(nmal):
        cases.append(random_case(rng, rng.randint(1, 8), malformed=True))
    dist = {"corpus": n_corpus, "exhaustive": n_exh, "random_wellformed": nrand, "random_malformed": nmal,
            "exhaustive_scope": "all phases with 1 statement over 5 kinds x 5 guards; all labelled DAGs on 2 "
                                "statements x 9 (kind, guard, loops) options per statement; all 25 labelled DAGs "
                                "on 3 statements x %d options per statement (%d phases, complete); all 543 labelled "
                                "DAGs on 4 statements x %d random decoration(s)" % (len(opts3), n_exh_full, per4),
            "stored_orders_per_phase": "identity, reversed, + up to 2 random permutations"}
    return cases, dist


# ------------------------------------------------------------------ shrinking

def _neighbours(case):
    stmts = case["stmts"]
    n = len(stmts)
    for k in range(n):
        gone = stmts[k]["id"]
        rest = [dict(s, deps=[d for d in s["deps"] if d != gone]) for i, s in enumerate(stmts) if i != k]
        yield rest
    for k in range(n):
        for d in stmts[k]["deps"]:
            yield [dict(s, deps=[x for x in s["deps"] if x != d]) if i == k else s for i, s in enumerate(stmts)]
    for k in range(n):
        if stmts[k]["loops"]:
            yield [dict(s, loops=s["loops"][1:]) if i == k else s for i, s in enumerate(stmts)]
        if stmts[k]["guard"] != ("t",):
            yield [dict(s, guard=("t",)) if i == k else s for i, s in enumerate(stmts)]


def _weight(case):
    return sum(3 + len(s["deps"]) + len(s["loops"]) + (0 if s["guard"] == ("t",) else 1) for s in case["stmts"])


def shrink(case, kind):
    rng = random.Random(1)

    def fails(c):
        o, _ = oracle(c, run_case(c))
        return o is not None and o["kind"] == kind

    changed = True
    while changed:
        changed = False
        for stmts in _neighbours(case):
            cand = {"stmts": stmts, "orders": orders_for(len(stmts), rng, 4)}
            if _weight(cand) < _weight(case) and fails(cand):
                case = cand
                changed = True
                break
    return case


# ------------------------------------------------------------------ known findings

def matches_known(case, o, known):
    """Narrow matchers for `open` findings (none are open for C05 at the moment; the one defect found has a
    fix patch).  class for_null_body: a looped Assign whose guard is the constant False."""
    for f in known:
        if f.get("class") == "for_null_body" and o["kind"] in ("walker-exception",) and any(
                s["kind"] == "assign" and s["loops"] and s["guard"] == ("f",) for s in case["stmts"]):
            return f
    return None


# ------------------------------------------------------------------ the check

def describe(case):
    return ["%s: %s%s%s%s" % (s["id"], type_name(s["kind"]),
                              " loops=%r" % [loop_names()[j] for j in s["loops"]] if s["loops"] else "",
                              " condition=%s" % cond_str(s["guard"]) if s["guard"] != ("t",) else "",
                              " depends_on=%r" % s["deps"] if s["deps"] else "") for s in case["stmts"]]


def loop_names():
    return ["(i0,0,3)", "(i1,0,n)", "(i2,1,4)", "(j,m,10)"]


def cond_str(c):
    if c[0] == "t":
        return "True"
    if c[0] == "f":
        return "False"
    if c[0] == "not":
        return "not(%s)" % cond_str(c[1])
    return ["<cond>c0", "<cond>c1", "<cond>c2", "<cond>zz", "<state>y < 3", "<p>flag"][c[1]]


def main(tier):
    rep = common.Reporter(PID, tier)
    seed = common.seed()
    ps = common.proof_stage(rep, PID, gen=["c06", "c05"])
    known = common.known_findings(PID)

    cases, dist = gen_cases(tier, seed)
    results = [run_case(c) for c in cases]

    # implementation-level oracle on every well-formed case
    failing = {}
    n_wf = 0
    for c, rs in zip(cases, results):
        if not is_wf(c["stmts"]):
            continue
        n_wf += 1
        o, k = oracle(c, rs)
        if o is not None:
            key = o["kind"] + ":" + str(o.get("exception", ""))
            if key not in failing or _weight(c) < _weight(failing[key][0]):
                failing[key] = (c, o)
    for key, (c, o) in sorted(failing.items()):
        c2 = shrink(c, o["kind"])
        rs2 = run_case(c2)
        o2, k2 = oracle(c2, rs2)
        f = matches_known(c2, o2, known)
        if f is not None:
            rep.known_finding(f.get("what_fails", f.get("line", "")))
            continue
        rep.violation({"what": "create_ast_from_phase / lower_node violate C05 on a well-formed phase: " + o2["kind"],
                       "case": c2, "phase": describe(c2), "stored_order": c2["orders"][k2],
                       "impl_result": rs2[k2], "oracle": o2,
                       "replay": "./check C05 --replay <this file>"})

    # correspondence with the Coq model: one Coq case per (phase, stored order)
    terms = []
    owner = []
    # (the implementation's results for ALL stored orders were compared with each other by the oracle
    # above; the model's independence of the stored order is theorem C05_storage_independent; so one
    # stored order per well-formed phase - a different one from phase to phase - is evaluated in Coq,
    # and every stored order of a malformed phase, where duplicate ids make the order matter)
    for ci, (c, rs) in enumerate(zip(cases, results)):
        pairs = list(zip(c["orders"], rs))
        if is_wf(c["stmts"]) and len({json.dumps(r, sort_keys=True, default=str) for r in rs}) == 1:
            pairs = [pairs[ci % len(pairs)]]
        for perm, r in pairs:
            terms.append(case_term([c["stmts"][i] for i in perm], r))
            owner.append((ci, perm))
    n_eval = 0
    mism = []
    errors = []
    need = [os.path.join(common.COQ, "model", "DagAst.vo"), os.path.join(common.COQ, "gen", "GenC05.vo"),
            os.path.join(common.COQ, "gen", "GenC06.vo")]
    if all(os.path.exists(p) for p in need):
        mism, n_eval, errors = common.eval_cases(PID, HEADER, terms, "chk")
    else:
        errors = ["model not built"]

    tie_broken = bool(mism or errors)
    if (not ps["ok"] or tie_broken) and not rep.violations:
        detail = {"what": "proof obligation or model/implementation correspondence no longer checks; "
                          "no failing input found by the implementation-level oracle",
                  "proof_stage": ps, "coq_errors": errors[:3]}
        if mism:
            ci, perm = owner[mism[0]]
            # report the smallest disagreeing case
            for m in mism:
                cj, pj = owner[m]
                if _weight(cases[cj]) < _weight(cases[ci]):
                    ci, perm = cj, pj
            st = [cases[ci]["stmts"][i] for i in perm]
            rk = rank_map(st)
            detail["first_disagreeing_case"] = {
                "case": cases[ci], "phase": describe(cases[ci]), "stored_order": perm,
                "impl_result": results[ci][cases[ci]["orders"].index(perm)],
                "model_input": stmts_to_coq(st, rk),
                "model_result": common.eval_term(
                    HEADER, "let r := lower simplify_rev_expand simplify_guard_empty lower_skip_false_guard %s in "
                            "(r, match r with LOk t => Some (walk t) | _ => None end)" % stmts_to_coq(st, rk))}
            detail["n_disagreements"] = len(mism)
        detail["broken"] = ("theorem file %s" % ps.get("theorem")) if not ps["ok"] else \
            "correspondence create_ast_from_phase/lower_node ~ Dagrt.DagAst.lower/walk"
        rep.violation(detail, no_input=True)
    elif not ps["ok"] or tie_broken:
        rep.coverage["broken_obligation"] = ps if not ps["ok"] else {"disagreements": len(mism)}

    def nontrivial(c, rs):
        r = rs[0]
        return r[0] != "ok" or len(static_leaves(r[1])) >= 2
    distinct = len({json.dumps(c["stmts"], sort_keys=True) for c, rs in zip(cases, results) if nontrivial(c, rs)})
    sizes = {}
    for c in cases:
        sizes[len(c["stmts"])] = sizes.get(len(c["stmts"]), 0) + 1
    mal = {}
    for c in cases:
        if c.get("malformed"):
            mal[c["malformed"]] = mal.get(c["malformed"], 0) + 1
    excs = {}
    for rs in results:
        for r in rs:
            if r[0] != "ok":
                excs[r[1]] = excs.get(r[1], 0) + 1
    try:
        from harness.tr import c05 as _tr
        sf, go = _tr.lowering_flags(common.REPO)
        rep.coverage["source_shapes"] = {"lower_skip_false_guard": sf, "lower_guard_outside": go}
    except Exception as ex:  # noqa: BLE001 - already reported by proof_stage
        rep.coverage["source_shapes"] = "unrecognised: %s" % type(ex).__name__
    rep.coverage.update(
        evaluations=sum(len(rs) for rs in results), phases=len(cases), wellformed_phases_checked_by_oracle=n_wf,
        distinct_nontrivial=distinct,
        rule="evaluations = (phase, stored order) pairs run through the real create_ast_from_phase + lower_node "
             "and judged by the oracle; traces_validated_against_impl = pairs also evaluated in the Coq model "
             "(one stored order per well-formed phase, all of them for malformed phases); non-trivial = the "
             "lowered tree has >= 2 leaves or the lowering raised; distinct by the statement list",
        traces_validated_against_impl=n_eval, model_impl_disagreements=len(mism),
        input_distribution=dict(dist, statements_per_phase={str(k): v for k, v in sorted(sizes.items())},
                                malformed_kinds=mal, impl_exceptions=excs),
        samples=[{"phase": describe(cases[i]), "impl": results[i][0]} for i in
                 (0, len(cases) // 2, max(0, len(cases) - 200))],
        exhaustive=False,
    )
    rep.assumptions = [
        "statement ids are strings; the model numbers them by their rank in Python's sorted() order",
        "guards are the constants True/False, flags/other expressions compared by == (atoms) and LogicalNot of these",
        "a leaf does not change a guard flag within one valuation (C10's single-definition rule, as in C06)",
        "loop trip counts do not depend on the enclosing iteration (trips : loop -> nat)",
        "well-formed phase = unique ids, dependencies inside the phase, acyclic (C10's accepted predicate)"]
    return rep.finish("proof")


def replay(path):
    r = json.load(open(path))
    case = r.get("case") or (r.get("first_disagreeing_case") or {}).get("case")
    if case is None:
        print("replay names a broken obligation, no input: %s" % r.get("broken"))
        return 1
    case = _norm(case)
    rs = run_case(case)
    o, k = oracle(case, rs) if is_wf(case["stmts"]) else (None, 0)
    print(json.dumps({"phase": describe(case), "stored_order": case["orders"][k], "impl_result": rs[k],
                      "oracle": o}, indent=1, default=str))
    return 1 if o is not None else 0
