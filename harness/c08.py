"""C08: declared read/write sets cover what a statement really touches.

Tie: every generated (store, statement) pair is executed by the real NumpyInterpreter
(evaluate_condition + exec_*) on a recording variable store; outcome, resulting store,
access sequence and the real get_read_variables()/get_written_variables() are compared
with coq/model/Lang.v (exec_stmt, reads, writes) evaluated by vm_compute.
Oracle (independent of the model): recorded reads must lie in declared reads+writes,
recorded/observed writes in declared writes (+loop counters), and the identity
mapping of expressions must keep both sets.
"""
import copy
import json
import os
import random

from harness import common, lang

PID = "C08"
HEADER = ("From Coq Require Import List ZArith String Bool.\nImport ListNotations.\n"
          "From Dagrt Require Import GenLang Lang TestOracle LangCheck.\nOpen Scope string_scope.\nOpen Scope Z_scope.\n"
          "Definition chk := chk8 lang_del_guarded lang_lhs_sub_reads lang_loop_bound_reads.\n")

INTS = ["x", "y", "<state>u", "<p>n", "<t>"]
ARRS = ["a", "<state>b"]
FLAGS = ["<cond>c", "<cond>d"]
FUNCS = ["<func>f", "<func>g2", "<func>raise_h", "<func>arr_k", "<func>len_", "<func>p0"]
LOOPVARS = ["i", "j"]


# ------------------------------------------------------------------ generation

def gen_store(rng):
    s = {}
    for v in INTS:
        if rng.random() < 0.85:
            s[v] = ["int", rng.randint(-2, 5)]
    for v in ARRS:
        if rng.random() < 0.9:
            s[v] = ["arr", [rng.randint(-3, 9) for _ in range(rng.randint(1, 4))]]
    for v in FLAGS:
        if rng.random() < 0.8:
            s[v] = ["bool", rng.random() < 0.6]
    if rng.random() < 0.1:
        s["i"] = ["int", 7]          # a pre-existing variable named like a loop counter
    return s


def gen_kind(rng, lookups=False):
    g = lang.Gen(rng, INTS, ARRS, FLAGS, FUNCS)
    g.lookup_nodes = lookups
    c = rng.random()
    if c < 0.5:
        nloops = rng.choice([0, 0, 0, 1, 1, 2])
        lvs = LOOPVARS[:nloops]
        loops = []
        gl = lang.Gen(rng, INTS, ARRS, FLAGS, FUNCS, loopvars=[])
        for k, lv in enumerate(lvs):
            gl.loopvars = lvs[:k]
            lo = rng.choice([["int", 0], ["int", 1], gl.int_expr(1)])
            hi = rng.choice([["int", 2], ["int", 0], ["var", "<p>n"], gl.int_expr(1),
                             ["call", "<func>len_", [["var", rng.choice(ARRS)]], []]])
            loops.append([lv, lo, hi])
        g.loopvars = lvs
        if rng.random() < 0.45:
            x = rng.choice(ARRS)
            sub = g.index_expr() if rng.random() < 0.7 else g.int_expr(1)
        else:
            x = rng.choice(INTS + ["z", "<cond>c"])
            sub = None
        rhs = g.bool_expr(2) if x.startswith("<cond>") else g.int_expr(3)
        if loops and not x.startswith("<cond>"):
            # a loop body that feeds on its own result squares it every trip: keep values small (NumPy's
            # 64-bit integers wrap silently, Python's grow past what can be printed; the model has unbounded Z)
            rhs = ["bin", "rem", rhs, ["int", 97]]
        if lookups and sub is None and not x.startswith("<cond>") and rng.random() < 0.25:
            rhs = g.objarr()
        if sub is None and not loops and rng.random() < 0.1:
            rhs = ["call", "<func>arr_k", [g.int_expr(1)], []]
            x = rng.choice(ARRS)
        return ["assign", x, sub, rhs, loops]
    if c < 0.72:
        f = rng.choice(FUNCS)
        n = lang.nres_of(f)
        if rng.random() < 0.1:
            n += 1                     # arity mismatch: AssertionError
        xs = [rng.choice(["x", "y", "z", "<state>u", "w"]) for _ in range(n)]
        if "len" in f:
            args = [["var", rng.choice(ARRS + ["x"])]]
        else:
            args = [g.int_expr(2) for _ in range(rng.randint(0, 3))]
        kw = [[nm, g.int_expr(1)] for nm in rng.sample(["k", "key", "kw2"], rng.randint(0, 2))]
        if lookups and "len" not in f and rng.random() < 0.25:
            if kw and rng.random() < 0.5:
                kw[0][1] = g.objarr()
            else:
                args = args + [g.objarr()]
        if "arr" in f:
            xs = [rng.choice(ARRS)]
        return ["call", xs, f, args, kw]
    if lookups and c < 0.8:
        # an implicit solve (oracle-only stream: executed by the reference solver of lang.implicit_mixin);
        # the unknown is deliberately also an ordinary variable of the store and may occur in the guess
        sv = rng.choice(["x", "y", "sv"])
        gs = lang.Gen(rng, INTS + [sv], ARRS, FLAGS, FUNCS)
        expr = ["nary", "sum", [["var", sv], gs.int_expr(2)]]
        guess = rng.choice([["var", sv], gs.int_expr(1), ["int", 1]])
        params = [["guess", guess]] + ([["tol", g.int_expr(1)]] if rng.random() < 0.3 else [])
        return ["implicit", [rng.choice(["z", "w", "<state>u", sv])], [sv], [expr], params, "newton"]
    if c < 0.87:
        return ["yield", rng.choice(["y", "u"]), rng.choice(["final", "t1"]),
                rng.choice([["var", "<t>"], g.int_expr(1)]),
                g.objarr() if lookups and rng.random() < 0.25 else g.int_expr(3)]
    return rng.choice([["fail"], ["raise", "ValueError"], ["raise", "RuntimeError"], ["switch", "p2"], ["nop"]])


def gen_cond(rng, lookups=False):
    g = lang.Gen(rng, INTS, ARRS, FLAGS, FUNCS)
    g.lookup_nodes = lookups
    c = rng.random()
    if c < 0.35:
        return ["bool", True]
    if c < 0.6:
        return ["var", rng.choice(FLAGS)]
    if c < 0.75:
        return ["nary", "and", [["var", FLAGS[0]], ["not", ["var", FLAGS[1]]]]]
    return g.bool_expr(2)


def index_vars_expr(e):
    out = set()
    if e[0] == "bin" and e[1] == "sub":
        out |= lang.expr_vars(e[3])
    for c in e[1:]:
        if isinstance(c, list) and c and isinstance(c[0], str) and c[0] in (
                "int", "bool", "none", "var", "not", "if", "bin", "nary", "call"):
            out |= index_vars_expr(c)
        elif isinstance(c, list):
            for d in c:
                if isinstance(d, list) and d and isinstance(d[0], str) and d[0] in (
                        "int", "bool", "none", "var", "not", "if", "bin", "nary", "call"):
                    out |= index_vars_expr(d)
                elif isinstance(d, list) and len(d) == 2 and isinstance(d[1], list):
                    out |= index_vars_expr(d[1])
    return out


def index_vars(k):
    out = set()
    if k[0] == "assign":
        if k[2] is not None:
            out |= lang.expr_vars(k[2]) | index_vars_expr(k[2])
        out |= index_vars_expr(k[3])
        for _, lo, hi in k[4]:
            out |= index_vars_expr(lo) | index_vars_expr(hi)
    elif k[0] == "call":
        for e in k[3]:
            out |= index_vars_expr(e)
        for _, e in k[4]:
            out |= index_vars_expr(e)
    elif k[0] == "yield":
        out |= index_vars_expr(k[3]) | index_vars_expr(k[4])
    return out


def corpus():
    out = []
    d = os.path.join(common.VERIF, "corpus", PID)
    if os.path.isdir(d):
        for f in sorted(os.listdir(d)):
            if f.endswith(".json"):
                c = json.load(open(os.path.join(d, f)))
                out.append((c["store"], c["cond"], c["kind"]))
    return out


def gen_cases(tier, seed):
    rng = random.Random(seed * 1000003 + 8)
    n = 2500 if tier == "quick" else 40000
    cases = corpus()
    for i in range(n):
        lk = (i % 6 == 5)        # every sixth case may contain attribute lookups (oracle only)
        st, c, k = gen_store(rng), gen_cond(rng, lk), gen_kind(rng, lk)
        if k[0] == "implicit" and rng.random() < 0.4:
            c = ["bin", "gt", ["var", k[2][0]], ["int", rng.randint(-1, 2)]]     # the guard reads the unknown's name
        if k[0] == "nop":
            c = ["bool", True]     # dagrt.language.Nop carries no condition
        # numpy gives `a[None]` (an unset index variable) a meaning of its own (newaxis): keep
        # every variable used inside a subscript defined
        for v in index_vars(k) | index_vars_expr(c):
            if v not in st and v not in kind_loopvars(k):
                st[v] = ["int", rng.randint(0, 1)]
        # Assign.__init__ flattens its right-hand side: read the statement back
        real = lang.kind_to_real(k, cond=c, sid="s0")
        k = lang.kind_from_real(real)
        c = lang.from_pym(real.condition)
        cases.append((st, c, k))
    return cases


# ------------------------------------------------------------------ running the implementation

def kind_loopvars(kind):
    return [lp[0] for lp in kind[4]] if kind[0] == "assign" else []


def universe(store, cond, kind):
    u = set(store) | lang.expr_vars(cond)
    if kind[0] == "assign":
        u |= {kind[1]} | lang.expr_vars(kind[3]) | (lang.expr_vars(kind[2]) if kind[2] else set())
        for i, lo, hi in kind[4]:
            u |= {i} | lang.expr_vars(lo) | lang.expr_vars(hi)
    elif kind[0] == "call":
        u |= set(kind[1])
        for e in kind[3]:
            u |= lang.expr_vars(e)
        for _, e in kind[4]:
            u |= lang.expr_vars(e)
    elif kind[0] == "yield":
        u |= lang.expr_vars(kind[3]) | lang.expr_vars(kind[4])
    elif kind[0] == "implicit":
        u |= set(kind[1]) | set(kind[2])
        for e in kind[3]:
            u |= lang.expr_vars(e)
        for _, e in kind[4]:
            u |= lang.expr_vars(e)
    return sorted(u)


def run_impl(store, cond, kind):
    """Execute one statement with the real interpreter.  Returns a dict (JSON-able)."""
    from dagrt.exec_numpy import FailStepException, NumpyInterpreter, TransitionEvent
    from dagrt.language import DAGCode, ExecutionPhase, Nop
    from pymbolic.mapper import IdentityMapper
    stmt = lang.kind_to_real(kind, cond=cond, sid="s0")
    code = DAGCode({"p": ExecutionPhase("p", "p", frozenset([Nop(id="n")]))}, "p")
    interp = lang.implicit_mixin(NumpyInterpreter)(code, lang.function_map(FUNCS))
    ctx = lang.RecDict({k: lang.val_to_py(v) for k, v in store.items()})
    ctx.log = []
    interp.context = ctx
    interp.eval_mapper.context = ctx
    before = {k: copy.deepcopy(v) for k, v in dict.items(ctx)}
    ev = None
    try:
        if interp.evaluate_condition(stmt):
            res = getattr(interp, stmt.exec_method)(stmt)
            if res is not None and res[0] is not None:
                e = res[0]
                ev = [e.component_id, e.time_id, lang.canon_val(e.t), lang.canon_val(e.state_component)]
        out = ["next"]
    except FailStepException:
        out = ["fail"]
    except TransitionEvent as t:
        out = ["switch", t.next_phase]
    except lang.UserFunctionError:
        out = ["user"]
    except Exception as ex:  # noqa: BLE001
        if kind[0] == "raise" and type(ex) is lang.RAISE_CLASSES[kind[1]]:
            out = ["raise", kind[1]]
        else:
            out = ["crash", type(ex).__name__]
    after = {k: lang.canon_val(v) for k, v in dict.items(ctx)}
    changed = sorted(k for k in set(before) | set(after)
                     if k not in after or k not in before or lang.canon_val(before[k]) != after[k])
    r = {"out": out, "event": ev, "after": after, "log": ctx.canon_log(), "changed": changed,
         "reads": sorted(stmt.get_read_variables()), "writes": sorted(stmt.get_written_variables())}
    try:
        m = stmt.map_expressions(IdentityMapper())
        r["id_reads"] = sorted(m.get_read_variables())
        r["id_writes"] = sorted(m.get_written_variables())
    except Exception as ex:  # noqa: BLE001
        r["id_error"] = type(ex).__name__
    return r


def oracle(store, cond, kind, r):
    """The property, decided on the implementation's own answers."""
    R, W, L = set(r["reads"]), set(r["writes"]), set(kind_loopvars(kind))
    bad_reads = sorted({k for op, k in r["log"] if op == "rd"} - R - W - L)
    obs_writes = {k for op, k in r["log"] if op == "wr"} | set(r["changed"])
    bad_writes = sorted(obs_writes - W - L)
    if bad_reads:
        return {"kind": "undeclared_read", "variables": bad_reads}
    if bad_writes:
        return {"kind": "undeclared_write", "variables": bad_writes}
    if "id_error" in r:
        return {"kind": "identity_map_raises", "exception": r["id_error"]}
    if r["id_reads"] != r["reads"] or r["id_writes"] != r["writes"]:
        return {"kind": "identity_map_changes_sets", "before": [r["reads"], r["writes"]],
                "after": [r["id_reads"], r["id_writes"]]}
    return None


def where(kind, variables):
    """which part of the statement mentions the undeclared variable (finding class)"""
    if kind[0] != "assign" or not variables:
        return ""
    v = variables[0]
    if kind[2] is not None and v in lang.expr_vars(kind[2]):
        return "lhs_subscript"
    if any(v in lang.expr_vars(lo) | lang.expr_vars(hi) for _, lo, hi in kind[4]):
        return "loop_bound"
    return "other"


def has_lookup(c):
    t = json.dumps([c[1], c[2]])
    return '"lookup"' in t or '"nparr"' in t or c[2][0] == "implicit"


def in_model_universe(store, r):
    return all(v[0] != "other" for v in r["after"].values()) and \
        (r["event"] is None or (r["event"][2][0] != "other" and r["event"][3][0] != "other"))


def case_term(store, cond, kind, r):
    univ = universe(store, cond, kind)
    o = r["out"]
    if o[0] == "next":
        vals = "; ".join(("Some %s" % lang.val_to_coq(r["after"][v])) if v in r["after"] else "None" for v in univ)
        ev = "None" if r["event"] is None else "(Some (EvYield %s %s %s %s))" % (
            lang.coq_str(r["event"][0]), lang.coq_str(r["event"][1]),
            lang.val_to_coq(r["event"][2]), lang.val_to_coq(r["event"][3]))
        x = "(XNext [%s] %s)" % (vals, ev)
    elif o[0] == "fail":
        x = "XFail"
    elif o[0] == "switch":
        x = "(XSwitch %s)" % lang.coq_str(o[1])
    elif o[0] == "raise":
        x = "(XRaise %s)" % lang.coq_str(o[1])
    elif o[0] == "user":
        x = "XUser"
    else:
        x = "XCrash"
    acc = "None" if o[0] in ("crash", "user") else "(Some [%s])" % "; ".join(lang.access_to_coq(a) for a in r["log"])
    return "(Build_case8 %s %s [%s] %s %s [%s] [%s])" % (
        lang.store_to_coq(store), lang.stmt_to_coq(0, [], cond, kind),
        "; ".join(lang.coq_str(v) for v in univ), x, acc,
        "; ".join(lang.coq_str(v) for v in r["reads"]), "; ".join(lang.coq_str(v) for v in r["writes"]))


def shrink_case(store, cond, kind, okind):
    """Drop store entries / loops / simplify the guard while the oracle still fails the same way."""
    def fails(s, c, k):
        o = oracle(s, c, k, run_impl(s, c, k))
        return o is not None and o["kind"] == okind
    changed = True
    while changed:
        changed = False
        if cond != ["bool", True] and fails(store, ["bool", True], kind):
            cond, changed = ["bool", True], True
        for key in sorted(store):
            s2 = {k: v for k, v in store.items() if k != key}
            if fails(s2, cond, kind):
                store, changed = s2, True
        if kind[0] == "assign" and kind[3] != ["int", 1]:
            k2 = kind[:3] + [["int", 1]] + kind[4:]
            if fails(store, cond, k2):
                kind, changed = k2, True
        if kind[0] == "assign" and len(kind[4]) > 1:
            for i in range(len(kind[4])):
                k2 = kind[:4] + [kind[4][:i] + kind[4][i + 1:]]
                if fails(store, cond, k2):
                    kind, changed = k2, True
                    break
    return store, cond, kind


KNOWN_CLASSES = {}


def main(tier):
    rep = common.Reporter(PID, tier)
    seed = common.seed()
    ps = common.proof_stage(rep, PID, gen=["lang"])

    cases = gen_cases(tier, seed)
    results = [run_impl(*c) for c in cases]

    failing = {}
    for c, r in zip(cases, results):
        o = oracle(c[0], c[1], c[2], r)
        if o is not None:
            key = o["kind"] + ":" + c[2][0] + ":" + where(c[2], o.get("variables", []))
            sz = len(json.dumps(c))
            if key not in failing or sz < failing[key][0]:
                failing[key] = (sz, c, o)
    for key, (_, c, o) in sorted(failing.items()):
        s2, c2, k2 = shrink_case(c[0], c[1], c[2], o["kind"])
        r2 = run_impl(s2, c2, k2)
        rep.violation({"what": "a statement touches a variable outside its declared read/write sets "
                               "(or the identity mapping changes the sets)",
                       "store": s2, "cond": c2, "kind": k2, "statement": str(lang.kind_to_real(k2, cond=c2, sid="s0")),
                       "declared_reads": r2["reads"], "declared_writes": r2["writes"],
                       "recorded_accesses": r2["log"], "oracle": oracle(s2, c2, k2, r2)})

    # correspondence with the Coq model
    idx = [i for i, (c, r) in enumerate(zip(cases, results)) if in_model_universe(c[0], r) and not has_lookup(c)]
    mism, n_eval, errors = [], 0, []
    if os.path.exists(os.path.join(common.COQ, "model", "LangCheck.vo")) and \
            os.path.exists(os.path.join(common.COQ, "gen", "GenLang.vo")):
        terms = [case_term(*cases[i], results[i]) for i in idx]
        mism, n_eval, errors = common.eval_cases(PID, HEADER, terms, "chk", shard=250)
        mism = [idx[i] for i in mism]
    else:
        errors = ["model not built"]
    tie_broken = bool(mism or errors)
    if (not ps["ok"] or tie_broken) and not rep.violations:
        detail = {"what": "proof obligation or model/implementation correspondence no longer checks; "
                          "no failing input found by the implementation-level oracle",
                  "proof_stage": ps, "coq_errors": errors[:3], "n_disagreements": len(mism)}
        if mism:
            i = mism[0]
            detail["first_disagreeing_case"] = {"store": cases[i][0], "cond": cases[i][1], "kind": cases[i][2],
                                                "impl": results[i]}
        detail["broken"] = ("theorem file %s" % ps.get("theorem")) if not ps["ok"] else \
            "correspondence NumpyInterpreter.exec_* / get_read_variables ~ Dagrt.Lang.exec_stmt / reads / writes"
        rep.violation(detail, no_input=True)
    elif not ps["ok"] or tie_broken:
        rep.coverage["broken_obligation"] = ps if not ps["ok"] else {"disagreements": len(mism)}

    kinds = {}
    outs = {}
    for c, r in zip(cases, results):
        kk = c[2][0] + ("+loops" if c[2][0] == "assign" and c[2][4] else "") + \
            ("+sub" if c[2][0] == "assign" and c[2][2] else "")
        kinds[kk] = kinds.get(kk, 0) + 1
        ok = r["out"][0] + (":" + r["out"][1] if r["out"][0] == "crash" else "")
        outs[ok] = outs.get(ok, 0) + 1
    distinct = len({json.dumps([c[1], c[2]]) for c, r in zip(cases, results)
                    if r["out"][0] != "crash" and (r["log"])})
    rep.coverage.update(
        evaluations=len(cases), distinct_nontrivial=distinct,
        rule="random (store, guard, statement) triples over all statement kinds; non-trivial = the statement "
             "does not crash and touches the store at least once; distinct by (guard, statement)",
        traces_validated_against_impl=n_eval, model_impl_disagreements=len(mism),
        outside_model_universe=len(cases) - len(idx),
        input_distribution={"statement_kinds": kinds, "outcomes": outs},
        samples=[{"store": cases[i][0], "statement": str(lang.kind_to_real(cases[i][2], cond=cases[i][1], sid="s0")),
                  "impl": {k: results[i][k] for k in ("out", "log", "reads", "writes")}}
                 for i in (0, len(cases) // 2, len(cases) - 1)],
    )
    rep.assumptions = ["A1 value semantics for arrays (no aliasing)", "integer/bool/None/int-array data only",
                       "user functions are pure (test oracle)"]
    return rep.finish("proof")


def replay(path):
    r = json.load(open(path))
    if "kind" not in r:
        print("replay names a broken obligation, no input: %s" % r.get("broken"))
        return 1
    res = run_impl(r["store"], r["cond"], r["kind"])
    o = oracle(r["store"], r["cond"], r["kind"], res)
    print(json.dumps({"impl": res, "oracle": o}, indent=1))
    return 1 if o is not None else 0
