"""C01: the NumPy interpreter and the class emitted by the Python code generator both
implement the written program.

Tie: multi-phase builder programs are driven through the real CodeBuilder, run by the real
NumpyInterpreter and by the class from the real PythonCodeGenerator (events, persistent state
and next_phase after every step, how the run ends), and compared with coq/model/Stepper.v
(`run` over Builder.build in PROGRAM ORDER) evaluated by vm_compute.
Oracle (independent of the model): the two backends must agree with each other event by
event and state by state (programs that read unset per-step storage excluded, see H-def).
"""
import json
import os
import random

from harness import c02, common, lang

PID = "C01"
HEADER = ("From Coq Require Import List ZArith String Bool.\nImport ListNotations.\n"
          "From Dagrt Require Import GenLang Lang TestOracle LangCheck Builder Sched SchedCheck Stepper StepperCheck.\n"
          "Open Scope string_scope.\nOpen Scope Z_scope.\n"
          "Definition chk := chk1 lang_del_guarded lang_lhs_sub_reads lang_loop_bound_reads "
          "(is_state_of state_exact state_prefixes) exec_state_token "
          "(keep_of interp_keep_exact interp_keep_prefixes) (keep_of state_exact state_prefixes).\n")

FUNCS = ["<func>f", "<func>g2", "<func>raise_h", "<func>p0"]
PERSIST_INT = ["<state>u", "<state>v", "<p>n"]
PERSIST_ARR = ["<state>b"]
TEMPS = ["x", "y", "z", "w"]
MAX_EVENTS = 40


# ------------------------------------------------------------------ program generation

class PhaseGen:
    """Generates one phase as a builder program in which no expression reads storage that is
    unset at that moment (H-def): `avail` tracks what is certainly assigned."""

    def __init__(self, rng, phase_names, avail_persist, raising, pow_nodes=False):
        self.rng = rng
        self.pow_nodes = pow_nodes
        self.names = phase_names
        self.prog = []
        self.avail = set(avail_persist) | {"<t>", "<dt>"}
        self.top_assigned = set()
        self.raising = raising

    def gen(self, pool):
        ints = [v for v in pool if v in self.avail and v not in PERSIST_ARR]
        arrs = [v for v in PERSIST_ARR if v in self.avail]
        funcs = FUNCS if self.raising else [f for f in FUNCS if "raise" not in f]
        return lang.Gen(self.rng, ints or ["<t>"], arrs, [], funcs, pow_nodes=self.pow_nodes)

    def stmt(self, depth):
        r = self.rng
        pool = PERSIST_INT + TEMPS + ["<t>", "<dt>"]
        g = self.gen(pool)
        c = r.random()
        if c < 0.5:
            tgt = r.choice(PERSIST_INT + TEMPS + TEMPS)
            loops = []
            if r.random() < 0.2:
                # loop bounds may read anything available, per-step variables set only under the same guard
                # and user-function calls included (fixed finding guarded_loop_bound_evaluated: generated
                # code used to evaluate the bounds of a guarded looped assignment even when its guard was false)
                pv = [v for v in PERSIST_INT + TEMPS if v in self.avail] or ["<dt>"]
                hi = r.choice([["int", 2], ["int", 0], ["nary", "min", [["var", r.choice(pv)], ["int", 3]]],
                               ["nary", "min", [g.int_expr(1), ["int", 3]]]])
                loops = [["i", ["int", 0], hi]]
                g.loopvars = ["i"]
                if tgt in self.avail and r.random() < 0.7:
                    rhs = ["nary", "sum", [["var", tgt], g.int_expr(1)]]
                else:
                    rhs = g.int_expr(1)
            else:
                rhs = g.int_expr(2)
            if rhs[0] == "call":
                rhs = ["nary", "sum", [rhs, ["int", 0]]]
            rhs = ["bin", "rem", rhs, ["int", 97]]
            k = ["assign", tgt, None, rhs, loops]
            self.add(k)
            if not loops or loops[0][2] == ["int", 2]:
                self.mark(tgt, depth)
        elif c < 0.58 and "<state>b" in self.avail:
            g.loopvars = ["i"]
            k = ["assign", "<state>b", ["var", "i"], ["bin", "rem", ["nary", "sum", [g.int_expr(1), ["var", "i"]]],
                                                       ["int", 97]],
                 [["i", ["int", 0], ["int", 2]]]]
            self.add(k)
        elif c < 0.68:
            f = r.choice([f for f in (FUNCS if self.raising else FUNCS[:2] + FUNCS[3:])])
            n = lang.nres_of(f)
            xs = r.sample(TEMPS + ["<state>v"], n) if n else []
            # arguments are kept small: a persistent result fed back through a product would square every step
            # (run to t_end may take 40 steps), and Python integers then grow until the check stalls
            def small(e):
                return ["bin", "rem", e, ["int", 97]]
            k = ["call", xs, f, [small(g.int_expr(1)) for _ in range(r.randint(0, 2))],
                 [["k", small(g.int_expr(1))]] if r.random() < 0.3 else []]
            self.add(k)
            for x in xs:
                self.mark(x, depth)
        elif c < 0.84:
            self.add(["yield", r.choice(["u", "v"]), r.choice(["final", "mid"]), ["var", "<t>"], g.int_expr(2)])
        elif c < 0.9 and depth > 0:
            self.add(["fail"])
        elif c < 0.96 and depth > 0:
            self.add(["switch", r.choice(self.names)])
        elif depth > 0 and r.random() < 0.3:
            self.add(["raise", r.choice(["ValueError", "RuntimeError"])])
        else:
            self.add(["assign", "<t>", None, ["nary", "sum", [["var", "<t>"], ["var", "<dt>"]]], []])

    def add(self, k):
        k = lang.kind_from_real(lang.kind_to_real(k))
        # every third statement or so is handed to the builder with its expressions as text
        self.prog.append(["stmt", k, "text"] if self.rng.random() < 0.3 and c02.textable(k) else ["stmt", k])

    def mark(self, name, depth):
        if depth == 0:
            self.avail.add(name)
            self.top_assigned.add(name)
        else:
            self.avail.add(name)      # available for the rest of this block (restored on exit)

    def block(self, n, depth):
        r = self.rng
        for _ in range(n):
            if r.random() < 0.08 and depth < 1:
                # an if_ whose body holds a nested if_ closed without an else_, followed by the else_ of
                # the outer block (the else_ must complement the OUTER condition)
                g = self.gen(PERSIST_INT + TEMPS + ["<t>"])
                saved = set(self.avail)
                self.prog.append(["if", c02.norm_expr(g.bool_expr(1))])
                self.stmt(depth + 1)
                self.prog.append(["if", c02.norm_expr(g.bool_expr(1))])
                self.stmt(depth + 2)
                self.prog.append(["endif"])
                self.avail = set(saved)
                self.prog.append(["endif"])
                self.prog.append(["else"])
                self.stmt(depth + 1)
                self.prog.append(["endelse"])
                self.avail = set(saved)
            elif r.random() < 0.2 and depth < 2:
                g = self.gen(PERSIST_INT + TEMPS + ["<t>"])
                cond = c02.norm_expr(g.bool_expr(1))
                if r.random() < 0.25:
                    bare = [v for v in PERSIST_INT + TEMPS if v in self.avail]
                    if bare:
                        cond = ["var", r.choice(bare)]
                saved = set(self.avail)
                self.prog.append(["if", cond, c02.if_form(r, cond)])
                self.block(r.randint(1, 3), depth + 1)
                self.prog.append(["endif"])
                self.avail = set(saved)
                if r.random() < 0.4:
                    self.prog.append(["else"])
                    self.block(r.randint(1, 2), depth + 1)
                    self.prog.append(["endelse"])
                    self.avail = set(saved)
            else:
                self.stmt(depth)


def has_pow(case):
    return '"pow"' in json.dumps(case["phases"])


def gen_dag(rng, raising=False, pow_nodes=False):
    nph = rng.choice([1, 1, 2, 2, 3])
    names = rng.sample(["main", "alpha", "zeta", "init2"], nph)
    avail = {"<state>u", "<state>v", "<state>b"}
    phases = []
    for i, nm in enumerate(names):
        pg = PhaseGen(rng, names, avail, raising, pow_nodes)
        if i == 0:
            pg.prog.append(["stmt", ["assign", "<p>n", None, ["int", rng.randint(0, 3)], []]])
            pg.avail.add("<p>n")
        pg.block(rng.randint(2, 7), 0)
        if rng.random() < 0.8:
            pg.prog.append(["stmt", ["assign", "<t>", None, ["nary", "sum", [["var", "<t>"], ["var", "<dt>"]]], []]])
        if i == 0:
            avail = avail | {"<p>n"}
        phases.append([nm, rng.choice(names), pg.prog])
    # the first phase always runs first; later phases may be entered only after it
    init = {"u": ["int", rng.randint(-2, 5)], "v": ["int", rng.randint(0, 3)],
            "b": ["arr", [rng.randint(-3, 9) for _ in range(2)]]}
    mode = rng.choice(["steps", "steps", "time"])
    lim = rng.randint(1, 5) if mode == "steps" else rng.randint(1, 4)
    return {"phases": phases, "first": names[0], "init": init, "mode": mode, "limit": lim}


# ------------------------------------------------------------------ running the implementations

def build_code(case):
    from dagrt.language import DAGCode
    phases = {}
    for nm, nxt, prog in case["phases"]:
        cb = c02.replay_program(prog)
        cb.name = nm
        phases[nm] = _phase_named(cb, nm, nxt)
    return DAGCode(phases=phases, initial_phase=case["first"])


def _phase_named(cb, nm, nxt):
    """Statement ids must be unique across phases for the code generators: rebuild the program with a
    builder carrying the phase name."""
    return cb.as_execution_phase(nxt)


def replay_named(prog, nm):
    from dagrt.language import CodeBuilder
    cb = CodeBuilder(nm)
    stack = []
    for c in prog:
        if c[0] == "stmt":
            c02.add_call(cb, c)
        elif c[0] == "if":
            ctx = c02.open_if(cb, c)
            ctx.__enter__()
            stack.append(ctx)
        elif c[0] in ("endif", "endelse"):
            stack.pop().__exit__(None, None, None)
        elif c[0] == "else":
            ctx = cb.else_()
            ctx.__enter__()
            stack.append(ctx)
        elif c[0] == "fresh":
            cb.fresh_var_name(c[1])
    return cb


def make_code(case):
    from dagrt.language import DAGCode
    phases = {}
    for nm, nxt, prog in case["phases"]:
        phases[nm] = replay_named(prog, nm).as_execution_phase(nxt)
    if len(phases) % 2 == 0:
        return DAGCode.from_phases_list(list(phases.values()), case["first"])     # the other constructor
    return DAGCode(phases=phases, initial_phase=case["first"])


def persistent_names(case):
    names = {"<t>", "<dt>"}
    for _, _, prog in case["phases"]:
        for c in prog:
            if c[0] == "stmt":
                names |= {v for v in c02.stmt_vars(c[1]) if v.startswith("<")}
            if c[0] == "if":
                names |= {v for v in lang.expr_vars(c[1]) if v.startswith("<")}
    # persistent variables the program never mentions are not stored by the generated class at all
    # (set_up copies only the names the generator has seen); they cannot influence any event
    return sorted(n for n in names if not n.startswith("<cond>") and not n.startswith("<func>"))


def consume(stepper, snapshot, case, StepCompleted, StepFailed, StateComputed):
    """Drive run(); returns the JSON-able observation."""
    kw = {"max_steps": case["limit"]} if case["mode"] == "steps" else {"t_end": case["limit"]}
    evs = []
    end = ["cut"]
    try:
        it = stepper.run(**kw)
        while True:
            if len([e for e in evs if e[0] != "yield"]) >= MAX_EVENTS:
                break
            try:
                e = next(it)
            except StopIteration:
                end = ["steps"] if case["mode"] == "steps" else ["time"]
                break
            if isinstance(e, StateComputed):
                evs.append(["yield", e.component_id, e.time_id, lang.canon_val(e.t), lang.canon_val(e.state_component)])
            elif isinstance(e, StepCompleted):
                cur = getattr(e, "current_state", None) or getattr(e, "current_phase", None)
                evs.append(["completed", lang.canon_val(e.dt), lang.canon_val(e.t), cur, e.next_phase, snapshot()])
            elif isinstance(e, StepFailed):
                evs.append(["failed", lang.canon_val(e.t), snapshot()])
            else:
                evs.append(["other", repr(e)])
    except lang.UserFunctionError:
        end = ["user"]
    except Exception as ex:  # noqa: BLE001
        nm = type(ex).__name__
        if nm in lang.RAISE_CLASSES and type(ex) is lang.RAISE_CLASSES[nm]:
            end = ["raised", nm]
        elif nm == "StepError":
            end = ["raised", ex.condition]
        else:
            end = ["crash", nm]
    return {"events": evs, "end": end, "next": stepper.next_phase, "final": snapshot()}


def run_interp(case, code, obs):
    from dagrt.exec_numpy import NumpyInterpreter, StateComputed, StepCompleted, StepFailed
    orders = []

    class Rec(NumpyInterpreter):
        def run_single_step(self):
            orders.append([self.next_phase, []])
            yield from super().run_single_step()

        def evaluate_condition(self, stmt):
            orders[-1][1].append(int(stmt.id.rsplit("_", 1)[1]))
            return super().evaluate_condition(stmt)
    interp = Rec(code, lang.function_map(FUNCS))
    ctx = lang.RecDict()
    interp.context = ctx
    interp.eval_mapper.context = ctx
    interp.set_up(t_start=0, dt_start=1, context={k: lang.val_to_py(v) for k, v in case["init"].items()})

    def snapshot():
        return [lang.canon_val(dict.get(ctx, n)) if dict.__contains__(ctx, n) else None for n in obs]
    r = consume(interp, snapshot, case, StepCompleted, StepFailed, StateComputed)
    # H-def: did any expression read storage that was unset at that moment?
    r["leftover"] = sorted(k for k in dict.keys(ctx) if k not in obs)
    r["orders"] = orders
    return r


def run_codegen(case, code, obs):
    from dagrt.codegen import PythonCodeGenerator
    cg = PythonCodeGenerator(class_name="Method")
    cls = cg.get_class(code)
    m = cls(lang.function_map(FUNCS))
    m.set_up(t_start=0, dt_start=1, context={k: lang.val_to_py(v) for k, v in case["init"].items()})
    nm = cg._name_manager

    def attr(n):
        ident = nm.name_global(n)
        assert ident.startswith("self.")
        return ident[5:]

    def snapshot():
        out = []
        for n in obs:
            a = attr(n)
            out.append(lang.canon_val(getattr(m, a)) if hasattr(m, a) else None)
        return out
    r = consume(m, snapshot, case, cls.StepCompleted, cls.StepFailed, cls.StateComputed)
    # the order of the leaves of the tree the generator walked, per phase
    from dagrt.codegen.dag_ast import create_ast_from_phase, get_statements_in_ast
    r["orders"] = [[nm, [int(s.id.rsplit("_", 1)[1]) for s in get_statements_in_ast(create_ast_from_phase(code, nm))]]
                   for nm in code.phases]
    return r


def reads_unset(case, code):
    """run the interpreter on a store that records reads of missing names (H-def violations)"""
    from dagrt.exec_numpy import NumpyInterpreter

    class Spy(dict):
        hit = False

        def __contains__(self, k):
            r = dict.__contains__(self, k)
            if not r and not k.startswith("<func>") and k not in ("i", "j"):
                Spy.hit = True
            return r
    Spy.hit = False
    interp = NumpyInterpreter(code, lang.function_map(FUNCS))
    ctx = Spy()
    interp.context = ctx
    interp.eval_mapper.context = ctx
    interp.set_up(t_start=0, dt_start=1, context={k: lang.val_to_py(v) for k, v in case["init"].items()})
    kw = {"max_steps": case["limit"]} if case["mode"] == "steps" else {"t_end": case["limit"]}
    try:
        n = 0
        for _e in interp.run(**kw):
            n += 1
            if n > 4 * MAX_EVENTS:
                break
    except Exception:  # noqa: BLE001
        pass
    return Spy.hit


def natural_dag_run(case, obs):
    """The written program carried out step by step (c02.natural_run per phase body; only <state>, <p>, <t>,
    <dt> outlive a step).  Independent of the builder's bookkeeping, the controller, the lowering and both
    stepping loops."""
    progs = {nm: (nxt, prog) for nm, nxt, prog in case["phases"]}
    store = dict({"<state>" + k: v for k, v in case["init"].items()}, **{"<t>": ["int", 0], "<dt>": ["int", 1]})
    nxt = case["first"]
    evs, end, n_steps = [], ["cut"], 0

    def snap():
        return [store.get(n) for n in obs]
    while True:
        if len([e for e in evs if e[0] != "yield"]) >= MAX_EVENTS:
            break
        if case["mode"] == "time":
            t = store.get("<t>")
            if t is None or t[0] not in ("int", "bool"):
                end = ["crash", "TypeError"]
                break
            if t[1] >= case["limit"]:
                end = ["time"]
                break
        if case["mode"] == "steps" and n_steps >= case["limit"]:
            end = ["steps"]
            break
        cur = nxt
        if cur not in progs:
            end = ["crash", "KeyError"]
            break
        nxt = progs[cur][0]
        r = c02.natural_run(progs[cur][1], store)
        store = {k: v for k, v in r["store"].items()
                 if k in ("<t>", "<dt>") or k.startswith("<state>") or k.startswith("<p>")}
        evs += [["yield"] + e for e in r["events"]]
        st = r["status"]
        if st[0] == "crash":
            end = ["user"] if st[1] == "user" else ["crash", st[1]]
            break
        if st[0] == "stop" and st[1] == "raise":
            end = ["raised", st[2]]
            break
        if st[0] == "stop" and st[1] == "fail":
            evs.append(["failed", store.get("<t>"), snap()])
            continue
        if st[0] == "stop" and st[1] == "switch":
            nxt = st[2]
        evs.append(["completed", store.get("<dt>"), store.get("<t>"), cur, nxt, snap()])
        n_steps += 1
    return {"events": evs, "end": end, "next": nxt, "final": snap()}


def canon_obs(r):
    """None snapshot entries (unset) and ['none'] (None value) are different in the interpreter (key missing
    vs value None) but indistinguishable in generated code (attribute set to None by set_up)."""
    def cv(v):
        return ["none"] if v is None else v
    evs = []
    for e in r["events"]:
        if e[0] == "completed":
            evs.append(e[:5] + [[cv(v) for v in e[5]]])
        elif e[0] == "failed":
            evs.append(e[:2] + [[cv(v) for v in e[2]]])
        else:
            evs.append(e)
    return {"events": evs, "end": r["end"][:1] if r["end"][0] == "crash" else r["end"], "next": r["next"],
            "final": [cv(v) for v in r["final"]]}


def differ(a, b):
    """the persistent state right after an escaping exception may depend on the order in which
    independent statements ran (each backend picks its own; C11 states what holds): not compared"""
    if a["end"][0] in ("user", "crash") or b["end"][0] in ("user", "crash"):
        # two independent statements may both raise: which exception escapes depends on the order too
        def exn(e):
            return ["exception"] if e[0] in ("user", "crash") else e
        a, b = dict(a, final=None, end=exn(a["end"])), dict(b, final=None, end=exn(b["end"]))
    return a != b


def oracle(case):
    try:
        code = make_code(case)
    except Exception as ex:  # noqa: BLE001
        o = {"kind": "builder_raises", "exception": "%s: %s" % (type(ex).__name__, ex)}
        empty = {"events": [], "end": ["crash", "builder"], "next": case["first"], "final": [], "orders": []}
        return o, empty, dict(empty), [], False
    obs = persistent_names(case)
    ri = run_interp(case, code, obs)
    try:
        rg = run_codegen(case, code, obs)
    except Exception as ex:  # noqa: BLE001
        rg = {"events": [], "end": ["codegen_failed", type(ex).__name__, str(ex)[:200]], "next": None, "final": []}
    hdef = not reads_unset(case, code)
    o = None
    if rg["end"][0] == "codegen_failed":
        o = {"kind": "codegen_failed", "detail": rg["end"]}
    elif differ(canon_obs(ri), canon_obs(natural_dag_run(case, obs))):
        a, b = canon_obs(ri), canon_obs(natural_dag_run(case, obs))
        first = next((i for i, (x, y) in enumerate(zip(a["events"], b["events"])) if x != y), None)
        o = {"kind": "interpreter_differs_from_written_program", "first_differing_event": first,
             "interpreter": {"event": a["events"][first] if first is not None and first < len(a["events"]) else None,
                             "end": a["end"], "n_events": len(a["events"]), "final": a["final"], "next": a["next"]},
             "as_written": {"event": b["events"][first] if first is not None and first < len(b["events"]) else None,
                            "end": b["end"], "n_events": len(b["events"]), "final": b["final"], "next": b["next"]}}
    elif hdef and differ(canon_obs(ri), canon_obs(rg)):
        a, b = canon_obs(ri), canon_obs(rg)
        first = next((i for i, (x, y) in enumerate(zip(a["events"], b["events"])) if x != y), None)
        o = {"kind": "backends_differ", "first_differing_event": first,
             "interpreter": {"event": a["events"][first] if first is not None and first < len(a["events"]) else None,
                             "end": a["end"], "n_events": len(a["events"]), "final": a["final"], "next": a["next"]},
             "generated": {"event": b["events"][first] if first is not None and first < len(b["events"]) else None,
                           "end": b["end"], "n_events": len(b["events"]), "final": b["final"], "next": b["next"]}}
    elif not hdef and differ(canon_obs(ri), canon_obs(rg)):
        # an expression read storage that was unset at that moment and the backends went different ways
        a, b = canon_obs(ri), canon_obs(rg)
        o = {"kind": "backends_differ_on_unset_read",
             "interpreter": {"end": a["end"], "n_events": len(a["events"])},
             "generated": {"end": b["end"], "n_events": len(b["events"])}}
    return o, ri, rg, obs, hdef


# ------------------------------------------------------------------ Coq terms

def oval(v):
    return "None" if v is None else "(Some %s)" % lang.val_to_coq(v)


def xrun_to_coq(r):
    evs = []
    for e in r["events"]:
        if e[0] == "yield":
            evs.append("SYield (EvYield %s %s %s %s)" % (lang.coq_str(e[1]), lang.coq_str(e[2]),
                                                         lang.val_to_coq(e[3]), lang.val_to_coq(e[4])))
        elif e[0] == "completed":
            evs.append("SCompleted %s %s %s %s [%s]" % (oval(e[1]), oval(e[2]), lang.coq_str(e[3]), lang.coq_str(e[4]),
                                                        "; ".join(oval(v) for v in e[5])))
        elif e[0] == "failed":
            evs.append("SFailed %s [%s]" % (oval(e[1]), "; ".join(oval(v) for v in e[2])))
    end = r["end"]
    xe = {"steps": "XSteps", "time": "XTime", "user": "XUserExn", "crash": "XCrashExn", "cut": "XCut"}.get(end[0]) \
        or "(XRaisedK %s)" % lang.coq_str(end[1])
    return "(Some (Build_xrun [%s] %s %s [%s]))" % ("; ".join(evs), xe, lang.coq_str(r["next"]),
                                                     "; ".join(oval(v) for v in r["final"]))


def in_universe(r):
    def ok(v):
        return v is None or v[0] != "other"
    for e in r["events"]:
        if e[0] == "other":
            return False
        if e[0] == "yield" and not (ok(e[3]) and ok(e[4])):
            return False
        if e[0] == "completed" and not (ok(e[1]) and ok(e[2]) and all(ok(v) for v in e[5])):
            return False
        if e[0] == "failed" and not (ok(e[1]) and all(ok(v) for v in e[2])):
            return False
    return all(ok(v) for v in r["final"]) and r["end"][0] != "codegen_failed"


def none_to_unset(r, gen):
    """the generated class holds None for a persistent variable that was never set; the model has it unset"""
    if not gen:
        return r

    def cv(v):
        return None if v == ["none"] else v
    out = dict(r)
    out["events"] = []
    for e in r["events"]:
        if e[0] == "completed":
            out["events"].append(e[:1] + [cv(e[1]), cv(e[2])] + e[3:5] + [[cv(v) for v in e[5]]])
        elif e[0] == "failed":
            out["events"].append(e[:1] + [cv(e[1])] + [[cv(v) for v in e[2]]])
        else:
            out["events"].append(e)
    out["final"] = [cv(v) for v in r["final"]]
    return out


def case_term(case, ri, rg, obs, fuel, init_store=None):
    phases = "; ".join("(%s, %s, [%s])" % (lang.coq_str(nm), lang.coq_str(nxt),
                                           "; ".join(c02.bcall_to_coq(c) for c in prog))
                       for nm, nxt, prog in case["phases"])
    store = init_store if init_store is not None else \
        dict({"<state>" + k: v for k, v in case["init"].items()}, **{"<t>": ["int", 0], "<dt>": ["int", 1]})
    tend = "(Some %d)" % case["limit"] if case["mode"] == "time" else "None"
    mx = "(Some %d%%nat)" % case["limit"] if case["mode"] == "steps" else "None"
    def ords(r):
        if r is None or "orders" not in r:
            return "[]"
        return "[%s]" % "; ".join("(%s, [%s])" % (lang.coq_str(nm), "; ".join("%d%%nat" % i for i in ids))
                                  for nm, ids in r["orders"])
    return "(Build_case1 [%s] %s %s %s %s %d%%nat [%s] %s %s %s %s)" % (
        phases, lang.store_to_coq(store), lang.coq_str(case["first"]), tend, mx, fuel,
        "; ".join(lang.coq_str(n) for n in obs),
        xrun_to_coq(ri) if ri is not None else "None",
        xrun_to_coq(none_to_unset(rg, True)) if rg is not None else "None", ords(ri), ords(rg))


def attempts(r):
    return len([e for e in r["events"] if e[0] in ("completed", "failed")])


# ------------------------------------------------------------------ the check

def corpus():
    out = []
    d = os.path.join(common.VERIF, "corpus", PID)
    if os.path.isdir(d):
        for f in sorted(os.listdir(d)):
            if f.endswith(".json"):
                out.append(json.load(open(os.path.join(d, f)))["case"])
    return out


def shrink(case, kind):
    def fails(c):
        try:
            o = oracle(c)[0]
        except Exception:  # noqa: BLE001
            return False
        return o is not None and o["kind"] == kind
    changed = True
    while changed:
        changed = False
        for pi, (nm, nxt, prog) in enumerate(case["phases"]):
            for i in range(len(prog)):
                if prog[i][0] == "stmt":
                    cand = json.loads(json.dumps(case))
                    del cand["phases"][pi][2][i]
                    if fails(cand):
                        case, changed = cand, True
                        break
            if changed:
                break
        if not changed and case["limit"] > 1:
            cand = dict(case, limit=case["limit"] - 1)
            if fails(cand):
                case, changed = cand, True
    return case


def guarded_loop_bound(case):
    """a looped assignment inside an if_/else_ block whose loop bounds mention a per-step variable or call"""
    for _, _, prog in case["phases"]:
        depth = 0
        for c in prog:
            if c[0] in ("if", "else"):
                depth += 1
            elif c[0] in ("endif", "endelse"):
                depth -= 1
            elif c[0] == "stmt" and depth > 0 and c[1][0] == "assign" and c[1][4]:
                for _, lo, hi in c[1][4]:
                    txt = json.dumps([lo, hi])
                    if '"call"' in txt or any(not v.startswith("<") for v in lang.expr_vars(lo) | lang.expr_vars(hi)):
                        return True
    return False


def classify_known(o, case):
    """narrow matchers for the listed open findings (known_findings.json)"""
    if o and o.get("kind") == "backends_differ_on_unset_read" and o["generated"]["end"][0] == "crash":
        # the generated class raises (UnboundLocalError) where the interpreter carried on with None, or raised
        # something else later because of that None
        for f in common.known_findings(PID):
            if f.get("class") == "unset_temporary_read":
                return f
    if o and o.get("kind") == "backends_differ" and guarded_loop_bound(case) \
            and o["generated"]["end"][0] == "crash" and o["interpreter"]["end"][0] != "crash":
        for f in common.known_findings(PID):
            if f.get("class") == "guarded_loop_bound_evaluated":
                return f
    return None


def main(tier):
    rep = common.Reporter(PID, tier)
    seed = common.seed()
    ps = common.proof_stage(rep, PID, gen=["lang"])
    rng = random.Random(seed * 7727 + 1)
    n = 150 if tier == "quick" else 3000
    cases = corpus() + [gen_dag(rng, pow_nodes=(i % 4 == 3)) for i in range(n)]

    failing = {}
    terms, tidx = [], []
    stats = {"hdef_ok": 0, "ends": {}, "phases": {}}
    for ci, case in enumerate(cases):
        o, ri, rg, obs, hdef = oracle(case)
        stats["hdef_ok"] += 1 if hdef else 0
        stats["ends"][ri["end"][0]] = stats["ends"].get(ri["end"][0], 0) + 1
        stats["phases"][str(len(case["phases"]))] = stats["phases"].get(str(len(case["phases"])), 0) + 1
        if o is not None:
            key = o["kind"] + (":known" if classify_known(o, case) else "")
            if key not in failing or len(json.dumps(case)) < len(json.dumps(failing[key][0])):
                failing[key] = (case, o)
        if o is not None and o["kind"] == "builder_raises":
            continue
        use_i = ri if in_universe(ri) and not has_pow(case) else None
        use_g = rg if (hdef and in_universe(rg)) and not has_pow(case) else None
        if use_i is not None or use_g is not None:
            fuel = attempts(ri) + (1 if ri["end"][0] != "cut" else 0)
            if use_g is not None and attempts(rg) != attempts(ri):
                use_g = None      # reported by the oracle; the model is compared with the interpreter
            terms.append(case_term(case, use_i, use_g, obs, fuel))
            tidx.append(ci)

    for key, (case, o) in sorted(failing.items()):
        kf = classify_known(o, case)
        if kf is not None:
            rep.known_finding(kf["what_fails"])
            continue
        c2 = shrink(case, o["kind"])
        o2 = oracle(c2)[0] or o
        try:
            ptxt = str(make_code(c2))
        except Exception as ex:  # noqa: BLE001
            ptxt = "(CodeBuilder raised %s)" % type(ex).__name__
        rep.violation({"what": "interpreter and generated Python class disagree (or generation fails) on a "
                               "builder program", "case": c2, "program": ptxt, "oracle": o2})

    # oracle-only stream outside the model's universe: floating-point time stepping up to t_end, built-ins
    # called positionally and by keyword
    from harness import c01_extras
    bad_extras, n_extras = c01_extras.check_all()
    for name, d in bad_extras[:3]:
        rep.violation({"what": "interpreter and generated Python class disagree on a hand-written program of the "
                               "floating-point / built-in stream (harness/c01_extras.py)", "extra": name, "oracle": d})

    # call argument binding (coq/model/CallBind.v, theorems C01_bind_*): correspondence and oracles
    from harness import c01_bind
    c01_bind.check(rep)

    mism, n_eval, errors = [], 0, []
    if os.path.exists(os.path.join(common.COQ, "model", "StepperCheck.vo")) and \
            os.path.exists(os.path.join(common.COQ, "gen", "GenLang.vo")):
        mism, n_eval, errors = common.eval_cases(PID, HEADER, terms, "chk", shard=10)
        mism = [tidx[i] for i in mism]
    else:
        errors = ["model not built"]
    tie_broken = bool(mism or errors)
    if (not ps["ok"] or tie_broken) and not rep.violations:
        detail = {"what": "proof obligation or model/implementation correspondence no longer checks; "
                          "no failing input found by the implementation-level oracle",
                  "proof_stage": ps, "coq_errors": errors[:3], "n_disagreements": len(mism)}
        if mism:
            detail["first_disagreeing_case"] = {"case": cases[mism[0]], "program": str(make_code(cases[mism[0]]))}
        detail["broken"] = ("theorem file %s" % ps.get("theorem")) if not ps["ok"] else \
            "correspondence NumpyInterpreter.run / generated run ~ Dagrt.Stepper.run"
        rep.violation(detail, no_input=True)
    elif not ps["ok"] or tie_broken:
        rep.coverage["broken_obligation"] = ps if not ps["ok"] else {"disagreements": len(mism)}

    nontriv = len({json.dumps(c) for c in cases if sum(len(p[2]) for p in c["phases"]) >= 4})
    rep.coverage.update(
        evaluations=len(cases), distinct_nontrivial=nontriv,
        rule="random multi-phase builder programs (guards, loops incl. zero-trip, calls, yields, fail_step, "
             "switch_phase, raise_) run by both real backends under max_steps or t_end; non-trivial = at least 4 "
             "builder calls; distinct by program",
        traces_validated_against_impl=n_eval, model_impl_disagreements=len(mism),
        float_and_builtin_programs=n_extras,
        input_distribution=stats,
        samples=[{"program": str(make_code(cases[i])), "mode": cases[i]["mode"], "limit": cases[i]["limit"]}
                 for i in (len(cases) // 2,)],
    )
    rep.assumptions = ["H-def: programs in which an expression reads per-step storage that is unset at that moment are "
                       "compared too; a difference there in which generated code raises is the listed open finding "
                       "unset_temporary_read (None vs UnboundLocalError), anything else is a violation",
                       "A1-A3 as in C02", "emission of Python text is covered by the differential run only"]
    return rep.finish("proof")


def replay(path):
    r = json.load(open(path))
    if "bind_case" in r or "bind_program" in r or "bind_builtin" in r:
        from harness import c01_bind
        return c01_bind.replay(r)
    if "extra" in r:
        from harness import c01_extras
        ex = [e for e in c01_extras.extras() if e[0] == r["extra"]]
        d = c01_extras.first_difference(*c01_extras.run_extra(ex[0])) if ex else "no such program"
        print(json.dumps({"extra": r["extra"], "difference": d}, indent=1, default=str))
        return 1 if d is not None else 0
    if "case" not in r:
        print("replay names a broken obligation, no input: %s" % r.get("broken"))
        return 1
    o = oracle(r["case"])[0]
    print(json.dumps({"oracle": o}, indent=1, default=str))
    return 1 if o is not None else 0
