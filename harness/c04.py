"""C04: each step runs every statement of the phase once, after its dependencies.

Tie: the real dagrt.language.ExecutionController (through the real
NumpyInterpreter.run_single_step for whole steps, and directly for partial plans)
is driven with a recording target object (evaluate_condition / exec_* -- the public
protocol) on all small DAGs x guard valuations and on random DAGs with dynamic
requests, in subprocesses under several PYTHONHASHSEED values.  The iteration orders
of every depends_on frozenset, of phase.depends_on and of every requested set are
captured from the objects and handed to the Coq model (coq/model/Controller.v), which
must reproduce the callback log, the spliced plans and the controller state exactly
(vm_compute).
Oracle: an independent checker of the callback log (each id once, dependencies
before, plan only changes by pop-front / splice-front of exactly the requested closure).
"""
import itertools
import json
import os
import random
import shutil
import subprocess
import sys
import tempfile

from harness import common

PID = "C04"
KINDS = ["Nop", "Assign", "YieldState", "FailStep", "SwitchPhase", "Raise", "AssignFunctionCall"]
EXEC_METHOD = {k: "exec_" + k for k in KINDS}
STOP_NAME = "_C04Stop"


# ------------------------------------------------------------------ worker (runs the implementation)

def _sid(i):
    return "s%d" % i


def _num(s):
    return int(s[1:])


def _build_stmt(kind, i, deps):
    from dagrt import language as L
    from pymbolic import var
    kw = dict(id=_sid(i), depends_on=frozenset(_sid(d) for d in deps))
    g = var("<cond>g%d" % i)
    if kind == "Nop":
        return L.Nop(**kw)
    if kind == "Assign":
        return L.Assign(assignee="x%d" % i, assignee_subscript=(), expression=var("y") + 1, condition=g, **kw)
    if kind == "YieldState":
        return L.YieldState(time_id="t", time=var("<t>"), component_id="y", expression=var("y"), condition=g, **kw)
    if kind == "FailStep":
        return L.FailStep(condition=g, **kw)
    if kind == "SwitchPhase":
        return L.SwitchPhase(next_phase="p", condition=g, **kw)
    if kind == "Raise":
        return L.Raise(error_condition=ValueError, error_message="m", condition=g, **kw)
    if kind == "AssignFunctionCall":
        return L.AssignFunctionCall(assignees=("x%d" % i,), function_id="<func>f", parameters=(var("y"),),
                                    condition=g, **kw)
    raise ValueError(kind)


def _mk_req(spec):
    ids, how = spec
    vals = [_sid(i) for i in ids]
    if how == "set":
        return set(vals)
    if how == "tuple":
        return tuple(vals)
    return list(vals)


def _make_recorder_class():
    from dagrt.exec_numpy import NumpyInterpreter

    class _C04Stop(Exception):
        pass

    class Recorder(NumpyInterpreter):
        """The target object: answers from a script, records every callback."""

        def c04_arm(self, ctrl, script, reqs, log):
            self.c_ctrl, self.c_script, self.c_reqs, self.c_log = ctrl, script, reqs, log
            self.c_pending = None
            self.c_budget = 20 * (len(self.code.phases["p"].statements) + 5)

        def c04_resolve(self, full):
            if self.c_pending is None:
                return
            i, before = self.c_pending
            self.c_pending = None
            k = len(full) - len(before)
            if k < 0:
                self.c_log.append(["splice", i, [], False])
            else:
                self.c_log.append(["splice", i, full[:k], full[k:] == before])

        def _resp(self, stmt):
            return self.c_script.get(str(_num(stmt.id)), ["en"])

        def evaluate_condition(self, stmt):
            i = _num(stmt.id)
            self.c_budget -= 1
            if self.c_budget < 0:       # a controller that keeps re-planning would never stop
                raise RuntimeError("runaway: more callbacks than any duplicate-free run can make")
            snap = [_num(x) for x in self.c_ctrl.plan]
            self.c04_resolve([i] + snap)
            self.c_log.append(["cond", i, snap])
            r = self._resp(stmt)
            if r[0] == "gr":
                raise _C04Stop()
            return r[0] != "gf"

        def _exec(self, name, stmt):
            i = _num(stmt.id)
            self.c_log.append(["exec", i, name])
            r = self._resp(stmt)
            if r[0] == "er":
                raise _C04Stop()
            if r[0] in ("en", "gf", "gr"):
                return None
            _, ev, ab, nd = r
            if nd is not None and not (ev and ab):
                self.c_pending = (i, [_num(x) for x in self.c_ctrl.plan])
            return (("ev", i) if ev else None), (self.c_reqs[str(i)] if nd is not None else None)

    for k in KINDS:
        def mk(name):
            def f(self, stmt):
                return self._exec(name, stmt)
            return f
        setattr(Recorder, "exec_" + k, mk("exec_" + k))
    _C04Stop.__name__ = STOP_NAME
    return Recorder, _C04Stop


def _state(ctrl):
    return [[_num(x) for x in ctrl.plan], sorted(_num(x) for x in ctrl.plan_id_set),
            sorted(_num(x) for x in ctrl.executed_ids)]


def _classify(ex, Stop):
    if isinstance(ex, Stop):
        return "CutShort"
    return "Failed:" + type(ex).__name__


def _drive(gen, rec, script, log, ctrl, Stop):
    """Consume the generator of events; returns the status string."""
    try:
        while True:
            try:
                ev = next(gen)
            except StopIteration:
                rec.c04_resolve([_num(x) for x in ctrl.plan])
                return "Finished"
            i = ev[1]
            log.append(["yield", i])
            r = script.get(str(i), ["en"])
            if r[0] == "ex" and r[2]:
                gen.close()
                return "CutShort"
    except Exception as ex:  # noqa: BLE001 - the class is the observable
        return _classify(ex, Stop)


def run_case(case, Recorder, Stop):
    from dagrt import language as L
    stmts = [_build_stmt(k, i, deps) for i, deps, k in case["stmts"]]
    phase = L.ExecutionPhase("p", "p", stmts)
    out = {"dep_orders": [[_num(d) for d in list(s.depends_on)] for s in stmts]}
    try:
        out["root_order"] = [_num(x) for x in list(phase.depends_on)]
    except Exception as ex:  # noqa: BLE001
        out["root_order"] = None
        out["root_exc"] = type(ex).__name__
    code = L.DAGCode(phases={"p": phase}, initial_phase="p")
    rec = Recorder(code, {})
    ctrl = rec.exec_controller
    ops = []
    for op in case["ops"]:
        r = {}
        if op[0] == "reset":
            ctrl.reset()
            r["res"] = "ok"
        elif op[0] == "update":
            obj = _mk_req([op[1], op[2]])
            r["order"] = [_num(x) for x in list(obj)]
            try:
                ctrl.update_plan(phase, obj)
                r["res"] = "ok"
            except Exception as ex:  # noqa: BLE001
                r["res"] = type(ex).__name__
        elif op[0] in ("run", "step"):
            script = op[1]
            reqs, orders = {}, {}
            for k, resp in script.items():
                if resp[0] == "ex" and resp[3] is not None:
                    reqs[k] = _mk_req(resp[3])
                    orders[k] = [_num(x) for x in list(reqs[k])]
            log = []
            rec.c04_arm(ctrl, script, reqs, log)
            if op[0] == "run":
                gen = ctrl(phase, rec)
            else:
                gen = rec.run_single_step()
            r["status"] = _drive(gen, rec, script, log, ctrl, Stop)
            r["log"] = log
            r["req_orders"] = orders
        else:
            raise ValueError(op)
        r["state"] = _state(ctrl)
        ops.append(r)
    out["ops"] = ops
    return out


def worker_main():
    sys.setrecursionlimit(600)
    src, dst = sys.argv[-2], sys.argv[-1]
    cases = json.load(open(src))
    Recorder, Stop = _make_recorder_class()
    res = []
    for c in cases:
        try:
            res.append(run_case(c, Recorder, Stop))
        except Exception as ex:  # noqa: BLE001 - harness-level failure, reported as such
            res.append({"harness_error": "%s: %s" % (type(ex).__name__, ex)})
    with open(dst, "w") as f:
        json.dump(res, f)


def run_impl(cases, hashseeds, tmp):
    """Run all cases under each hash seed (parallel subprocesses). -> {seed: [result]}"""
    src = os.path.join(tmp, "cases.json")
    with open(src, "w") as f:
        json.dump(cases, f)
    procs = []
    for hs in hashseeds:
        dst = os.path.join(tmp, "res_%d.json" % hs)
        env = dict(os.environ, PYTHONHASHSEED=str(hs), PYTHONPATH="%s:%s" % (common.REPO, common.VERIF))
        p = subprocess.Popen([sys.executable, "-c", "from harness import c04; c04.worker_main()", src, dst],
                             env=env, cwd=tmp, stdout=subprocess.PIPE, stderr=subprocess.PIPE, text=True)
        procs.append((hs, dst, p))
    out = {}
    for hs, dst, p in procs:
        so, se = p.communicate(timeout=900)
        if p.returncode != 0 or not os.path.exists(dst):
            raise RuntimeError("worker for PYTHONHASHSEED=%d failed: %s" % (hs, (so + se)[-2000:]))
        out[hs] = json.load(open(dst))
        os.unlink(dst)
    return out


# ------------------------------------------------------------------ oracle (independent of the model)

def _wf(case):
    ids = [s[0] for s in case["stmts"]]
    if len(set(ids)) != len(ids):
        return False
    deps = {s[0]: set(s[1]) for s in case["stmts"]}
    if any(d not in deps for ds in deps.values() for d in ds):
        return False
    done, active = set(), set()

    def go(x):
        if x in done:
            return True
        if x in active:
            return False
        active.add(x)
        ok = all(go(d) for d in deps[x])
        active.discard(x)
        done.add(x)
        return ok
    return all(go(x) for x in ids)


class _Bad(Exception):
    def __init__(self, kind, **kw):
        Exception.__init__(self, kind)
        self.kind, self.info = kind, kw


def oracle(case, result):
    """Decide the property on the implementation's recorded behaviour for one case.
    Returns (None | dict(kind=..., ...), n_excused)."""
    if case["mode"] == "malformed" or not _wf(case):
        return None, 0
    try:
        return None, _oracle(case, result)
    except _Bad as b:
        d = dict(b.info)
        d["kind"] = b.kind
        return d, 0


def _oracle(case, result):
    if "harness_error" in result:
        raise _Bad("harness_error", detail=result["harness_error"])
    deps = {s[0]: set(s[1]) for s in case["stmts"]}
    kinds = {s[0]: s[2] for s in case["stmts"]}
    allids = set(deps)
    if set(result["root_order"] or []) != {i for i in allids if not any(i in ds for ds in deps.values())} \
            or len(result["root_order"]) != len(set(result["root_order"])):
        raise _Bad("roots", got=result["root_order"])
    visited = []          # since the last reset
    vset = set()
    cur_plan = []
    excused = set()       # (z, d): z was requested while its dependency d was already planned
    n_excused = 0

    def check_splice(req, before, after, where):
        k = len(after) - len(before)
        if k < 0 or after[k:] != before:
            raise _Bad("planned_tail_changed", where=where, before=before, after=after)
        early = after[:k]
        bset = set(before)
        new, stack = set(), [r for r in req]
        while stack:
            x = stack.pop()
            if x in vset or x in bset or x in new:
                continue
            new.add(x)
            stack.extend(deps[x])
        if len(set(early)) != len(early):
            raise _Bad("twice", where=where, early=early)
        if set(early) != new:
            raise _Bad("requested_first", where=where, requested=sorted(req), expected_in_front=sorted(new),
                       got_in_front=early, planned_before=before)
        for pos, z in enumerate(early):
            for d in deps[z]:
                if d in vset or d in early[:pos]:
                    continue
                if d in bset and case["mode"] == "api":
                    excused.add((z, d))
                    continue
                raise _Bad("dep_order", where=where, stmt=z, dep=d, early=early)

    for op, r in zip(case["ops"], result["ops"]):
        st = r["state"]
        if op[0] == "reset":
            if st != [[], [], []]:
                raise _Bad("reset", state=st)
            visited, vset, cur_plan = [], set(), []
            excused = set()
            continue
        if op[0] == "update":
            if any(i not in allids for i in op[1]):
                if r["res"] != "KeyError":
                    raise _Bad("controller_error", got=r["res"], expected="KeyError")
                if st[0] != cur_plan:
                    raise _Bad("planned_tail_changed", where="failed update", before=cur_plan, after=st[0])
                continue
            if r["res"] != "ok":
                raise _Bad("controller_error", got=r["res"], op=op)
            check_splice(op[1], cur_plan, st[0], "update_plan%r" % (op[1],))
            cur_plan = st[0]
            if sorted(st[0]) != st[1] or sorted(vset) != st[2]:
                raise _Bad("state_sets", state=st)
            continue
        # run / step
        script, log, status = op[1], r["log"], r["status"]
        first = op[0] == "step"
        if first:
            visited, vset, cur_plan, excused = [], set(), None, set()
        stopped = False
        expect = []          # entries that have to come next, in order: ("exec"|"yield"|"splice", i)
        for e in log:
            if stopped:
                raise _Bad("callback_after_stop", entry=e)
            resp = script.get(str(e[1]), ["en"])
            if expect:
                if (e[0], e[1]) != expect[0]:
                    raise _Bad("protocol", expected=expect[0], got=e)
                expect = expect[1:]
            elif e[0] != "cond":
                raise _Bad("protocol", expected="evaluate_condition of the next planned statement", got=e)
            if e[0] == "cond":
                j, snap = e[1], e[2]
                if cur_plan is None:      # first callback of a whole step: this is the initial plan
                    cur_plan = [j] + snap
                    if len(set(cur_plan)) != len(cur_plan):
                        raise _Bad("twice", where="initial plan", plan=cur_plan)
                    if set(cur_plan) != allids:
                        raise _Bad("skipped", where="initial plan", plan=cur_plan,
                                   missing=sorted(allids - set(cur_plan)))
                if not cur_plan or cur_plan[0] != j or cur_plan[1:] != snap:
                    raise _Bad("order", expected_plan=cur_plan, popped=j, plan_after=snap)
                if j in vset:
                    raise _Bad("twice", stmt=j, visited=visited)
                for d in deps.get(j, ()):
                    if d not in vset:
                        if (j, d) in excused:
                            n_excused += 1
                            continue
                        raise _Bad("dep_order", stmt=j, dep=d, visited=visited)
                visited.append(j)
                vset.add(j)
                cur_plan = snap
                if resp[0] == "gr":
                    stopped = True
                elif resp[0] != "gf":
                    expect = [("exec", j)]
            elif e[0] == "exec":
                i = e[1]
                if e[2] != EXEC_METHOD[kinds[i]]:
                    raise _Bad("protocol", got=e, expected=EXEC_METHOD[kinds[i]])
                if resp[0] == "er":
                    stopped = True
                elif resp[0] == "ex":
                    if resp[1]:
                        expect.append(("yield", i))
                    if resp[3] is not None and not (resp[1] and resp[2]):
                        expect.append(("splice", i))
            elif e[0] == "yield":
                if resp[2]:
                    stopped = True
            elif e[0] == "splice":
                if any(x not in allids for x in resp[3][0]):
                    raise _Bad("controller_error", got="request outside the phase accepted", expected="KeyError")
                if not e[3]:
                    raise _Bad("planned_tail_changed", where="request at %d" % e[1], early=e[2])
                check_splice(resp[3][0], cur_plan, e[2] + cur_plan, "request at %d" % e[1])
                cur_plan = e[2] + cur_plan
        key_error_ok = bool(expect) and expect[0][0] == "splice" and any(
            x not in allids for x in script[str(expect[0][1])][3][0])
        if status == "Finished":
            if expect:
                raise _Bad("protocol", expected=expect[0], got="end of run")
            if stopped:
                raise _Bad("callback_after_stop", entry="finished although the target stopped")
            if cur_plan:
                raise _Bad("skipped", where="finished with a non-empty plan", plan=cur_plan)
            if first and cur_plan is None and allids:
                raise _Bad("skipped", where="no callback at all", missing=sorted(allids))
            if first and vset != allids:
                raise _Bad("skipped", missing=sorted(allids - vset), visited=visited)
        elif status == "CutShort":
            if not stopped:
                raise _Bad("controller_error", got="stopped without a stopping answer", log_tail=log[-3:])
        elif status == "Failed:KeyError" and key_error_ok:
            pass                    # a request named an id outside the phase
        else:
            raise _Bad("controller_error", got=status, log_tail=log[-3:])
        if cur_plan is not None and st[0] != cur_plan:
            raise _Bad("order", where="final state", expected_plan=cur_plan, plan=st[0])
        if sorted(st[0]) != st[1] or sorted(vset) != st[2]:
            raise _Bad("state_sets", state=st, visited=sorted(vset))
    return n_excused


# ------------------------------------------------------------------ Coq terms

def _nl(l):
    return "[" + ";".join(str(x) for x in l) + "]"


def _resp_coq(resp, order):
    k = resp[0]
    if k == "gr":
        return "RGuardRaise"
    if k == "gf":
        return "RGuardFalse"
    if k == "er":
        return "RExecRaise"
    if k == "en":
        return "RExecNone"
    nd = "None" if resp[3] is None else "(Some %s)" % _nl(order)
    return "(RExec %s %s %s)" % ("true" if resp[1] else "false", "true" if resp[2] else "false", nd)


def _status_coq(s):
    return {"Finished": "Finished", "CutShort": "CutShort", "Failed:KeyError": "(Failed KeyError)",
            "Failed:AssertionError": "(Failed AssertionError)",
            "Failed:RecursionError": "DfsOutOfFuel"}.get(s, "LoopOutOfFuel")


def _log_coq(log):
    out = []
    for e in log:
        if e[0] == "cond":
            out.append("LCond %d" % e[1])
        elif e[0] == "exec":
            out.append("LExec %d" % e[1])
        elif e[0] == "yield":
            out.append("LYield %d" % e[1])
        else:
            out.append("LSplice %d %s" % (e[1], _nl(e[2])))
    return "[" + ";".join(out) + "]"


def case_term(case, result):
    ph = "[" + ";".join("mkStmt %d %s" % (s[0], _nl(o)) for s, o in zip(case["stmts"], result["dep_orders"])) + "]"
    ops = []
    for op, r in zip(case["ops"], result["ops"]):
        snap = "(sn %s %s %s)" % tuple(_nl(x) for x in r["state"])
        if op[0] == "reset":
            t = "XReset"
        elif op[0] == "update":
            res = {"ok": "XOk", "KeyError": "(XRaise KeyError)", "AssertionError": "(XRaise AssertionError)",
                   "RecursionError": "XRec"}.get(r["res"], "XOther")
            t = "XUpdate %s %s" % (_nl(r["order"]), res)
        else:
            tbl = "[" + ";".join("(%s,%s)" % (k, _resp_coq(v, r["req_orders"].get(k)))
                                 for k, v in sorted(op[1].items(), key=lambda kv: int(kv[0]))) + "]"
            if op[0] == "run":
                t = "XRun %s %s %s" % (tbl, _log_coq(r["log"]), _status_coq(r["status"]))
            else:
                t = "XStep %s %s %s %s" % (_nl(result["root_order"] or []), tbl, _log_coq(r["log"]),
                                           _status_coq(r["status"]))
        ops.append("(%s,%s)" % (t, snap))
    return "(mkc %s [%s])" % (ph, ";".join(ops))


HEADER = r"""From Coq Require Import List Arith Bool.
Import ListNotations.
From Dagrt Require Import GenC04 Controller.
Inductive xres := XOk | XRaise (e : exc) | XRec | XOther.
Inductive xop :=
| XReset
| XUpdate (req : list nat) (r : xres)
| XRun (tbl : list (nat * response)) (log : list log_entry) (s : status)
| XStep (roots_order : list nat) (tbl : list (nat * response)) (log : list log_entry) (s : status).
Fixpoint leqb (a b : list nat) : bool :=
  match a, b with [], [] => true | x :: a', y :: b' => Nat.eqb x y && leqb a' b' | _, _ => false end.
Definition seteqb (a b : list nat) : bool := forallb (fun x => mem x b) a && forallb (fun x => mem x a) b.
Definition exc_eqb (a b : exc) : bool :=
  match a, b with KeyError, KeyError => true | AssertionError, AssertionError => true | _, _ => false end.
Definition status_eqb (a b : status) : bool :=
  match a, b with
  | Finished, Finished => true | CutShort, CutShort => true | Failed x, Failed y => exc_eqb x y
  | DfsOutOfFuel, DfsOutOfFuel => true | _, _ => false end.
Definition entry_eqb (a b : log_entry) : bool :=
  match a, b with
  | LCond i, LCond j => Nat.eqb i j | LExec i, LExec j => Nat.eqb i j | LYield i, LYield j => Nat.eqb i j
  | LSplice i e, LSplice j f => Nat.eqb i j && leqb e f | _, _ => false end.
Fixpoint logeqb (a b : list log_entry) : bool :=
  match a, b with [], [] => true | x :: a', y :: b' => entry_eqb x y && logeqb a' b' | _, _ => false end.
Definition target_of (tbl : list (nat * response)) : list nat -> nat -> response :=
  fun _ i => match find (fun p => Nat.eqb (fst p) i) tbl with Some p => snd p | None => RExecNone end.
Definition snap := (list nat * list nat * list nat)%type.
Definition snap_ok (st : cstate) (s : snap) : bool :=
  match s with (p, pl, ex) => leqb (plan st) p && seteqb (planned st) pl && seteqb (executed st) ex end.
Definition out_ok (o : outcome) (log : list log_entry) (s : status) (sn : snap) : bool :=
  logeqb (o_log o) log && status_eqb (o_status o) s && snap_ok (o_state o) sn.
Fixpoint go (ph : phase) (ops : list (xop * snap)) (st : cstate) : bool :=
  match ops with
  | [] => true
  | (XReset, sn) :: r => snap_ok (reset st) sn && go ph r (reset st)
  | (XUpdate req xr, sn) :: r =>
      match update_plan ph st req, xr with
      | Ok (_, st'), XOk => snap_ok st' sn && go ph r st'
      | Raise e, XRaise e' => exc_eqb e e' && snap_ok st sn && go ph r st
      | OutOfFuel, XRec => snap_ok st sn && go ph r st
      | _, _ => false
      end
  | (XRun tbl log s, sn) :: r =>
      let o := run ph (target_of tbl) (run_fuel ph st) st [] in
      out_ok o log s sn && go ph r (o_state o)
  | (XStep ro tbl log s, sn) :: r =>
      let o := run_single_step st ph ro (target_of tbl) in
      seteqb ro (roots ph) && out_ok o log s sn && go ph r (o_state o)
  end.
Definition chk (c : phase * list (xop * snap)) : bool :=
  controller_source_shape_ok && go (fst c) (snd c) (mkState [] [] []).
Definition sn (p pl ex : list nat) : snap := (p, pl, ex).
Definition mkc (ph : phase) (ops : list (xop * snap)) : phase * list (xop * snap) := (ph, ops).
"""


# ------------------------------------------------------------------ generation

def all_dags(n):
    """All labelled DAGs on n nodes as dep lists (edge i -> d means i depends on d)."""
    pairs = [(i, d) for i in range(n) for d in range(n) if i != d]
    out = []
    for mask in range(1 << len(pairs)):
        deps = {i: [] for i in range(n)}
        for b, (i, d) in enumerate(pairs):
            if mask >> b & 1:
                deps[i].append(d)
        # acyclic?
        indeg_ok, left = True, set(range(n))
        while left:
            free = [x for x in left if not any(d in left for d in deps[x])]
            if not free:
                indeg_ok = False
                break
            left -= set(free)
        if indeg_ok:
            out.append(deps)
    return out


def topo_dags(n):
    """DAGs whose edges go from larger to smaller ids (every DAG up to relabelling)."""
    pairs = [(i, d) for i in range(n) for d in range(i)]
    for mask in range(1 << len(pairs)):
        deps = {i: [] for i in range(n)}
        for b, (i, d) in enumerate(pairs):
            if mask >> b & 1:
                deps[i].append(d)
        yield deps


def _rand_req(rng, n, outside=0.02):
    k = rng.choice([0, 1, 1, 1, 2, 2, 3])
    ids = [rng.randrange(n) for _ in range(k)] if n else []
    if rng.random() < outside:
        ids.append(n + rng.randrange(3))
    how = rng.choice(["list", "list", "set", "set", "tuple"])
    if how == "set":
        ids = sorted(set(ids))
    return [ids, how]


def _rand_script(rng, n, p_stop=0.03, p_req=0.3, outside=0.02):
    script = {}
    for i in range(n):
        x = rng.random()
        if x < 0.22:
            script[str(i)] = ["gf"]
        elif x < 0.22 + p_stop / 2:
            script[str(i)] = ["gr"]
        elif x < 0.22 + p_stop:
            script[str(i)] = ["er"]
        elif x < 0.30 + p_stop + p_req:
            ev = rng.random() < 0.5
            ab = ev and rng.random() < p_stop
            nd = None if rng.random() < 0.25 else _rand_req(rng, n, outside)
            script[str(i)] = ["ex", ev, ab, nd]
        # else default: guard true, exec returns None
    return script


def _rand_dag(rng, n):
    perm = list(range(n))
    rng.shuffle(perm)                 # perm[k] = id at topological position k
    dens = rng.choice([0.1, 0.2, 0.3, 0.5, 0.8])
    deps = {i: [] for i in range(n)}
    for a in range(n):
        for b in range(a):
            if rng.random() < dens:
                deps[perm[a]].append(perm[b])
    return deps


def _stmts(rng, deps):
    return [[i, sorted(deps[i]), rng.choice(KINDS)] for i in sorted(deps)]


def gen_cases(tier, seed):
    rng = random.Random(seed * 7919 + 4)
    cases = []
    # corpus
    d = os.path.join(common.VERIF, "corpus", PID)
    if os.path.isdir(d):
        for f in sorted(os.listdir(d)):
            if f.endswith(".json"):
                cases.append(json.load(open(os.path.join(d, f)))["case"])
    n_corpus = len(cases)
    # exhaustive: every labelled DAG on <= nmax nodes x every guard valuation, one whole step each,
    # with random dynamic requests on the statements whose guard holds
    nmax = 4
    n_graphs = 0
    for n in range(0, nmax + 1):
        graphs = all_dags(n) if (n < 4 or tier != "quick") else list(topo_dags(n))
        for deps in graphs:
            n_graphs += 1
            for val in itertools.product((True, False), repeat=n):
                script = {}
                for i in range(n):
                    if not val[i]:
                        script[str(i)] = ["gf"]
                    elif rng.random() < 0.4:
                        script[str(i)] = ["ex", rng.random() < 0.5, False, _rand_req(rng, n, 0.0)]
                cases.append({"mode": "step", "stmts": _stmts(rng, deps), "ops": [["step", script]]})
    n_exh = len(cases) - n_corpus
    if tier == "quick":
        # all 543 labelled DAGs on 4 nodes, one random guard valuation each
        for deps in all_dags(4):
            script = {str(i): ["gf"] for i in range(4) if rng.random() < 0.5}
            cases.append({"mode": "step", "stmts": _stmts(rng, deps), "ops": [["step", script]]})
    n_lab = len(cases) - n_corpus - n_exh
    # random structured
    nrand = 2000 if tier == "quick" else 12000
    modes = {"step": 0, "step2": 0, "api": 0, "malformed": 0}
    for _ in range(nrand):
        n = rng.choice([1, 2, 3, 4, 5, 6, 7, 8, 9, 10, 11, 12, 12, 12])
        deps = _rand_dag(rng, n)
        x = rng.random()
        if x < 0.5:
            modes["step"] += 1
            c = {"mode": "step", "stmts": _stmts(rng, deps), "ops": [["step", _rand_script(rng, n)]]}
        elif x < 0.65:
            modes["step2"] += 1
            c = {"mode": "step", "stmts": _stmts(rng, deps),
                 "ops": [["step", _rand_script(rng, n, p_stop=0.25)], ["step", _rand_script(rng, n)]]}
        elif x < 0.93:
            modes["api"] += 1
            ops = [["reset"]]
            for _k in range(rng.choice([1, 1, 2, 3])):
                ops.append(["update"] + _rand_req(rng, n, 0.02))
                ops.append(["run", _rand_script(rng, n, p_stop=0.05, p_req=0.45)])
                if rng.random() < 0.15:
                    ops.append(["reset"])
            c = {"mode": "api", "stmts": _stmts(rng, deps), "ops": ops}
        else:
            modes["malformed"] += 1
            stmts = _stmts(rng, deps)
            y = rng.random()
            if y < 0.4 and n >= 1:       # a cycle
                a = rng.randrange(n)
                b = rng.randrange(n)
                stmts[a][1] = sorted(set(stmts[a][1]) | {b})
                stmts[b][1] = sorted(set(stmts[b][1]) | {a})
            elif y < 0.7:                # a dependency outside the phase
                a = rng.randrange(n)
                stmts[a][1] = sorted(set(stmts[a][1]) | {n + rng.randrange(2)})
            else:                        # duplicate id
                a = rng.randrange(n)
                stmts.insert(rng.randrange(len(stmts) + 1), [a, sorted(rng.sample(range(n), min(n, 2))),
                                                            rng.choice(KINDS)])
            ops = [["step", _rand_script(rng, n)]] if rng.random() < 0.6 else \
                [["reset"], ["update"] + _rand_req(rng, n, 0.1), ["run", _rand_script(rng, n)]]
            c = {"mode": "malformed", "stmts": stmts, "ops": ops}
        cases.append(c)
    dist = {"corpus": n_corpus, "exhaustive": n_exh, "exhaustive_graphs": n_graphs,
            "labelled_4node_dags_one_valuation": n_lab, "random": nrand, "random_modes": modes,
            "exhaustive_scope": "every labelled DAG on <= %s nodes (4 nodes: %s) x every guard valuation, "
                                "one whole step through NumpyInterpreter.run_single_step, random requests"
                                % ("3" if tier == "quick" else "4",
                                   "all 64 topologically numbered DAGs x all valuations + all 543 labelled DAGs x "
                                   "one random valuation" if tier == "quick" else "all 543 labelled DAGs")}
    return cases, dist


# ------------------------------------------------------------------ shrinking

def _size(case):
    return (len(case["stmts"]) * 100 + sum(len(s[1]) for s in case["stmts"]) * 10 + len(case["ops"]) * 5
            + sum(len(op[1]) for op in case["ops"] if op[0] in ("run", "step"))
            + sum(1 for s in case["stmts"] if s[2] != "Nop"))


def _drop_node(case, k):
    def m(i):
        return i - 1 if i > k else i

    def mreq(nd):
        return None if nd is None else [[m(i) for i in nd[0] if i != k], nd[1]]
    stmts = [[m(i), [m(d) for d in ds if d != k], kind] for i, ds, kind in case["stmts"] if i != k]
    ops = []
    for op in case["ops"]:
        if op[0] == "update":
            ops.append(["update", [m(i) for i in op[1] if i != k], op[2]])
        elif op[0] in ("run", "step"):
            sc = {}
            for key, r in op[1].items():
                if int(key) == k:
                    continue
                sc[str(m(int(key)))] = r if r[0] != "ex" else ["ex", r[1], r[2], mreq(r[3])]
            ops.append([op[0], sc])
        else:
            ops.append(op)
    return dict(case, stmts=stmts, ops=ops)


def _neighbours(case):
    for i, _, _ in case["stmts"]:
        yield _drop_node(case, i)
    for idx, (i, ds, kind) in enumerate(case["stmts"]):
        for d in ds:
            st = [list(s) for s in case["stmts"]]
            st[idx] = [i, [x for x in ds if x != d], kind]
            yield dict(case, stmts=st)
    if len(case["ops"]) > 1:
        yield dict(case, ops=case["ops"][:-1])
    for oi, op in enumerate(case["ops"]):
        if op[0] in ("run", "step"):
            for key in list(op[1]):
                sc = dict(op[1])
                del sc[key]
                yield dict(case, ops=case["ops"][:oi] + [[op[0], sc]] + case["ops"][oi + 1:])
    for idx, (i, ds, kind) in enumerate(case["stmts"]):
        if kind != "Nop":
            st = [list(s) for s in case["stmts"]]
            st[idx] = [i, ds, "Nop"]
            yield dict(case, stmts=st)


def shrink(case, hashseed, kind, tmp, rounds=40):
    for _ in range(rounds):
        cands = [c for c in _neighbours(case) if _size(c) < _size(case)]
        if not cands:
            break
        res = run_impl(cands, [hashseed], tmp)[hashseed]
        nxt = None
        for c, r in zip(cands, res):
            o, _ = oracle(c, r)
            if o is not None and o["kind"] == kind and (nxt is None or _size(c) < _size(nxt)):
                nxt = c
        if nxt is None:
            break
        case = nxt
    return case


# ------------------------------------------------------------------ the check

def _nontrivial(case):
    if not any(s[1] for s in case["stmts"]):
        return False
    for op in case["ops"]:
        if op[0] in ("run", "step") and any(r[0] != "en" for r in op[1].values()):
            return True
    return False


def main(tier):
    rep = common.Reporter(PID, tier)
    seed = common.seed()
    ps = common.proof_stage(rep, PID, gen=["c04"], extra_targets=["gen/GenC04.vo"])
    hashseeds = [0, 1, 2, 3, 4] if tier == "quick" else [0, 1, 2, 3, 4, 5]
    tmp = tempfile.mkdtemp(prefix="c04_")
    try:
        cases, dist = gen_cases(tier, seed)
        try:
            results = run_impl(cases, hashseeds, tmp)
        except Exception as ex:  # noqa: BLE001 - fail closed: the tie cannot be checked
            rep.violation({"what": "the implementation could not be driven (worker failed or timed out)",
                           "detail": "%s: %s" % (type(ex).__name__, str(ex)[-1500:]),
                           "broken": "correspondence ExecutionController ~ Dagrt.Controller"}, no_input=True)
            rep.coverage.update(evaluations=0, distinct_nontrivial=0, rule="worker failed", samples=[],
                                traces_validated_against_impl=0)
            return rep.finish("proof")

        # implementation-level oracle on every (case, hash seed)
        failing = {}
        n_excused = 0
        for hs in hashseeds:
            for c, r in zip(cases, results[hs]):
                o, ne = oracle(c, r)
                n_excused += ne
                if o is not None:
                    key = o["kind"]
                    if key not in failing or _size(c) < _size(failing[key][0]):
                        failing[key] = (c, hs, o)
        for key, (c, hs, o) in sorted(failing.items()):
            c2 = shrink(c, hs, key, tmp)
            r2 = run_impl([c2], [hs], tmp)[hs][0]
            o2, _ = oracle(c2, r2)
            rep.violation({"what": "ExecutionController: a step does not run every statement exactly once after "
                                   "its dependencies / dynamic request not honoured (kind: %s)" % key,
                           "case": c2, "hashseed": hs, "impl_result": r2, "oracle": o2 or o,
                           "replay": "./check C04 --replay <this file>"})

        # correspondence with the Coq model
        terms, index = [], {}
        pairs = 0
        for hs in hashseeds:
            for k, (c, r) in enumerate(zip(cases, results[hs])):
                if "harness_error" in r:
                    continue
                t = case_term(c, r)
                pairs += 1
                if t not in index:
                    index[t] = (len(terms), hs, k)
                    terms.append(t)
        mism, n_eval, errors = [], 0, []
        if os.path.exists(os.path.join(common.COQ, "model", "Controller.vo")) and os.path.exists(
                os.path.join(common.COQ, "gen", "GenC04.vo")):
            mism, n_eval, errors = common.eval_cases(PID, HEADER, terms, "chk", shard=400)
        else:
            errors = ["model not built"]
        herr = [r["harness_error"] for hs in hashseeds for r in results[hs] if "harness_error" in r]
        if herr:
            errors.append("harness errors: %r" % herr[:3])

        tie_broken = bool(mism or errors)
        if (not ps["ok"] or tie_broken) and not rep.violations:
            detail = {"what": "proof obligation or model/implementation correspondence no longer checks; "
                              "no failing input found by the implementation-level oracle",
                      "proof_stage": ps, "coq_errors": errors[:3]}
            if mism:
                by_idx = {v[0]: v for v in index.values()}
                _, hs, k = by_idx[mism[0]]
                detail["first_disagreeing_case"] = {"case": cases[k], "hashseed": hs, "impl_result": results[hs][k],
                                                    "coq_term": terms[mism[0]]}
                detail["n_disagreements"] = len(mism)
            detail["broken"] = ("theorem file %s" % ps.get("theorem")) if not ps["ok"] else \
                "correspondence ExecutionController ~ Dagrt.Controller (update_plan / run / run_single_step)"
            rep.violation(detail, no_input=True)
        elif not ps["ok"] or tie_broken:
            rep.coverage["broken_obligation"] = ps if not ps["ok"] else {"disagreements": len(mism)}

        order_sigs = {}
        for k, c in enumerate(cases):
            order_sigs[k] = len({json.dumps([results[hs][k].get("dep_orders"), results[hs][k].get("root_order")])
                                 for hs in hashseeds})
        distinct = len({json.dumps(c, sort_keys=True) for c in cases if _nontrivial(c)})
        mid = len(cases) // 2
        rep.coverage.update(
            evaluations=len(cases) * len(hashseeds), cases=len(cases), hash_seeds=hashseeds,
            distinct_nontrivial=distinct,
            rule="cases = corpus + every small DAG x guard valuation (whole steps) + random DAGs <= 12 nodes "
                 "(whole steps, repeated steps on one controller, partial plans through update_plan, malformed "
                 "phases), each run under every listed PYTHONHASHSEED; non-trivial = the phase has a dependency "
                 "edge and the target gives a non-default answer (guard false, request, event or stop); distinct by "
                 "case structure (not multiplied by hash seeds)",
            traces_validated_against_impl=n_eval, case_seed_pairs=pairs,
            cases_whose_set_orders_differ_between_seeds=sum(1 for v in order_sigs.values() if v > 1),
            model_impl_disagreements=len(mism),
            input_distribution=dist,
            size_histogram={str(n): sum(1 for c in cases if len(c["stmts"]) == n) for n in range(0, 14)},
            observations={"api_mode_requested_statement_ran_before_already_planned_dependency": n_excused,
                          "note": "only through direct update_plan use with a partial plan (never in a step); "
                                  "see design/C04.md"},
            samples=[{"case": cases[i], "impl_hashseed0": results[hashseeds[0]][i]} for i in
                     sorted({0, mid, len(cases) - 1})],
            exhaustive=False,
        )
        rep.assumptions = [
            "the target object follows the documented protocol: exec_* returns None or a pair (event, new_deps)",
            "iterating an unchanged set/frozenset object twice in one process gives the same order",
            "a phase is well-formed when ids are unique, dependencies name statements of the phase, no cycle "
            "(what verify_code accepts, C10)"]
        return rep.finish("proof")
    finally:
        shutil.rmtree(tmp, ignore_errors=True)


def replay(path):
    r = json.load(open(path))
    c = r.get("case") or (r.get("first_disagreeing_case") or {}).get("case")
    if c is None:
        print("replay names a broken obligation, no input: %s" % r.get("broken"))
        return 1
    hs = r.get("hashseed", (r.get("first_disagreeing_case") or {}).get("hashseed", 0))
    tmp = tempfile.mkdtemp(prefix="c04_")
    try:
        res = run_impl([c], [hs], tmp)[hs][0]
    finally:
        shutil.rmtree(tmp, ignore_errors=True)
    o, _ = oracle(c, res)
    print(json.dumps({"case": c, "hashseed": hs, "impl_result": res, "oracle": o}, indent=1))
    return 1 if o is not None else 0
